"""Source overlay: a scratch copy of /repo's working tree (under /verif/build) to which only *new modules*
are added (public wrappers for crate-private functions, Kani harness modules). The compiled code is the
real crate. Used by the replay crate (counterexample search on the real code) and by the Kani runner."""
import json
import os
import shutil
import subprocess
import threading
import time

from .unit import ROOT, REPO

BUILD = os.path.join(ROOT, "build")
OVERLAY = os.path.join(BUILD, "overlay")
REPLAY_DIR = os.path.join(ROOT, "replay")
REPLAY_TARGET = os.path.join(BUILD, "replay-target")
_lock = threading.Lock()
_synced = False

# Appended text: every file /verif/replay/exports/<a>__<b>__<c>.rs is appended to <a>/<b>/<c>.rs of the overlay copy
# (an inline `pub mod vx_export { use super::*; .. }` child module can reach private items of its parent), and every
# file /verif/kani/<a>__<b>.rs likewise (wrapped in #[cfg(kani)]). Nothing of the original text is changed.
APPEND_DIRS = [os.path.join(ROOT, "replay", "exports"), os.path.join(ROOT, "kani")]


def _append_map():
    res = {}
    for d in APPEND_DIRS:
        if not os.path.isdir(d):
            continue
        for fn in sorted(os.listdir(d)):
            if not fn.endswith(".rs") or "__" not in fn:
                continue
            target = fn.replace("__", "/")
            res.setdefault(target, []).append(os.path.join(d, fn))
    return res


def _write_if_changed(path, content):
    try:
        with open(path) as f:
            if f.read() == content:
                return False
    except FileNotFoundError:
        pass
    os.makedirs(os.path.dirname(path), exist_ok=True)
    with open(path, "w") as f:
        f.write(content)
    return True


def sync():
    """Bring the overlay up to date with the working tree (mtimes preserved so cargo rebuilds only what changed)."""
    global _synced
    with _lock:
        if _synced:
            return
        os.makedirs(OVERLAY, exist_ok=True)
        excl = ["--exclude", "/target", "--exclude", ".git", "--exclude", "/.cargo"]
        amap = _append_map()
        for t in amap:
            excl += ["--exclude", "/" + t]
        excl += ["--exclude", "/akd_core/Cargo.toml"]
        # no -t: a file whose CONTENT differs is rewritten with the current time (cargo fingerprints by mtime, and a restored
        # file with an older mtime than the last build would otherwise leave stale object code behind); identical files are skipped
        subprocess.run(["rsync", "-rlpgoD", "--checksum", "--delete"] + excl + [REPO + "/", OVERLAY + "/"], check=True)
        for t, files in amap.items():
            srcp = os.path.join(REPO, t)
            if not os.path.exists(srcp):
                raise FileNotFoundError("overlay target %s does not exist in the working tree" % t)
            with open(srcp) as f:
                txt = f.read()
            for fp in files:
                with open(fp) as g:
                    txt += "\n// ---- appended by /verif overlay: %s\n" % os.path.relpath(fp, ROOT) + g.read()
            _write_if_changed(os.path.join(OVERLAY, t), txt)
        # `cargo kani --features` is applied to every workspace member, so the protobuf conversions of akd_core (on in the
        # pinned test build through akd's public_auditing) are switched on through the overlay copy's default features
        with open(os.path.join(REPO, "akd_core", "Cargo.toml")) as f:
            ct = f.read()
        ct2 = ct.replace('default = ["vrf", "experimental"]', 'default = ["vrf", "experimental", "protobuf", "whatsapp_v1"]')
        if ct2 == ct:
            raise FileNotFoundError("akd_core/Cargo.toml: default feature line not found")
        _write_if_changed(os.path.join(OVERLAY, "akd_core", "Cargo.toml"), ct2)
        # offline cargo config for everything built from the overlay
        _write_if_changed(os.path.join(OVERLAY, ".cargo", "config.toml"), "[net]\noffline = true\n")
        _synced = True


def build_replay():
    sync()
    lock_src = os.path.join(REPO, "Cargo.lock")
    lock_dst = os.path.join(REPLAY_DIR, "Cargo.lock")
    if not os.path.exists(lock_dst):
        shutil.copy(lock_src, lock_dst)
    env = dict(os.environ, CARGO_NET_OFFLINE="true", CARGO_TARGET_DIR=REPLAY_TARGET)
    p = subprocess.run(["cargo", "build", "--release", "--offline", "-q"], cwd=REPLAY_DIR, env=env,
                       capture_output=True, text=True)
    if p.returncode != 0:
        return None, (p.stderr or p.stdout)[-3000:]
    return os.path.join(REPLAY_TARGET, "release", "vx-replay"), ""


def _run_replay(args, timeout=3000):
    exe, err = build_replay()
    if exe is None:
        return {"error": "replay crate does not build against the working tree: " + err}
    try:
        p = subprocess.run([exe] + args, capture_output=True, text=True, timeout=timeout)
    except subprocess.TimeoutExpired:
        return {"error": "replay timed out"}
    out = p.stdout.strip().splitlines()
    for l in reversed(out):
        if l.startswith("{"):
            try:
                return json.loads(l)
            except Exception:
                continue
    return {"error": "replay gave no result (rc=%d): %s" % (p.returncode, (p.stderr or p.stdout)[-1500:])}


def run_search(pid, seed, tier, full=False):
    return _run_replay(["search", pid, str(seed), "full" if (full or tier == "thorough") else "quick"])


def run_finding(fid):
    return _run_replay(["finding", fid])


def replay_file(pid, path):
    with open(path) as f:
        d = json.load(f)
    case = d.get("replay_case")
    if not case:
        print("replay file names the failed obligation %s; the verifier gave no failing input" % d.get("obligation"))
        for m in d.get("verifier_output", [])[:10]:
            print("  " + m.replace("\n", "\n  "))
        print("re-running the check decides whether the obligation still fails: ./check %s" % pid)
        return 1
    r = _run_replay(["replay"] + case)
    print(json.dumps(r))
    if r.get("error"):
        return 2
    if r.get("fails"):
        print("VIOLATION property=%s replay=%s" % (pid, path))
        return 1
    return 0
