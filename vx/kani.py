"""Kani runner over the source overlay (real crates + appended #[cfg(kani)] harness modules)."""
import os
import re
import subprocess
import time
import tomllib

from . import overlay
from .unit import ROOT

KTARGET = os.path.join(ROOT, "build", "kani-target")
HARNESS_TIMEOUT_S = int(os.environ.get("VX_KANI_HARNESS_TIMEOUT", "900"))


def registry():
    with open(os.path.join(ROOT, "kani", "HARNESSES.toml"), "rb") as f:
        return tomllib.load(f)["harness"]


def run_groups(groups, tier, timeout=3000):
    # a harness belongs to its `group` and to every group listed in `also_groups` (one fact several properties rest on)
    hs = [h for h in registry() if (h["group"] in groups or any(g in groups for g in h.get("also_groups", []))) and (tier == "thorough" or h.get("tier", "quick") == "quick")]
    return run_harnesses(hs, timeout)


def run_harnesses(hs, timeout=3000):
    overlay.sync()
    results = []
    by_crate = {}
    for h in hs:
        by_crate.setdefault(h["crate"], []).append(h)
    for crate, lst in by_crate.items():
        env = dict(os.environ, CARGO_NET_OFFLINE="true", CARGO_TARGET_DIR=KTARGET)
        cmd = ["cargo", "kani", "-p", crate, "-Z", "stubbing", "-Z", "function-contracts", "-Z", "unstable-options", "--harness-timeout", "%ds" % HARNESS_TIMEOUT_S,
               "--output-format", "terse",
               "-j", str(min(8, len(lst)))]
        feats = sorted(set(f for h in lst for f in h.get("features", [])))
        if feats:
            cmd += ["--features", ",".join(feats)]
        for h in lst:
            cmd += ["--harness", h["name"]]
        t0 = time.time()
        try:
            p = subprocess.run(cmd, cwd=overlay.OVERLAY, env=env, capture_output=True, text=True, timeout=timeout)
            out = p.stdout + "\n" + p.stderr
            rc = p.returncode
        except subprocess.TimeoutExpired as e:
            out = ((e.stdout or b"").decode(errors="replace") if isinstance(e.stdout, bytes) else (e.stdout or "")) + "\nTIMEOUT"
            rc = -9
        wall = time.time() - t0
        with open(os.path.join(ROOT, "build", "kani_%s.log" % crate), "w") as f:
            f.write(" ".join(cmd) + "\n" + out)
        parsed = parse(out)
        for h in lst:
            r = parsed.get(h["name"])
            res = {"harness": h["name"], "fn": h.get("fn"), "alarm": h.get("alarm", []), "text": h.get("text", ""),
                   "bounded": h.get("bounded", ""), "cmd": " ".join(cmd), "crate": crate}
            if r is None:
                res["status"] = "undecided"
                res["reason"] = "no result for harness (rc=%s): %s" % (rc, _tail(out))
            else:
                res.update(r)
            results.append(res)
    return results


def _tail(out):
    lines = [l for l in out.splitlines() if l.strip()]
    errs = [l for l in lines if l.startswith("error")]
    return " | ".join((errs or lines)[-6:])[:800]


def parse(out):
    """Per-harness status from terse output."""
    res = {}
    # group output lines per harness (plain, or interleaved "Thread N:" output under -j)
    blocks = {}
    cur_of_thread = {}
    active = None
    for line in out.splitlines():
        m = re.match(r"^(?:Thread (\d+): )?Checking harness (.*?)\.\.\.", line)
        if m:
            t = m.group(1) or "-"
            cur_of_thread[t] = m.group(2).strip()
            blocks.setdefault(cur_of_thread[t], [])
            active = cur_of_thread[t] if m.group(1) is None else None
            continue
        m = re.match(r"^Thread (\d+):\s*(.*)$", line)
        if m:
            active = cur_of_thread.get(m.group(1))
            if active and m.group(2):
                blocks[active].append(m.group(2))
            continue
        if re.match(r"^(Manual Harness Summary|Complete - )", line):
            active = None
            continue
        if active:
            blocks[active].append(line)
    for name_full, lines in blocks.items():
        blk = "\n".join(lines)
        name = name_full.split("::")[-1]
        st = None
        if re.search(r"VERIFICATION:- SUCCESSFUL", blk):
            st = "success"
        elif re.search(r"VERIFICATION:- FAILED", blk):
            st = "failed"
        tm = re.search(r"Verification Time: ([0-9.]+)s", blk)
        r = {"time_s": float(tm.group(1)) if tm else None}
        if st is None:
            r["status"] = "undecided"
            r["reason"] = "no verdict: " + _tail(blk)
        else:
            r["status"] = st
            if st == "failed" and re.search(r"CBMC failed with status|out of memory|timed out|CBMC timed out", blk):
                r["status"] = "undecided"
                r["reason"] = "tool limit: " + _tail(blk)
            elif st == "failed":
                fails = re.findall(r"(?m)^Failed Checks: (.*)$", blk)
                r["reason"] = "; ".join(fails[:5]) or _tail(blk)
                # unwinding assertion failures / unsupported features are tool limits, not refutations
                if fails and all(re.search(r"unwinding assertion|not currently supported|unsupported", f) for f in fails):
                    r["status"] = "undecided"
            # cover statements must be satisfied (vacuity guard)
            uncov = re.findall(r"(?m)^.*cover.*: (UNSATISFIABLE|UNREACHABLE)", blk)
            if st == "success" and re.search(r"\b0 of \d+ cover properties satisfied", blk):
                r["status"] = "undecided"
                r["reason"] = "vacuous: cover property not satisfied"
            cv = re.search(r"(\d+) of (\d+) cover properties satisfied", blk)
            if cv and st == "success" and cv.group(1) != cv.group(2):
                r["status"] = "undecided"
                r["reason"] = "vacuous: %s of %s cover properties satisfied" % (cv.group(1), cv.group(2))
        res[name] = r
    return res


def warm():
    """Pre-build the Kani artefacts of the overlay so that the first check does not pay for compilation."""
    try:
        hs = [h for h in registry() if h.get("warm")]
        if hs:
            run_harnesses(hs, timeout=3000)
    except Exception as e:  # setup must not fail on a warm-up problem
        print("setup: kani warm-up skipped: %s" % e)
