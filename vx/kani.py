"""Kani runner over the source overlay (real crates + appended #[cfg(kani)] harness modules)."""
def run_groups(groups, tier):
    return []
