"""Normalise extracted items, apply the listed desugarings and splice contracts.

Output is a list of (line_text, tag) pairs; tag says where the line came from:
  ("src", file, line)            verbatim source line of /repo
  ("clause", fn, kind, id)       a contract clause from unit.toml
  ("proof", fn, pos)             a spliced proof block
  ("gen", what)                  generated glue (companions, headers)
"""
import re

from .rustscan import (ScanError, mask, match_close, find_top_level, skip_ws, line_of)


class SpliceError(Exception):
    """The contract description no longer fits the code (exit 2, never an alarm)."""


# ----------------------------------------------------------------------------- cfg / attribute normalisation (N1, N2, N3)

DEFAULT_FEATURES = {
    # feature set the pinned test command builds (DESIGN 3.1 N2)
    "public_auditing", "parallel_vrf", "parallel_insert", "preload_history", "greedy_lookup_preload",
    "experimental", "whatsapp_v1", "public_tests", "default", "vrf", "protobuf", "blake3",
    "serde_serialization", "rand", "bench",
}
OFF_FEATURES = {"runtime_metrics", "tracing_instrument", "tracing", "nostd", "slow_internal_db",
                "memory_pressure", "serde_serialization", "bench", "rand"}


def eval_cfg(expr, features):
    expr = expr.strip()
    m = re.match(r'^feature\s*=\s*"([^"]+)"$', expr)
    if m:
        return m.group(1) in features
    if expr == "test":
        return False
    if expr in ("kani", "verus_keep_ghost", "docsrs"):
        return False
    m = re.match(r"^(not|any|all)\s*\((.*)\)$", expr, re.S)
    if m:
        parts = _split_commas(m.group(2))
        vals = [eval_cfg(p, features) for p in parts if p.strip()]
        if m.group(1) == "not":
            return not vals[0]
        if m.group(1) == "any":
            return any(vals)
        return all(vals)
    raise SpliceError("cannot evaluate cfg(%s)" % expr)


def _split_commas(s):
    parts, depth, cur = [], 0, ""
    instr = False
    for ch in s:
        if ch == '"':
            instr = not instr
        if not instr:
            if ch in "([{":
                depth += 1
            elif ch in ")]}":
                depth -= 1
            elif ch == "," and depth == 0:
                parts.append(cur)
                cur = ""
                continue
        cur += ch
    if cur.strip():
        parts.append(cur)
    return parts


KEEP_DERIVES = ("Clone", "Copy", "PartialEq", "Eq")


def normalise(item, features, log, extra_keep=()):
    """N1-N3 on an extracted item. Line structure is preserved (removed text leaves its newlines),
    so line k of the result is line item.line_start + k of the source file."""
    text = item.text
    m = item.masked
    n = len(text)
    keep = [True] * n
    repl = {}  # offset -> replacement string inserted before that offset

    # N1: doc comments are dropped (Verus rejects doc comments in statement position)
    for mt in re.finditer(r"(?m)^[ \t]*//[/!][^\n]*$", text):
        if m[mt.start():mt.end()].strip() == "":
            for k in range(mt.start(), mt.end()):
                keep[k] = False

    i = 0
    while True:
        i = m.find("#[", i)
        if i < 0:
            break
        j = match_close(m, i + 1)
        attr_inner = text[i + 2:j].strip()
        end = j + 1
        nm = re.match(r"[A-Za-z_:]+", attr_inner)
        name = nm.group(0) if nm else ""
        line = item.line_start + text.count("\n", 0, i)
        if name == "cfg":
            inner = attr_inner[attr_inner.index("(") + 1:attr_inner.rindex(")")]
            val = eval_cfg(inner, features)
            log.append({"cfg": _ws(inner), "value": val, "file_line": line})
            if val:
                for q in range(i, end):
                    keep[q] = False
            else:
                k = skip_ws(m, end)
                while m.startswith("#[", k):
                    k = skip_ws(m, match_close(m, k + 1) + 1)
                e = find_top_level(m, k, n, ";{,")
                if e < 0:
                    raise SpliceError("cannot delimit cfg'd-out item")
                if m[e] == "{":
                    e = match_close(m, e)
                    k2 = skip_ws(m, e + 1)
                    if k2 < n and m[k2] in ";,":
                        e = k2
                for q in range(i, e + 1):
                    keep[q] = False
                i = e + 1
                continue
        elif name == "cfg_attr":
            inner = attr_inner[attr_inner.index("(") + 1:attr_inner.rindex(")")]
            cond = _split_commas(inner)[0]
            log.append({"cfg_attr": _ws(cond), "dropped": True, "file_line": line})
            for q in range(i, end):
                keep[q] = False
        elif name == "derive":
            inner = attr_inner[attr_inner.index("(") + 1:attr_inner.rindex(")")]
            ds = [d.strip() for d in inner.split(",") if d.strip()]
            kept = [d for d in ds if d.split("::")[-1] in KEEP_DERIVES or d.split("::")[-1] in extra_keep]
            repl[i] = ("#[derive(%s)]" % ", ".join(kept)) if kept else ""
            for q in range(i, end):
                keep[q] = False
        elif name in DROP_ATTRS:
            for q in range(i, end):
                keep[q] = False
        elif name in ("repr",):
            pass
        else:
            raise SpliceError("unexpected attribute #[%s] in %s" % (attr_inner[:40], item.name))
        i = end

    out = []
    for k in range(n):
        if k in repl:
            out.append(repl[k])
        if keep[k] or text[k] == "\n":
            out.append(text[k])
    return "".join(out)


DROP_ATTRS = ("allow", "doc", "inline", "must_use", "deprecated", "async_recursion",
              "async_recursion::async_recursion", "async_trait", "async_trait::async_trait",
              "non_exhaustive", "default")


def _ws(s):
    return re.sub(r"\s+", " ", s).strip()


# ----------------------------------------------------------------------------- function anatomy


class FnShape:
    """Offsets inside a (normalised) fn item text."""

    def __init__(self, text):
        self.text = text
        self.m = mask(text)
        m = self.m
        mt = re.search(r"\bfn\s+(\w+)", m)
        if not mt:
            raise SpliceError("no fn keyword")
        self.name = mt.group(1)
        i = mt.end()
        i = skip_ws(m, i)
        if m[i] == "<":
            # generics
            depth = 0
            while True:
                if m[i] == "<":
                    depth += 1
                elif m[i] == ">" and m[i - 1] != "-":
                    depth -= 1
                    if depth == 0:
                        break
                i += 1
            i += 1
        i = skip_ws(m, i)
        if m[i] != "(":
            raise SpliceError("fn %s: expected (" % self.name)
        self.params_open = i
        self.params_close = match_close(m, i)
        j = find_top_level(m, self.params_close + 1, len(m), "{;")
        if j < 0:
            raise SpliceError("fn %s: no body" % self.name)
        self.has_body = m[j] == "{"
        self.sig_end = j  # index of { or ;
        sig_tail = m[self.params_close + 1:j]
        w = re.search(r"\bwhere\b", sig_tail)
        self.where_at = self.params_close + 1 + w.start() if w else None
        a = sig_tail.find("->")
        if a >= 0:
            self.ret_start = self.params_close + 1 + a + 2
            self.ret_end = self.where_at if self.where_at is not None else j
        else:
            self.ret_start = None
            self.ret_end = None
        if self.has_body:
            self.body_open = j
            self.body_close = match_close(m, j)
            self.loops = find_loops(m, self.body_open, self.body_close)
            self.tail_at = find_tail(m, self.body_open, self.body_close)


def find_loops(m, bo, bc):
    """Loops inside the body in textual order: dicts with kw_at, kind, open, close, in_at."""
    loops = []
    for mt in re.finditer(r"\b(for|while|loop)\b", m[bo:bc]):
        k = bo + mt.start()
        kind = mt.group(1)
        # previous non-space char must start a statement/expression position (also allow a label)
        p = k - 1
        while p > bo and m[p] in " \t\r\n":
            p -= 1
        label_at = None
        if m[p] == ":":
            # label 'name:
            q = p - 1
            while q > bo and (m[q].isalnum() or m[q] == "_"):
                q -= 1
            if m[q] == "'":
                label_at = q
                p = q - 1
                while p > bo and m[p] in " \t\r\n":
                    p -= 1
            else:
                continue
        if kind == "for":
            # must be `for PAT in EXPR {` — exclude `impl X for Y` / `for<'a>`
            rest = m[k + 3:bc]
            if rest.lstrip().startswith("<"):
                continue
        if m[p] not in ";{}=(,|":
            # e.g. `impl Trait for`, or an identifier ending in 'for'
            if not (m[p] == ")" ):
                continue
        o = find_top_level(m, k + len(kind), bc, "{")
        if o < 0:
            raise SpliceError("loop without body")
        c = match_close(m, o)
        in_at = None
        if kind == "for":
            mm = re.search(r"\bin\b", m[k:o])
            if not mm:
                continue
            in_at = k + mm.end()
        loops.append({"kw_at": label_at if label_at is not None else k, "kind": kind, "open": o,
                      "close": c, "in_at": in_at, "hdr_end": o})
    return loops


BLOCK_KW = ("if", "match", "for", "while", "loop", "unsafe")


def statements(m, bo, bc):
    """Top-level statements of the block (bo, bc): list of (start, end_exclusive, terminated)."""
    res = []
    i = skip_ws(m, bo + 1)
    while i < bc:
        start = i
        # attributes / labels are not expected on statements after normalisation
        mt = re.match(r"[A-Za-z_]+", m[i:bc])
        word = mt.group(0) if mt else ""
        if m[i] == "{" or word in BLOCK_KW or (m[i] == "'" and re.match(r"'\w+\s*:\s*(for|while|loop)\b", m[i:bc])):
            # block-like statement: ends at the } of its last block (through else chains)
            j = i
            while True:
                o = find_top_level(m, j, bc, "{;")
                if o < 0 or m[o] == ";":
                    # e.g. `if let .. = x else`?? treat as ordinary statement
                    e = o if o >= 0 else bc
                    res.append((start, e + (1 if o >= 0 else 0), o >= 0))
                    i = skip_ws(m, e + 1)
                    break
                c = match_close(m, o)
                k = skip_ws(m, c + 1)
                if m.startswith("else", k) and not (m[k + 4].isalnum() or m[k + 4] == "_"):
                    j = k + 4
                    continue
                if k < bc and m[k] in ".?":
                    # method call on block expression: runs to ;
                    e = find_top_level(m, k, bc, ";")
                    if e < 0:
                        res.append((start, bc, False))
                        i = bc
                    else:
                        res.append((start, e + 1, True))
                        i = skip_ws(m, e + 1)
                    break
                if k < bc and m[k] == ";":
                    res.append((start, k + 1, True))
                    i = skip_ws(m, k + 1)
                    break
                # block-like statement ends here; it is the tail iff nothing follows
                res.append((start, c + 1, k < bc))
                i = k
                break
        else:
            e = find_top_level(m, i, bc, ";")
            if e < 0:
                # tail expression
                end = bc
                while end > start and m[end - 1] in " \t\r\n":
                    end -= 1
                res.append((start, end, False))
                i = bc
            else:
                res.append((start, e + 1, True))
                i = skip_ws(m, e + 1)
    return res


def find_tail(m, bo, bc):
    st = statements(m, bo, bc)
    if not st:
        return bc
    (s, e, term) = st[-1]
    if term:
        return bc  # no tail expression: position just before the closing brace
    return s


# ----------------------------------------------------------------------------- desugarings


def desugar(text, rules, counts):
    """Apply the fixed templates R-FMT, R-LOG, R-ALL, R-FOREACH, R-ENUM, R-EXTMAP to a fn text."""
    for r in rules:
        if r == "R-FMT":
            text, c = _r_fmt(text)
        elif r == "R-LOG":
            text, c = _r_log(text)
        elif r == "R-ALL":
            text, c = _r_all(text)
        elif r == "R-FOREACH":
            text, c = _r_foreach(text)
        elif r == "R-ENUM":
            text, c = _r_enum(text)
        elif r == "R-EXTMAP":
            text, c = _r_extmap(text)
        elif r == "R-CONTINUE":
            text, c = _r_continue(text)
        elif r == "R-COLLECT":
            text, c = _r_collect(text)
        elif r == "R-MAPITER":
            text, c = _r_mapiter(text)
        elif r == "R-MAPCOLLECT":
            text, c = _r_mapcollect(text)
        elif r == "R-DEREFSET":
            text, c = _r_derefset(text)
        elif r == "R-GUARD":
            text, c = _r_guard(text)
        elif r in ("R-QCLOSURE", "R-UNDERSCORE"):
            text, c = _r_qclosure(text)
        elif r == "R-REC":
            text, c = _r_rec(text)
        elif r == "R-SPAWN":
            c = text.count("vx_task")  # the hoisting itself is done by hoist_spawn() before the other rules
        elif r == "R-SEGMENT":
            c = 1  # done by segment() before the other rules
        elif r == "R-FLATMAP":
            c = text.count("vx_fm.append(")  # done by hoist_flat_map() before the other rules
        elif r == "R-SLICE1":
            text, c = _r_slice1(text)
        elif r == "R-UFCS":
            text, c = _r_ufcs(text)
        elif r == "R-UTF8":
            text, c = _r_utf8(text)
        elif r == "R-TAKE":
            text, c = _r_take(text)
        elif r == "R-ASSERTEQ":
            text, c = _r_asserteq(text)
        elif r == "R-WHILELET":
            text, c = _r_whilelet(text)
        elif r == "R-SELF":
            c = text.count("vx_self")  # done by r_self() before the other rules
        elif r == "R-CLOSPEC":
            c = text.count("vx_r:")  # done by closure_specs() with the declared types
        else:
            raise SpliceError("unknown desugaring " + r)
        # a listed desugaring without a site is not an error: the list says what MAY be rewritten in this function
        counts[r] = counts.get(r, 0) + c
    return text


def _macro_sites(text, names):
    m = mask(text)
    sites = []
    for mt in re.finditer(r"\b((?:\w+::)*(?:%s))\s*!\s*\(" % "|".join(names), m):
        o = mt.end() - 1
        c = match_close(m, o)
        sites.append((mt.start(), c + 1))
    return sites


def _r_fmt(text):
    sites = _macro_sites(text, ["format"])
    for (a, b) in reversed(sites):
        # keep the line structure so that source line tags stay aligned
        nl = text.count("\n", a, b)
        text = text[:a] + "vx_msg()" + "\n" * nl + text[b:]
    return text, len(sites)


def _r_log(text):
    sites = _macro_sites(text, ["info", "debug", "error", "warn", "trace", "log_metrics"])
    m = mask(text)
    n = 0
    for (a, b) in reversed(sites):
        e = skip_ws(m, b)
        if e < len(m) and m[e] == ";":
            nl = text.count("\n", a, e + 1)
            text = text[:a] + "\n" * nl + text[e + 1:]
            n += 1
    return text, n


def _r_all(text):
    """`(A..B).all(|i| E)` -> the equivalent short-circuit loop (fixed template, no break so that plain
    invariants suffice):
         let mut vx_i = A; let vx_n = B; let mut vx_all = true;
         while vx_all && vx_i < vx_n { let i = vx_i; if !(E) { vx_all = false; } else { vx_i += 1; } }
         vx_all
    `all` evaluates E for i = A, A+1, .. and stops at the first false; so does the loop."""
    m = mask(text)
    mt = re.search(r"\(\s*([^()]+?)\s*\.\.\s*([^()]+?)\s*\)\s*\.all\(\s*\|\s*(\w+)\s*\|", m)
    if not mt:
        return text, 0
    a, b, var = text[mt.start(1):mt.end(1)], text[mt.start(2):mt.end(2)], mt.group(3)
    call_open = m.index("(", m.index(".all", mt.start()))
    call_close = match_close(m, call_open)
    expr = text[mt.end():call_close].strip()
    indent = " " * 8
    new = (
        "let mut vx_i = %s;\n" % a
        + indent + "let vx_n = %s;\n" % b
        + indent + "let mut vx_all = true;\n"
        + indent + "while vx_all && vx_i < vx_n {\n"
        + indent + "    let %s = vx_i;\n" % var
        + indent + "    if !(%s) {\n" % expr
        + indent + "        vx_all = false;\n"
        + indent + "    } else {\n"
        + indent + "        vx_i += 1;\n"
        + indent + "    }\n"
        + indent + "}\n"
        + indent + "vx_all"
    )
    return text[:mt.start()] + new + text[call_close + 1:], 1


def _r_foreach(text):
    """`XS.iter().for_each(|x| { B });` -> `for x in XS.iter() { B }`"""
    m = mask(text)
    n = 0
    while True:
        mt = re.search(r"\.for_each\(\s*\|\s*(\w+)\s*\|\s*\{", m)
        if not mt:
            break
        var = mt.group(1)
        bo = mt.end() - 1
        bc = match_close(m, bo)
        call_open = m.index("(", mt.start())
        call_close = match_close(m, call_open)
        # receiver: back to statement start
        s = mt.start()
        k = s - 1
        depth = 0
        while k >= 0:
            ch = m[k]
            if ch in ")]":
                depth += 1
            elif ch in "([":
                depth -= 1
            elif depth == 0 and ch in ";{}":
                break
            k -= 1
        rs = skip_ws(m, k + 1)
        recv = text[rs:s]
        e = skip_ws(m, call_close + 1)
        if m[e] != ";":
            raise SpliceError("R-FOREACH: for_each not used as a statement")
        new = "for %s in %s %s" % (var, recv.strip(), text[bo:bc + 1])
        text = text[:rs] + new + text[e + 1:]
        m = mask(text)
        n += 1
    return text, n


def _r_enum(text):
    """`for (i, x) in XS.iter().enumerate() {` -> `let mut i = 0; for x in XS.iter() { ... i += 1; }`
    (bodies contain no `continue`; checked)."""
    m = mask(text)
    n = 0
    while True:
        mt = re.search(r"\bfor\s*\(\s*(\w+)\s*,\s*(\w+)\s*\)\s*in\s+", m)
        if not mt:
            break
        o = find_top_level(m, mt.end(), len(m), "{")
        hdr = text[mt.end():o].rstrip()
        if not hdr.endswith(".enumerate()"):
            raise SpliceError("R-ENUM: header is not ...enumerate()")
        recv = hdr[:-len(".enumerate()")]
        c = match_close(m, o)
        body = text[o + 1:c]
        if re.search(r"\bcontinue\b", m[o + 1:c]):
            raise SpliceError("R-ENUM: body contains continue")
        i, x = mt.group(1), mt.group(2)
        new = ("let mut %s: usize = 0;\n    for %s in %s {%s    %s += 1;\n    }" % (i, x, recv, body, i))
        text = text[:mt.start()] + new + text[c + 1:]
        m = mask(text)
        n += 1
    return text, n


def _r_extmap(text):
    """`V.extend(XS.iter().map(|x| E));` -> `for x in XS.iter() { V.push(E); }`"""
    m = mask(text)
    n = 0
    while True:
        mt = re.search(r"(\w+)\.extend\(", m)
        if not mt:
            break
        o = mt.end() - 1
        c = match_close(m, o)
        inner = text[o + 1:c]
        mi = m[o + 1:c]
        mm = re.search(r"\.map\(\s*\|\s*(\w+)\s*\|", mi)
        if not mm:
            raise SpliceError("R-EXTMAP: no .map(|x| ..) inside extend")
        recv = inner[:mm.start()].strip()
        mo = mi.index("(", mm.start())
        mc = match_close(mi, mo)
        expr = inner[mm.end():mc].strip()
        e = skip_ws(m, c + 1)
        if m[e] != ";":
            raise SpliceError("R-EXTMAP: extend not a statement")
        new = "for %s in %s { %s.push(%s); }" % (mm.group(1), recv, mt.group(1), expr)
        text = text[:mt.start()] + new + text[e + 1:]
        m = mask(text)
        n += 1
    return text, n


def _r_continue(text):
    """`continue` elimination for `for` loops (Verus: "for-loops do not yet support continue"). For every for-loop whose body
    contains `continue;` (each one the LAST statement of its block): the body gets `let mut vx_skip = false;` first, every
    `continue;` becomes `vx_skip = true;`, and every top-level statement of the body after the first is wrapped in
    `if !vx_skip { .. }` - the rest of the iteration is skipped exactly as `continue` does."""
    n = 0
    done = set()
    while True:
        m = mask(text)
        target = None
        for mt in re.finditer(r"\bfor\b", m):
            if mt.start() in done:
                continue
            o = find_top_level(m, mt.end(), len(m), "{")
            if o < 0:
                continue
            c = match_close(m, o)
            if re.search(r"\bcontinue\s*;", m[o + 1:c]):
                target = (mt.start(), o, c)
                break
        if not target:
            break
        (k, o, c) = target
        body_m = m[o + 1:c]
        for cm in re.finditer(r"\bcontinue\s*;", body_m):
            nxt = skip_ws(body_m, cm.end())
            if nxt < len(body_m) and body_m[nxt] != "}":
                raise SpliceError("R-CONTINUE: `continue` is not the last statement of its block")
        if re.search(r"\bbreak\b", body_m):
            raise SpliceError("R-CONTINUE: loop body also contains break")
        st = statements(m, o, c)
        pieces = []
        for idx, (a, b, term) in enumerate(st):
            stmt = text[a:b]
            stmt = re.sub(r"\bcontinue\s*;", "vx_skip = true;", stmt)
            if idx == 0:
                pieces.append(stmt)
            else:
                pieces.append("if !vx_skip {\n            " + stmt + "\n            }")
        new_body = "{\n            let mut vx_skip = false;\n            " + "\n            ".join(pieces) + "\n        }"
        text = text[:o] + new_body + text[c + 1:]
        done.add(k)
        n += 1
    return text, n


def _r_collect(text):
    """`XS.iter().cloned().collect()` -> `vx_collect_set(XS)` and `S.into_iter().collect::<Vec<_>>()` -> `vx_set_into_vec(S)`
    (iterator adapters are outside Verus; the two trusted helpers state set equality of the contents)."""
    n = 0
    m = mask(text)
    for mt in reversed(list(re.finditer(r"(\w+)\.iter\(\)\s*\.cloned\(\)\s*\.collect\(\)", m))):
        text = text[:mt.start()] + "vx_collect_set(%s)" % mt.group(1) + text[mt.end():]
        n += 1
    # `let X = EXPR.into_iter().collect::<HashMap<_, _>>();` -> `let X = vx_pairs_into_map(EXPR);` (trusted helper: every key of the map comes
    # from a pair of the vector and carries the value of one such pair; every pair's key is in the map)
    m = mask(text)
    for mt in reversed(list(re.finditer(r"\.into_iter\(\)\s*\.collect::<\s*HashMap<_,\s*_>\s*>\(\)\s*;", m))):
        eq = m.rfind("=", 0, mt.start())
        while eq > 0 and m[eq - 1] in "=!<>" or m[eq + 1] == "=":
            eq = m.rfind("=", 0, eq)
        a = skip_ws(m, eq + 1)
        text = text[:a] + "vx_pairs_into_map(" + text[a:mt.start()] + ")" + "\n" * text.count("\n", mt.start(), mt.end()) + ";" + text[mt.end():]
        n += 1
    m = mask(text)
    for mt in reversed(list(re.finditer(r"(\w+)\.into_iter\(\)\s*\.collect::<\s*Vec<_>\s*>\(\)", m))):
        text = text[:mt.start()] + "vx_set_into_vec(%s)" % mt.group(1) + text[mt.end():]
        n += 1
    return text, n


def _r_mapcollect(text):
    """R-MAPCOLLECT: `let X: T = RECV.iter().map(|PAT| EXPR).collect();` (T a Vec or a HashSet, named in the let) ->
         let X: T = { let mut vx_mc: T = <Vec|HashSet>::new(); let mut vx_ci: usize = 0;
                      while vx_ci < RECV.len() { let PAT = &RECV[vx_ci]; vx_mc.<push|insert>(EXPR); vx_ci += 1; } vx_mc };
    PAT and EXPR are the source text. ASSUMED: std's map + collect over a slice iterator visits the elements in order."""
    n = 0
    while True:
        m = mask(text)
        mt = re.search(r"let\s+(?:mut\s+)?\w+\s*:\s*([^=;]+?)\s*=\s*([A-Za-z_][\w\.]*?)\s*\.iter\(\)\s*\.map\(", m)
        if not mt:
            break
        po = mt.end() - 1
        pc = match_close(m, po)
        a = skip_ws(m, po + 1)
        if m[a] != "|":
            raise SpliceError("R-MAPCOLLECT: argument of map is not a closure")
        bar2 = m.index("|", a + 1)
        pat = text[a + 1:bar2].strip()
        eb = pc
        while m[eb - 1] in " \t\r\n,":
            eb -= 1
        expr = text[bar2 + 1:eb].strip()
        mc = re.match(r"\s*\.collect\(\)\s*;", m[pc + 1:])
        if not mc:
            raise SpliceError("R-MAPCOLLECT: map is not followed by .collect();")
        end = pc + 1 + mc.end() - 1
        ty = _ws(text[mt.start(1):mt.end(1)])
        if ty.startswith("HashSet<"):
            ctor, op = "HashSet::new()", "insert"
        elif ty.startswith("Vec<"):
            ctor, op = "Vec::new()", "push"
        else:
            raise SpliceError("R-MAPCOLLECT: collection type %s not supported" % ty)
        recv = mt.group(2)
        nl = text.count("\n", mt.start(2), end)
        new = ("{ let mut vx_mc: %s = %s; let mut vx_ci: usize = 0; while vx_ci < %s.len() { let %s = &%s[vx_ci]; vx_mc.%s(%s); vx_ci += 1; } vx_mc }"
               % (text[mt.start(1):mt.end(1)].strip(), ctor, recv, pat, recv, op, expr))
        text = text[:mt.start(2)] + new + "\n" * nl + text[end:]
        n += 1
    return text, n


def _r_derefset(text):
    """R-DEREFSET: a store through a lock guard, `*G = E;` (G a local guard variable) -> `vx_guard_set(&mut G, E);`, and
    `*(X) = E;` (X an expression producing the guard) -> `{ let mut vx_g = X; vx_guard_set(&mut vx_g, E); }`
    (Verus has no overloaded DerefMut; vx_guard_set's contract is the model of the store)."""
    n = 0
    while True:
        m = mask(text)
        mt = re.search(r"(?m)^(\s*)\*\s*(\w+)\s*=\s*", m)
        mp = re.search(r"(?m)^(\s*)\*\s*\(", m)
        if mt and (not mp or mt.start() < mp.start()):
            e = m.index(";", mt.end())
            text = text[:mt.start()] + mt.group(1) + "vx_guard_set(&mut %s, %s);" % (mt.group(2), text[mt.end():e].strip()) + text[e + 1:]
            n += 1
            continue
        if mp:
            po = mp.end() - 1
            pc = match_close(m, po)
            me = re.match(r"\s*=\s*", m[pc + 1:])
            if not me:
                raise SpliceError("R-DEREFSET: `*( .. )` is not the target of an assignment")
            vs = pc + 1 + me.end()
            e = m.index(";", vs)
            text = (text[:mp.start()] + mp.group(1) + "{ let mut vx_g = %s; vx_guard_set(&mut vx_g, %s); }" % (text[po + 1:pc].strip(), text[vs:e].strip())
                    + text[e + 1:])
            n += 1
            continue
        break
    return text, n


def _r_guard(text):
    """R-GUARD: Rust's binding rule for the guard of the directory's cache lock, made visible to the verifier. A guard bound to a NAME
    (`let g = self.cache_lock.read().await;`) lives to the end of the function: the statement is followed by
    `proof { grant_shared_lock_held(&g); }` (rustc checks that the name exists). A guard matched against `_` is dropped at the end of that
    statement: nothing is granted. An explicit `drop(g)` makes the unit undecided (the token could not be taken back)."""
    m = mask(text)
    n = 0
    for mt in reversed(list(re.finditer(r"\blet\s+(\w+)\s*=\s*self\s*\.\s*cache_lock\s*\.\s*read\s*\(\s*\)\s*\.\s*await\s*;", m))):
        g = mt.group(1)
        if g == "_":
            continue
        if re.search(r"\bdrop\s*\(\s*%s\s*\)" % re.escape(g), m):
            raise SpliceError("R-GUARD: the guard %s is dropped explicitly" % g)
        text = text[:mt.end()] + " proof { grant_shared_lock_held(&%s); }" % g + text[mt.end():]
        n += 1
    return text, n


def _r_mapiter(text):
    """`for (K, V) in M.into_iter() { B }` (or `in M` for a HashMap moved into the loop; K may itself be a tuple pattern) ->
         let mut vx_m = M; loop { match vx_pop_any(&mut vx_m) { Some((K, V)) => { B } None => break, } }
    vx_pop_any (trusted) removes and returns an ARBITRARY entry, which models every iteration order. B has no continue/break."""
    m = mask(text)
    n = 0
    pos = 0
    while True:
        mt = re.search(r"\bfor\s*\(", m[pos:])
        if not mt:
            break
        po = pos + mt.end() - 1
        pc = match_close(m, po)
        rest = re.match(r"\s*in\s+", m[pc + 1:])
        if not rest:
            pos = pc + 1
            continue
        hs = pc + 1 + rest.end()
        o = find_top_level(m, hs, len(m), "{")
        hdr = text[hs:o].strip()
        if hdr.endswith(".into_iter()"):
            recv = hdr[:-len(".into_iter()")]
        elif re.match(r"^\w+$", hdr) and "map" in hdr:
            recv = hdr      # a HashMap variable moved into the loop (IntoIterator for HashMap)
        else:
            pos = pc + 1
            continue
        c = match_close(m, o)
        if re.search(r"\b(continue|break)\b", m[o + 1:c]):
            raise SpliceError("R-MAPITER: body contains continue/break")
        body = "{ /*@vx:mapiter.arm_start@*/" + text[o + 1:c] + "/*@vx:mapiter.arm_end@*/ }"
        pat = text[po:pc + 1]
        start = pos + mt.start()
        new = ("let mut vx_m = %s;\n            loop {\n                match vx_pop_any(&mut vx_m) {\n                    Some(%s) => %s\n"
               "                    None => break,\n                }\n            }" % (recv, pat, body))
        text = text[:start] + new + text[c + 1:]
        m = mask(text)
        pos = start + len(new)
        n += 1
    return text, n


def _r_qclosure(text):
    """R-UNDERSCORE: closure parameter `|_|` -> `|_vx|` (Verus accepts only variables as closure parameters)."""
    m = mask(text)
    n = 0
    out = text
    for mt in reversed(list(re.finditer(r"\|\s*_\s*\|", m))):
        out = out[:mt.start()] + "|_vx|" + out[mt.end():]
        n += 1
    return out, n




def _r_rec(text, name=None):
    """R-REC: a call of the function to itself goes to `<name>__rec`, an external_body copy of the signature that carries the
    same contract (the induction hypothesis of a partial-correctness proof; termination is NOT proved). Needed for a recursive
    `async fn`: rustc demands boxing (done by #[async_recursion] in the source), and Verus supports neither the attribute macro nor Pin."""
    sh = FnShape(text)
    name = name or sh.name
    m = mask(text)
    sites = [mt for mt in re.finditer(r"\b%s\b" % re.escape(name), m) if mt.start() > sh.body_open]
    for mt in reversed(sites):
        text = text[:mt.end()] + "__rec" + text[mt.end():]
    return text, len(sites)


def hoist_spawn(text, cfgs):
    """R-SPAWN: `tokio::spawn(async move { BODY })` -> `tokio::spawn(Self::<task>(<captures>))`, with BODY hoisted verbatim into an
    associated `async fn <task>(<captures with declared types>) -> <declared type> { BODY }` (Verus has no async blocks).
    The capture list and the types are declared in unit.toml; rustc checks them (a missing capture does not compile).
    Returns (new text, [(cfg, hoisted fn text, line offset of BODY in the original)])."""
    m = mask(text)
    sites = []
    for mt in re.finditer(r"\btokio\s*::\s*spawn\s*\(\s*async\s+move\s*\{", m):
        bo = mt.end() - 1
        bc = match_close(m, bo)
        e = skip_ws(m, bc + 1)
        if m[e] != ")":
            raise SpliceError("R-SPAWN: async block is not the only argument of tokio::spawn")
        po = m.index("(", mt.start())
        sites.append((po, e, bo, bc))
    # second form: the async block is bound to a variable first (`let f = async move { BODY };`), then spawned or awaited
    for mt in re.finditer(r"=\s*(?:\{\s*)?(async\s+move\s*\{)", m):
        if any(po < mt.start() < e for (po, e, _, _) in sites):
            continue
        bo = mt.end() - 1
        bc = match_close(m, bo)
        e = skip_ws(m, bc + 1)
        if m[e] == "}" and "{" in m[mt.start():mt.start(1)]:
            e = skip_ws(m, e + 1)   # the block that only wraps the async block
        if m[e] != ";":
            raise SpliceError("R-SPAWN: bound async block is not a whole let initialiser")
        # replace from just after `=` (keeping one space) up to the `;`
        sites.append((mt.start(), e, bo, bc))
    sites.sort()
    if len(sites) != len(cfgs):
        raise SpliceError("R-SPAWN: %d spawn sites, %d declared" % (len(sites), len(cfgs)))
    sh = FnShape(text)
    gen_text = ""
    mt = re.search(r"\bfn\s+\w+\s*(<)", sh.m)
    if mt and mt.start(1) < sh.params_open:
        gen_text = text[mt.start(1):sh.params_open].strip()
    hoisted = []
    for (cfg, (po, e, bo, bc)) in reversed(list(zip(cfgs, sites))):
        body = text[bo:bc + 1]
        names = [p.split(":")[0].strip() for p in _split_commas(cfg["params"])]
        targs = cfg.get("turbofish", "")
        call = "%s%s%s(%s)" % ("" if cfg.get("free") else "Self::", cfg["name"], targs, ", ".join(names))
        nl = text.count("\n", po + 1, e)
        line_off = text.count("\n", 0, bo)
        fn_text = "    async fn %s%s(%s) -> %s %s" % (cfg["name"], cfg.get("generics", gen_text), cfg["params"], cfg["returns"], body)
        hoisted.append((cfg, fn_text, line_off))
        text = text[:po + 1] + (" " if text[po] == "=" else "") + call + "\n" * nl + text[e:]
    hoisted.reverse()
    return text, hoisted


def hoist_flat_map(text, cfgs):
    """R-FLATMAP: `= RECV.iter().flat_map(|PAT| BODY).collect::<Vec<_>>();` -> a counting loop over RECV that appends, per element, the
    result of `Self::<name>(&RECV[i], <captures>)`; BODY is hoisted verbatim into the associated
    `fn <name>(vx_arg: <elem type>, <captures with declared types>) -> <declared type> { let PAT = vx_arg; BODY }` (Verus has no
    iterator adapters; a `return` inside the closure returns from the hoisted function, as it returns from the closure). The capture
    list and the types are declared in unit.toml; rustc checks them. ASSUMED: std's flat_map + collect over a slice iterator is the
    in-order concatenation of the closure results. Returns (new text, [(cfg, hoisted fn text, line offset of BODY)])."""
    m = mask(text)
    sites = []
    for mt in re.finditer(r"=\s*([A-Za-z_][\w\.]*?)\s*\.iter\(\)\s*\.flat_map\(", m):
        po = mt.end() - 1
        pc = match_close(m, po)
        inner_a = skip_ws(m, po + 1)
        if m[inner_a] != "|":
            raise SpliceError("R-FLATMAP: argument of flat_map is not a closure")
        bar2 = m.index("|", inner_a + 1)
        pat = text[inner_a + 1:bar2].strip()
        body_a = skip_ws(m, bar2 + 1)
        body_b = pc
        while m[body_b - 1] in " \t\r\n,":
            body_b -= 1
        mc = re.match(r"\s*\.collect(?:::<[^;]*?>)?\(\)\s*;", m[pc + 1:])
        if not mc:
            raise SpliceError("R-FLATMAP: flat_map is not followed by .collect()")
        end = pc + 1 + mc.end() - 1   # position of the `;`
        sites.append((mt.start(), end, mt.group(1), pat, body_a, body_b))
    if len(sites) != len(cfgs):
        raise SpliceError("R-FLATMAP: %d flat_map sites, %d declared" % (len(sites), len(cfgs)))
    sh = FnShape(text)
    gen_text = ""
    mg = re.search(r"\bfn\s+\w+\s*(<)", sh.m)
    if mg and mg.start(1) < sh.params_open:
        gen_text = text[mg.start(1):sh.params_open].strip()
    hoisted = []
    for (cfg, (a, e, recv, pat, ba, bb)) in reversed(list(zip(cfgs, sites))):
        body = text[ba:bb]
        names = [q.split(":")[0].strip() for q in _split_commas(cfg["params"])] if cfg.get("params") else []
        args = ", " + cfg["call_params"] if cfg.get("call_params") else "".join(", " + n for n in names)
        call = "%s%s%s(&%s[vx_fi]%s)" % ("" if cfg.get("free") else "Self::", cfg["name"], cfg.get("turbofish", ""), recv, args)
        loop = ("= { let mut vx_fm: %s = Vec::new(); let mut vx_fi: usize = 0; while vx_fi < %s.len() { let mut vx_part = %s; "
                "vx_fm.append(&mut vx_part); vx_fi += 1; } vx_fm }" % (cfg["returns"], recv, call))
        nl = text.count("\n", a, e)
        line_off = text.count("\n", 0, ba)
        fn_text = "    fn %s%s(vx_arg: %s%s) -> %s {\n        let %s = vx_arg;\n        %s\n    }" % (
            cfg["name"], cfg.get("generics", gen_text), cfg["elem"], "".join(", " + q for q in _split_commas(cfg.get("params", ""))), cfg["returns"], pat, body)
        hoisted.append((cfg, fn_text, max(0, line_off - 2)))
        text = text[:a] + loop + "\n" * nl + text[e:]
    hoisted.reverse()
    return text, hoisted


def segment(text, cfg):
    """R-SEGMENT: verify a contiguous run of top-level statements of a function body as a function of its own. The statements outside
    the segment are DROPPED (stated in the evidence); the segment's free variables become the declared parameter list (rustc checks
    it); the statements of the segment are the source text, verbatim. cfg: name, params, and either `from` (the first top-level
    statement starting with this text) or `after` (the statement following the first top-level statement that contains this text);
    optionally `until` (the segment stops before the first later statement starting with this text; then `epilogue` - the value
    handed on to the rest of the function - closes the body and `returns` replaces the return type)."""
    sh = FnShape(text)
    st = statements(sh.m, sh.body_open, sh.body_close)
    k = None
    for i, (a, b, term) in enumerate(st):
        t = _ws(text[a:b])
        if cfg.get("from") and t.startswith(_ws(cfg["from"])):
            k = i
            break
        if cfg.get("after") and _ws(cfg["after"]) in t:
            k = i + 1
            break
    if k is None or k >= len(st):
        raise SpliceError("R-SEGMENT %s: anchor statement not found" % cfg["name"])
    end = sh.body_close
    tail = text[sh.body_close:]
    if cfg.get("until"):
        e = None
        for i in range(k + 1, len(st)):
            if _ws(text[st[i][0]:st[i][1]]).startswith(_ws(cfg["until"])):
                e = i
                break
        if e is None:
            raise SpliceError("R-SEGMENT %s: `until` statement not found" % cfg["name"])
        end = st[e][0]
        tail = cfg.get("epilogue", "") + "\n    }\n"
    mt = re.search(r"\bfn\s+(\w+)", sh.m)
    head = text[:mt.start(1)] + cfg["name"] + text[mt.end(1):sh.params_open]
    sig_tail = text[sh.params_close + 1:sh.body_open + 1]
    if cfg.get("returns"):
        sig_tail = " -> " + cfg["returns"] + " {"
    new = head + "(" + cfg["params"] + ")" + sig_tail + "\n        " + cfg.get("prologue", "") + text[st[k][0]:end] + tail
    first_line_off = text.count("\n", 0, st[k][0])
    return new, first_line_off


def _r_slice1(text):
    """R-SLICE1: a one-element slice pattern as the last component of a tuple pattern, `(.., [x]) => {` becomes
    `(.., vx_s) if vx_s.len() == 1 => { let x = &vx_s[0];` (Verus has no slice patterns; same matches, same binding mode)."""
    m = mask(text)
    sites = list(re.finditer(r",\s*\[\s*(\w+)\s*\]\s*\)\s*=>\s*\{", m))
    for mt in reversed(sites):
        text = text[:mt.start()] + ", vx_s) if vx_s.len() == 1 => { let %s = &vx_s[0];" % mt.group(1) + text[mt.end():]
    return text, len(sites)


def _r_ufcs(text):
    """R-UFCS: a method call on the VRF field, `self.vrf.m::<G>(args)`, is written as the free function call
    `vx_vrf_m::<G, V>(&self.vrf, args)` (universal function call syntax; the VRF trait has async methods, which Verus does not
    accept in a trait declaration, so its methods are modelled as free functions over the same receiver)."""
    m = mask(text)
    sites = list(re.finditer(r"\bself\s*\.\s*vrf\s*\.\s*(\w+)\s*(?:::\s*<([^<>]*)>)?\s*\(", m))
    for mt in reversed(sites):
        g = (mt.group(2).strip() + ", V") if mt.group(2) else "V"
        text = text[:mt.start()] + "vx_vrf_%s::<%s>(&self.vrf, " % (mt.group(1), g) + text[mt.end():]
    return text, len(sites)


def _r_utf8(text):
    """R-UTF8: `std::str::from_utf8(&x)` (used only to choose between two error-message formats; Verus has no str reasoning) becomes
    `vx_from_utf8()`, an opaque Result<&'static str, ()>; both arms of the surrounding match stay in the verified text."""
    m = mask(text)
    sites = []
    for mt in re.finditer(r"\bstd\s*::\s*str\s*::\s*from_utf8\s*\(", m):
        c = match_close(m, mt.end() - 1)
        sites.append((mt.start(), c + 1))
    for (a, b) in reversed(sites):
        text = text[:a] + "vx_from_utf8()" + text[b:]
    return text, len(sites)


def _r_take(text):
    """R-TAKE: `X.into_iter().take(N).collect::<Vec<_>>()` becomes `vx_take(X, N)` (the first min(N, len) elements, in order)."""
    m = mask(text)
    sites = list(re.finditer(r"(\b\w+)\s*\.\s*into_iter\s*\(\s*\)\s*\.\s*take\s*\(\s*(\w+)\s*\)\s*\.\s*collect\s*::\s*<\s*Vec\s*<\s*_\s*>\s*>\s*\(\s*\)", m))
    for mt in reversed(sites):
        text = text[:mt.start()] + "vx_take(%s, %s)" % (mt.group(1), mt.group(2)) + text[mt.end():]
    return text, len(sites)


def closure_specs(text, specs):
    """R-CLOSPEC: the closure passed to a named call (`X.retain(|..| E)`, `X.sort_by(|..| E)`) whose body is one pure expression gets
    its parameter types, a named result and `ensures result == (E')` spelled out, so that the assumed contracts of Vec::retain /
    sort_by can speak about it: `|x| E` becomes `|x: T| -> (vx_r: R) ensures vx_r == (E') { E }`. The closure is found by the call it
    is passed to; parameter NAMES and E are taken from the source, the types are declared in unit.toml (rustc checks them); E' is E
    with `A.cmp(&B)` written as the spec function `cmp_spec(&A, &B)` (the ensures is PROVED against the body by Verus)."""
    n = 0
    for sp in specs:
        call = sp["call"]
        at = text.find(call)
        if at < 0:
            if sp.get("optional"):
                continue   # the call is gone: the function's own contract decides whether what replaced it is good enough
            raise SpliceError("R-CLOSPEC: call not found: " + call)
        m = mask(text)
        po = at + len(call) - 1
        if m[po] != "(":
            raise SpliceError("R-CLOSPEC: `call` must end with the opening parenthesis")
        pc = match_close(m, po)
        inner = text[po + 1:pc]
        mt = re.match(r"\s*\|([^|]*)\|\s*(.*?)\s*$", inner, re.S)
        if not mt:
            raise SpliceError("R-CLOSPEC: argument of %s is not a closure" % call)
        names = [x.strip() for x in mt.group(1).split(",") if x.strip()]
        types = [x.strip() for x in sp["types"]]
        if len(names) != len(types):
            raise SpliceError("R-CLOSPEC: %s: %d parameters, %d declared types" % (call, len(names), len(types)))
        body = mt.group(2)
        if body.startswith("{"):
            raise SpliceError("R-CLOSPEC: %s: closure body is a block, not a single expression" % call)
        spec_body = re.sub(r"((?:\w+\.)*\w+)\.cmp\(\s*&((?:\w+\.)*\w+)\s*\)", r"vstd::std_specs::cmp::OrdSpec::cmp_spec(&\1, &\2)", body)
        params = ", ".join("%s: %s" % (a, b) for a, b in zip(names, types))
        rep = "|%s| -> (vx_r: %s) ensures vx_r == (%s) { %s }" % (params, sp["ret"], spec_body, body)
        text = text[:po + 1] + rep + text[pc:]
        n += 1
    return text, n


def _r_asserteq(text):
    """R-ASSERTEQ: the run-time check `assert_eq!(A, B);` becomes `if !(A == B) { vx_unreachable(); }` where vx_unreachable requires
    `false`: the verifier has to prove that the assertion can never fail (a failing assert_eq! would be a panic)."""
    sites = _macro_sites(text, ["assert_eq"])
    m = mask(text)
    n = 0
    for (a, b) in reversed(sites):
        inner = text[text.index("(", a) + 1:b - 1]
        parts = _split_commas(inner)
        if len(parts) < 2:
            raise SpliceError("R-ASSERTEQ: assert_eq! with fewer than two arguments")
        e = skip_ws(m, b)
        semi = 1 if e < len(m) and m[e] == ";" else 0
        text = text[:a] + "if !(%s == %s) { vx_unreachable(); }" % (parts[0].strip(), parts[1].strip()) + text[e + semi:]
        n += 1
    return text, n


def _r_whilelet(text):
    """R-WHILELET: `while let Some(X) = E {` becomes `loop { let vx_o = E; if vx_o.is_none() { break; } let X = vx_o.unwrap();`
    (Verus has no `while let`; same evaluation order, same bindings, the loop ends exactly when E yields None)."""
    m = mask(text)
    sites = []
    for mt in re.finditer(r"\bwhile\s+let\s+Some\s*\(\s*(\w+)\s*\)\s*=", m):
        o = find_top_level(m, mt.end(), len(m), "{")
        if o < 0:
            raise SpliceError("R-WHILELET: no loop body")
        sites.append((mt.start(), o, mt.group(1), text[mt.end():o].strip()))
    for (a, o, var, expr) in reversed(sites):
        text = text[:a] + "loop {" + " let vx_o = %s; if vx_o.is_none() { break; } let %s = vx_o.unwrap();" % (expr, var) + text[o + 1:]
    return text, len(sites)


def r_self(text, bound, signature=True):
    """R-SELF: a default method of a trait is verified as a free function over an arbitrary implementor V: `&self` becomes
    `vx_self: &V` (with `V: <the trait>` added to the generics), `self.m(..)` becomes `vx_self_m::<V>(vx_self, ..)` and
    `Self::m::<G>(..)` becomes `vx_self_m::<G, V>(..)` - the trait's other methods are stubs of those names. (Verus does not accept
    `async fn` in a trait declaration.)"""
    n = 0
    m = mask(text)
    sh = FnShape(text)
    body_from = sh.body_open if sh.has_body else len(text)
    edits = []
    for mt in re.finditer(r"\bSelf\s*::\s*(\w+)\s*(?:::\s*<([^<>]*)>)?\s*\(", m):
        if mt.start() < body_from:
            continue
        g = (mt.group(2).strip() + ", V") if mt.group(2) else "V"
        edits.append((mt.start(), mt.end(), "vx_self_%s::<%s>(" % (mt.group(1), g)))
    for mt in re.finditer(r"\bself\s*\.\s*(\w+)\s*(?:::\s*<([^<>]*)>)?\s*\(", m):
        if mt.start() < body_from:
            continue
        g = (mt.group(2).strip() + ", V") if mt.group(2) else "V"
        edits.append((mt.start(), mt.end(), "vx_self_%s::<%s>(vx_self, " % (mt.group(1), g)))
    for (a, b, rep) in sorted(edits, reverse=True):
        text = text[:a] + rep + text[b:]
        n += 1
    if signature:
        m = mask(text)
        sh = FnShape(text)
        ps = m.find("&self", sh.params_open, sh.params_close)
        if ps < 0:
            raise SpliceError("R-SELF: no &self receiver")
        text = text[:ps] + "vx_self: &V" + text[ps + 5:]
        mt = re.search(r"\bfn\s+\w+\s*(<)?", mask(text))
        if mt.group(1):
            text = text[:mt.end()] + "V: %s, " % bound + text[mt.end():]
        else:
            text = text[:mt.end()] + "<V: %s>" % bound + text[mt.end():]
        n += 1
    return text, n
