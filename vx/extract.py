"""Locate items in /repo sources and return their text verbatim."""
import hashlib
import re

from .rustscan import (ScanError, mask, match_close, brace_blocks, item_start,
                       header_of, skip_ws, find_top_level, line_of)


class LostAnchor(Exception):
    """An item that the unit description names cannot be located (exit 2, never an alarm)."""


class Source:
    _cache = {}

    def __init__(self, path):
        self.path = path
        with open(path) as f:
            self.text = f.read()
        self.m = mask(self.text)
        self.blocks = brace_blocks(self.m)

    @classmethod
    def load(cls, path):
        if path not in cls._cache:
            cls._cache[path] = cls(path)
        return cls._cache[path]

    @classmethod
    def reset(cls):
        cls._cache = {}

    def enclosing(self, pos):
        """Headers of the blocks that enclose pos, outermost first."""
        res = []
        for (o, c) in self.blocks:
            if o < pos < c:
                res.append((header_of(self.m, o).strip(), o, c))
        return res


def _norm_ws(s):
    return re.sub(r"\s+", " ", s).strip()


def _impl_matches(header, want):
    """header: masked text like 'impl<S: Database> StorageManager<S>' ; want: 'StorageManager' or 'Ord for NodeLabel'."""
    h = _norm_ws(header)
    h = re.sub(r"#\[[^\]]*\]", " ", h).strip()   # leading attributes
    if not re.match(r"(unsafe\s+)?impl\b", h):
        return False
    h = h[h.index("impl"):]
    # remove generics right after impl
    rest = h[4:].lstrip()
    if rest.startswith("<"):
        depth = 0
        for k, ch in enumerate(rest):
            if ch == "<":
                depth += 1
            elif ch == ">":
                depth -= 1
                if depth == 0:
                    rest = rest[k + 1:].lstrip()
                    break
    # drop where clause
    rest = re.split(r"\bwhere\b", rest)[0].strip()

    def base(t):
        t = t.strip()
        t = re.sub(r"<.*$", "", t).strip()
        return t.split("::")[-1]

    if " for " in want:
        wt, wty = [x.strip() for x in want.split(" for ")]
        if " for " not in rest:
            return False
        t, ty = [x.strip() for x in rest.split(" for ", 1)]
        if "<" in wt:
            return _norm_ws(t).replace(" ", "") == _norm_ws(wt).replace(" ", "") and base(ty) == base(wty)
        return base(t) == base(wt) and base(ty) == base(wty)
    if " for " in rest:
        return False
    return base(rest) == base(want)


class Item:
    def __init__(self, src, start, end, kind, name, impl_header=None):
        self.src = src
        self.start = start
        self.end = end  # exclusive
        self.kind = kind
        self.name = name
        self.impl_header = impl_header  # original text of the impl header (without the brace)
        self.text = src.text[start:end]
        self.masked = src.m[start:end]
        self.line_start = line_of(src.text, start)
        self.line_end = line_of(src.text, end - 1)
        self.sha256 = hashlib.sha256(self.text.encode()).hexdigest()


def find_fn(src, name, container=None, inside_trait=None):
    """Find `fn name` whose innermost enclosing block is (a) nothing / a `mod` (container None),
    (b) an impl matching container, (c) a trait named inside_trait."""
    hits = []
    for mt in re.finditer(r"\bfn\s+%s\b" % re.escape(name), src.m):
        pos = mt.start()
        enc = src.enclosing(pos)
        # ignore hits nested inside other fn bodies / test modules
        heads = [h for (h, _, _) in enc]
        if any(re.search(r"\bfn\s+\w+", h) for h in heads):
            continue
        if any(re.search(r"\bmod\s+tests?\b", h) for h in heads):
            continue
        innermost = heads[-1] if heads else None
        if container is None and inside_trait is None:
            if innermost is not None and not re.search(r"\bmod\s+\w+\s*$", innermost):
                continue
            impl_header = None
        elif container is not None:
            if innermost is None or not _impl_matches(innermost, container):
                continue
            (h, o, c) = enc[-1]
            s = item_start(src.m, o)
            hdr = src.m[s:o]
            k = hdr.index("impl")
            impl_header = src.text[s + k:o].strip()
        else:
            if innermost is None or not re.search(r"\btrait\s+%s\b" % re.escape(inside_trait), innermost):
                continue
            impl_header = None
        start = item_start(src.m, pos)
        # body or ;
        j = find_top_level(src.m, mt.end(), len(src.m), "{;")
        if j < 0:
            raise LostAnchor("cannot delimit fn %s in %s" % (name, src.path))
        if src.m[j] == "{":
            end = match_close(src.m, j) + 1
        else:
            end = j + 1
        hits.append(Item(src, start, end, "fn", name, impl_header))
    if len(hits) != 1:
        raise LostAnchor("fn %s%s: %d matches in %s" % (
            (container + "::") if container else "", name, len(hits), src.path))
    return hits[0]


def find_decl(src, kw, name):
    """struct / enum / const / static / type / trait at module level."""
    hits = []
    for mt in re.finditer(r"\b%s\s+%s\b" % (kw, re.escape(name)), src.m):
        pos = mt.start()
        enc = src.enclosing(pos)
        heads = [h for (h, _, _) in enc]
        if any(not re.search(r"\bmod\s+\w+\s*$", h) for h in heads):
            continue
        if any(re.search(r"\bmod\s+tests?\b", h) for h in heads):
            continue
        start = item_start(src.m, pos)
        if kw in ("const", "static", "type"):
            j = find_top_level(src.m, mt.end(), len(src.m), ";")
            end = j + 1
        else:
            j = find_top_level(src.m, mt.end(), len(src.m), "{;")
            if src.m[j] == "{":
                end = match_close(src.m, j) + 1
            else:
                end = j + 1
        hits.append(Item(src, start, end, kw, name))
    if len(hits) != 1:
        raise LostAnchor("%s %s: %d matches in %s" % (kw, name, len(hits), src.path))
    return hits[0]


def find_impl(src, want):
    """A whole impl block: want = 'Ord for NodeLabel' or 'NodeLabel' (first inherent impl is ambiguous -> error)."""
    hits = []
    for (o, c) in src.blocks:
        enc = src.enclosing(o)
        if any(not re.search(r"\bmod\s+\w+\s*$", h) for (h, _, _) in enc):
            continue
        h = header_of(src.m, o)
        if _impl_matches(h, want):
            s = item_start(src.m, o)
            hits.append(Item(src, s, c + 1, "impl", want))
    if len(hits) != 1:
        raise LostAnchor("impl %s: %d matches in %s" % (want, len(hits), src.path))
    return hits[0]
