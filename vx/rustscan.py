"""Minimal Rust-aware text scanner used by the extractor.

Everything here works on a *masked* copy of the source: comments and the
contents of string / char literals are replaced by spaces (newlines kept), so
that brace matching and keyword searches can be done with plain string
operations while offsets stay valid for the original text.
"""
import re


class ScanError(Exception):
    pass


def mask(text):
    """Return text with comments and literal contents blanked (same length)."""
    out = list(text)
    n = len(text)
    i = 0

    def blank(a, b):
        for k in range(a, b):
            if out[k] != "\n":
                out[k] = " "

    while i < n:
        c = text[i]
        if c == "/" and i + 1 < n and text[i + 1] == "/":
            j = text.find("\n", i)
            if j < 0:
                j = n
            blank(i, j)
            i = j
        elif c == "/" and i + 1 < n and text[i + 1] == "*":
            depth = 1
            j = i + 2
            while j < n and depth > 0:
                if text.startswith("/*", j):
                    depth += 1
                    j += 2
                elif text.startswith("*/", j):
                    depth -= 1
                    j += 2
                else:
                    j += 1
            blank(i, j)
            i = j
        elif c == '"' or (c in "rb" and _is_str_prefix(text, i)):
            # string literal, possibly raw / byte
            j = i
            while text[j] in "rb":
                j += 1
            hashes = 0
            raw = "r" in text[i:j]
            while text[j] == "#":
                hashes += 1
                j += 1
            if text[j] != '"':
                i += 1
                continue
            j += 1
            start = j
            if raw:
                term = '"' + "#" * hashes
                k = text.find(term, j)
                if k < 0:
                    raise ScanError("unterminated raw string")
                blank(start, k)
                i = k + len(term)
            else:
                while j < n and text[j] != '"':
                    if text[j] == "\\":
                        j += 1
                    j += 1
                blank(start, j)
                i = j + 1
        elif c == "'":
            # char literal or lifetime
            if i + 2 < n and text[i + 1] == "\\":
                j = text.find("'", i + 2)
                # '\'' case
                if text[i + 2] == "'" and i + 3 < n and text[i + 3] == "'":
                    j = i + 3
                blank(i + 1, j)
                i = j + 1
            elif i + 2 < n and text[i + 2] == "'":
                blank(i + 1, i + 2)
                i += 3
            else:
                i += 1  # lifetime
        else:
            i += 1
    return "".join(out)


def _is_str_prefix(text, i):
    # r"..", r#"..."#, b"..", br"..", but not an identifier ending in r/b
    if i > 0 and (text[i - 1].isalnum() or text[i - 1] == "_"):
        return False
    j = i
    while j < len(text) and text[j] in "rb" and j - i < 2:
        j += 1
    k = j
    while k < len(text) and text[k] == "#":
        k += 1
    if k < len(text) and text[k] == '"':
        if k > j and "r" not in text[i:j]:
            return False
        return True
    return False


OPEN = "([{"
CLOSE = ")]}"
PAIR = {")": "(", "]": "[", "}": "{"}


def match_close(m, i):
    """m: masked text; i: index of an opening bracket. Returns index of its partner."""
    assert m[i] in OPEN, (i, m[i - 10 : i + 10])
    stack = []
    n = len(m)
    j = i
    while j < n:
        c = m[j]
        if c in OPEN:
            stack.append(c)
        elif c in CLOSE:
            if not stack or stack[-1] != PAIR[c]:
                raise ScanError("unbalanced bracket at %d" % j)
            stack.pop()
            if not stack:
                return j
        j += 1
    raise ScanError("no closing bracket for %d" % i)


def brace_blocks(m):
    """All {..} blocks as (open, close), in order of their opening."""
    blocks = []
    stack = []
    for j, c in enumerate(m):
        if c == "{":
            stack.append(j)
        elif c == "}":
            if not stack:
                raise ScanError("unbalanced } at %d" % j)
            blocks.append((stack.pop(), j))
    if stack:
        raise ScanError("unbalanced { at %d" % stack[-1])
    blocks.sort()
    return blocks


def item_start(m, pos):
    """Start of the item whose keyword is at pos: just after the previous ; { or }."""
    j = pos - 1
    depth = 0
    while j >= 0:
        c = m[j]
        if c in ")]":
            depth += 1
        elif c in "([":
            depth -= 1
        elif depth == 0 and c in ";{}":
            break
        j -= 1
    j += 1
    while j < pos and m[j] in " \t\r\n":
        j += 1
    return j


def header_of(m, open_idx):
    """Text of the block header that ends at the { at open_idx."""
    s = item_start(m, open_idx)
    return m[s:open_idx]


def skip_ws(m, i):
    while i < len(m) and m[i] in " \t\r\n":
        i += 1
    return i


IDENT = re.compile(r"[A-Za-z_][A-Za-z0-9_]*")


def find_top_level(m, start, end, chars):
    """First index in [start,end) of one of chars at bracket depth 0 (angle brackets not counted)."""
    depth = 0
    j = start
    while j < end:
        c = m[j]
        if depth == 0 and c in chars:
            return j
        if c in OPEN:
            depth += 1
        elif c in CLOSE:
            depth -= 1
            if depth < 0:
                return -1
        j += 1
    return -1


def line_of(text, idx):
    return text.count("\n", 0, idx) + 1
