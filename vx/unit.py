"""Assemble one Verus unit from /repo's working tree and a unit.toml description."""
import os
import re
import tomllib

from . import extract, splice
from .rustscan import mask, match_close, skip_ws, find_top_level
from .splice import SpliceError, FnShape

REPO = os.environ.get("VX_REPO", "/repo")
ROOT = os.path.dirname(os.path.dirname(os.path.abspath(__file__)))


class Gen:
    """Generated file under construction: text plus one tag per output line."""

    def __init__(self):
        self.lines = []
        self.tags = []

    def add(self, text, tag):
        for ln in text.split("\n"):
            self.lines.append(ln)
            self.tags.append(tag)

    def add_src(self, text, file, first_line, approx=False):
        for k, ln in enumerate(text.split("\n")):
            self.lines.append(ln)
            self.tags.append(("src~" if approx else "src", file, first_line + k))

    def text(self):
        return "\n".join(self.lines) + "\n"


class Segments:
    """A fn text with insertions at character offsets; rendered into a Gen with tags."""

    def __init__(self, text, file, first_line, approx):
        self.text = text
        self.file = file
        self.first_line = first_line
        self.approx = approx
        self.ins = []  # (offset, seq, text, tag, inline)

    def insert(self, off, text, tag, inline=False):
        self.ins.append((off, len(self.ins), text, tag, inline))

    def render(self, gen):
        ins = sorted(self.ins)
        pos = 0
        cur = ""  # current partial line
        cur_tag = None
        line_no = self.first_line

        def src_tag():
            return ("src~" if self.approx else "src", self.file, line_no)

        def flush_src(chunk):
            nonlocal cur, cur_tag, line_no
            for ch in chunk:
                if ch == "\n":
                    gen.lines.append(cur)
                    gen.tags.append(cur_tag if cur_tag is not None else src_tag())
                    cur = ""
                    cur_tag = None
                    line_no += 1
                else:
                    if cur_tag is None and not ch.isspace():
                        cur_tag = src_tag()
                    cur += ch

        for (off, _, text, tag, inline) in ins:
            flush_src(self.text[pos:off])
            pos = off
            if inline:
                if cur_tag is None:
                    cur_tag = src_tag()
                cur += text
            else:
                # own lines: finish the current line first if it has content
                if cur.strip():
                    gen.lines.append(cur)
                    gen.tags.append(cur_tag if cur_tag is not None else src_tag())
                cur = ""
                cur_tag = None
                for ln in text.split("\n"):
                    gen.lines.append(ln)
                    gen.tags.append(tag)
        flush_src(self.text[pos:])
        if cur.strip() or cur_tag is not None:
            gen.lines.append(cur)
            gen.tags.append(cur_tag if cur_tag is not None else src_tag())


def clause_list(v):
    """Normalise a list of clauses: strings or {id, text, alarm}."""
    out = []
    for k, c in enumerate(v or []):
        if isinstance(c, str):
            out.append({"id": None, "text": c, "alarm": []})
        else:
            out.append({"id": c.get("id"), "text": c["text"], "alarm": c.get("alarm", [])})
    return out


class Obligation:
    def __init__(self, name, kind, fn, alarm, text):
        self.name = name
        self.kind = kind
        self.fn = fn
        self.alarm = alarm
        self.text = text


class Unit:
    def __init__(self, name, features=None):
        self.name = name
        self.dir = os.path.join(ROOT, "contracts", name)
        with open(os.path.join(self.dir, "unit.toml"), "rb") as f:
            self.desc = tomllib.load(f)
        # include = [...]: item lists shared between units (types); contract_from: reuse another unit's proved contract
        items = []
        for inc in self.desc.get("include", []):
            with open(os.path.normpath(os.path.join(self.dir, inc)), "rb") as f:
                items += tomllib.load(f).get("item", [])
        self.desc["item"] = items + self.desc.get("item", [])
        for it in self.desc["item"]:
            kd = self.desc.get("keep_derives", {}).get(it.get("path"))
            if kd:
                it["keep_derives"] = kd
        for it in self.desc["item"]:
            cf = it.get("contract_from")
            if cf:
                with open(os.path.join(ROOT, "contracts", cf, "unit.toml"), "rb") as f:
                    other = tomllib.load(f)
                src = [o for o in other.get("item", []) if o.get("path") == it["path"] and o.get("kind") == it["kind"]]
                if len(src) != 1:
                    raise SpliceError("contract_from %s: item %s not found" % (cf, it["path"]))
                for k in ("requires", "ensures", "ret", "desugar"):
                    if k in src[0] and k not in it:
                        it[k] = src[0][k]
                it["role"] = "stub"
                it["proved_by"] = it.get("proved_by", "unit " + cf)
        self.features = set(features or splice.DEFAULT_FEATURES) - (splice.OFF_FEATURES - {"serde_serialization"})
        self.features -= {"serde_serialization", "bench", "rand"}
        # a unit may verify the code as compiled with some default features OFF (stated in the evidence through the cfg log)
        self.features -= set(self.desc.get("features_off", []))
        self.features |= set(self.desc.get("features_on", []))
        self.cfg_log = []
        self.desugar_counts = {}
        self.items = []        # metadata per extracted item
        self.obligations = []  # Obligation
        self.fn_names = {}     # verus fn name -> item path
        self.twins = []

    # ------------------------------------------------------------------ assembling
    def assemble(self, twin=False):
        extract.Source.reset()
        self.cfg_log = []
        self.desugar_counts = {}
        self.items = []
        self.obligations = []
        self.twins = []
        gen = Gen()
        d = self.desc
        gen.add("// GENERATED by vx from %s working tree; unit %s%s. Do not edit." % (
            REPO, self.name, " (reachability twin)" if twin else ""), ("gen", "header"))
        gen.add("#![feature(allocator_api)]", ("gen", "header"))
        gen.add("#![allow(unused, dead_code, non_snake_case, unused_imports, unused_variables, unused_mut, unreachable_code)]",
                ("gen", "header"))
        gen.add("use vstd::prelude::*;", ("gen", "header"))
        for h in d.get("header", []):
            gen.add(h, ("gen", "header"))
        gen.add("verus! {", ("gen", "header"))
        for p in d.get("prelude", ["prelude.rs"]):
            path = os.path.normpath(os.path.join(self.dir, p))
            with open(path) as f:
                txt = f.read().rstrip("\n")
            rel = os.path.relpath(path, ROOT)
            gen.add("// ---- prelude %s" % rel, ("gen", "prelude-header"))
            for k, ln in enumerate(txt.split("\n")):
                gen.lines.append(ln)
                gen.tags.append(("prelude", rel, k + 1))
            self._prelude_obligations(rel, txt)
        for it in d.get("item", []):
            self._emit_item(gen, it, twin)
        gen.add("} // verus!", ("gen", "footer"))
        gen.add("fn main() {}", ("gen", "footer"))
        return gen

    def _prelude_obligations(self, rel, txt):
        # every proof fn in a prelude is a lemma obligation (L); alarm lists come from `// alarm: Cxx` on the line above
        m = mask(txt)
        for mt in re.finditer(r"\bproof\s+fn\s+(\w+)", m):
            # external_body / axioms are assumptions, not obligations
            ls = txt.rfind("\n", 0, mt.start())
            prev = txt[max(0, txt.rfind("\n", 0, ls - 1 if ls > 0 else 0)):ls] if ls > 0 else ""
            head = txt[max(0, mt.start() - 200):mt.start()]
            if re.search(r"external_body\]\s*(pub\s+)?(broadcast\s+)?$", _strip_comments_tail(head)):
                continue
            alarm = []
            am = re.search(r"//\s*alarm:\s*([A-Z0-9, ]+)\s*$", prev.strip())
            if am:
                alarm = [a.strip() for a in am.group(1).split(",") if a.strip()]
            name = mt.group(1)
            self.obligations.append(Obligation("%s/%s#L" % (self.name, name), "L", name, alarm,
                                               "lemma %s (%s)" % (name, rel)))

    def _emit_item(self, gen, it, twin):
        kind = it["kind"]
        file = it["file"]
        src = extract.Source.load(os.path.join(REPO, file))
        path = it["path"]
        role = it.get("role", "verify")
        if it.get("optional"):
            # an item that may legitimately be absent (e.g. a helper introduced by a repair): the contract clauses that
            # depend on it then fail on their own instead of the unit becoming undecidable
            try:
                if kind == "fn":
                    extract.find_fn(src, path)
            except extract.LostAnchor:
                return
        if kind in ("fn", "impl_fn", "trait_fn"):
            if kind == "fn":
                item = extract.find_fn(src, path)
            elif kind == "impl_fn":
                cont, name = path.rsplit("::", 1)
                item = extract.find_fn(src, name, container=cont)
            else:
                cont, name = path.rsplit("::", 1)
                item = extract.find_fn(src, name, inside_trait=cont)
            self._emit_fn(gen, it, item, file, role, twin)
        elif kind in ("struct", "enum", "const", "static", "type"):
            item = extract.find_decl(src, kind, path)
            self._emit_decl(gen, it, item, file)
        elif kind == "impl":
            item = extract.find_impl(src, path)
            text = splice.normalise(item, self.features, self.cfg_log)
            self._record(item, file, kind, path, role)
            gen.add("// ---- %s %s %s:%d-%d sha256=%s" % (kind, path, file, item.line_start, item.line_end, item.sha256[:16]),
                    ("gen", "item-header"))
            gen.add_src(text, file, item.line_start)
        else:
            raise SpliceError("unknown item kind " + kind)

    def _record(self, item, file, kind, path, role):
        self.items.append({"file": file, "kind": kind, "path": path, "role": role,
                           "lines": [item.line_start, item.line_end], "sha256": item.sha256})

    def _emit_decl(self, gen, it, item, file):
        text = splice.normalise(item, self.features, self.cfg_log, tuple(it.get("keep_derives", [])))
        kind, path = it["kind"], it["path"]
        self._record(item, file, kind, path, "type")
        gen.add("// ---- %s %s %s:%d-%d sha256=%s" % (kind, path, file, item.line_start, item.line_end, item.sha256[:16]),
                ("gen", "item-header"))
        if kind in ("struct", "enum"):
            # N6: restricted visibility on a type declaration is widened to `pub` (Verus derives `open` accessor spec functions for
            # datatypes, which must be `pub`; visibility has no run-time meaning)
            text = re.sub(r"(?m)^(\s*)pub\((crate|super)\)\s+(struct|enum)\b", r"\1pub \3", text, count=1)
            if it.get("pub_tuple_field"):
                # N6 (same reason): the single private field of a newtype `struct W<..>(Inner)` is widened to `pub`
                text = re.sub(r"(\bstruct\s+\w+\s*(?:<[^>]*>)?\s*\()\s*(?!pub\b)", r"\1pub ", text, count=1)
            # ... and so is restricted visibility of its fields (a `pub open spec fn` may only read `pub` fields)
            text = re.sub(r"(?m)^(\s*)pub\((crate|super)\)\s+(\w+\s*:)", r"\1pub \3", text)
        derives = re.search(r"#\[derive\(([^)]*)\)\]", text)
        dl = [x.strip() for x in derives.group(1).split(",")] if derives else []
        if kind == "const" and it.get("static_lifetime"):
            # N5: reference-typed const needs 'static spelled out inside verus!
            text = re.sub(r":\s*&\s*(?!')", ": &'static ", text, count=1)
        if kind == "const" and it.get("const_stub_ensures"):
            # N5: initialiser Verus cannot evaluate -> exec const with its value facts as ensures; the initialiser text is
            # compared with the expected literal so that the assumed facts cannot drift from the code
            mt = re.search(r"=\s*(.*?)\s*;\s*$", text.strip(), re.S)
            if not mt or _one_line(mt.group(1)) != it["expect_init"]:
                raise SpliceError("const %s: initialiser is not the expected literal %s" % (path, it.get("expect_init")))
            head = text.strip()[:mt.start()].rstrip()
            head = re.sub(r"\bconst\b", "exec const", head, count=1)
            text = "#[verifier::external_body]\n%s\n    ensures %s\n{ %s }" % (head, it["const_stub_ensures"], mt.group(1))
            gen.add(text, ("gen", "assumed-const-facts:" + path))
            return
        if kind in ("struct", "enum") and "Clone" in dl and "Copy" not in dl and it.get("clone_companion", True):
            # N3: derived Clone on a non-Copy type has no Verus spec -> external_body impl stating it is structural
            new = [x for x in dl if x != "Clone"]
            text = text.replace(derives.group(0), ("#[derive(%s)]" % ", ".join(new)) if new else "", 1)
            dl = new
            clone_comp = True
        else:
            clone_comp = False
        if it.get("external_body"):
            gen.add("#[verifier::external_body]", ("gen", "assumed"))
        if it.get("reject_recursive_types"):
            rr = it["reject_recursive_types"]
            for tp in (rr if isinstance(rr, list) else [rr]):
                gen.add("#[verifier::reject_recursive_types(%s)]" % tp, ("gen", "companion"))
        gen.add_src(text, file, item.line_start)
        generics = it.get("generics", "")       # e.g. "<S: Database>"
        gargs = it.get("generic_args", "")      # e.g. "<S>"
        if kind in ("struct", "enum") and "PartialEq" in dl and it.get("eq_companion", True):
            vis = "open" if re.search(r"(?m)^\s*pub\s+(struct|enum)\b", text) else "closed"
            gen.add(
                "impl%s vstd::std_specs::cmp::PartialEqSpecImpl for %s%s {\n"
                "    %s spec fn obeys_eq_spec() -> bool { true }\n"
                "    %s spec fn eq_spec(&self, other: &%s%s) -> bool { *self == *other }\n"
                "}" % (generics, path, gargs, vis, vis, path, gargs), ("gen", "companion:PartialEqSpecImpl:" + path))
        if clone_comp:
            gen.add(
                "impl%s Clone for %s%s {\n"
                "    #[verifier::external_body]\n"
                "    fn clone(&self) -> (r: Self) ensures r == *self { unimplemented!() }\n"
                "}" % (generics, path, gargs), ("gen", "companion:Clone:" + path))

    def _emit_fn(self, gen, it, item, file, role, twin):
        path = it["path"]
        text = splice.normalise(item, self.features, self.cfg_log)
        rules = it.get("desugar", [])
        approx = False
        hoisted = []
        seg_off = 0
        if "R-SEGMENT" in rules:
            text, seg_off = splice.segment(text, it["segment"])
        if "R-SELF" in rules:
            text, _n = splice.r_self(text, it.get("self_bound", "V"), signature=True)
        if "R-CLOSPEC" in rules:
            text, _n = splice.closure_specs(text, it.get("closure_specs", []))
        if "R-SPAWN" in rules:
            text, hoisted = splice.hoist_spawn(text, it.get("spawn", []))
        if "R-FLATMAP" in rules:
            text, hoisted_fm = splice.hoist_flat_map(text, it.get("flat_map", []))
            hoisted = hoisted + hoisted_fm
        if rules:
            before_lines = text.count("\n")
            text = splice.desugar(text, rules, self.desugar_counts)
            approx = text.count("\n") != before_lines
        self._record(item, file, it["kind"], path, role)
        fn_id = path.split("::")[-1] if it["kind"] != "impl_fn" else path.replace("::", ".")
        if "R-SEGMENT" in rules:
            fn_id = fn_id.rsplit(".", 1)[0] + "." + it["segment"]["name"] if "." in fn_id else it["segment"]["name"]
            approx = True
        hdr = "// ---- %s %s [%s] %s:%d-%d sha256=%s" % (it["kind"], path, role, file, item.line_start, item.line_end, item.sha256[:16])
        variants = [False] + ([True] if (twin and role == "verify" and it.get("twin", True)) else [])
        for is_twin in variants:
            gen.add(hdr + (" TWIN" if is_twin else ""), ("gen", "item-header"))
            impl_header = item.impl_header
            if it["kind"] == "impl_fn" and not it.get("as_free_fn"):
                gen.add(impl_header + " {", ("src~", file, item.line_start))
                if it.get("impl_extra"):
                    gen.add(it["impl_extra"], ("gen", "impl-extra:" + path))
            if it["kind"] == "trait_fn" and "R-SELF" not in rules:
                raise SpliceError("trait_fn items need R-SELF (emitted as a free function over the implementing type)")
            seg = self._splice(text, it, file, item.line_start, approx, role, fn_id, is_twin)
            seg.render(gen)
            if not is_twin:
                for (cfg, htext, line_off) in hoisted:
                    # the hoisted task body is verified like any other function of the unit, under its declared contract
                    if rules:
                        htext = splice.desugar(htext, [r for r in rules if r not in ("R-SPAWN", "R-REC", "R-FLATMAP", "R-SEGMENT")], {})
                    if "R-REC" in rules:
                        htext, _ = splice._r_rec(htext, splice.FnShape(text).name)
                    if "R-SELF" in rules:
                        htext, _ = splice.r_self(htext, it.get("self_bound", "V"), signature=False)
                    hit = dict(cfg)
                    hit["path"] = it["path"].rsplit("::", 1)[0] + "::" + cfg["name"]
                    hit["kind"] = "fn" if it["kind"] == "trait_fn" else it["kind"]
                    gen.add("// ---- %s: body of the %s in %s, hoisted verbatim" % ((("R-FLATMAP", "flat_map closure") if "elem" in cfg else ("R-SPAWN", "task spawned")) + (path,)), ("gen", "item-header"))
                    hid = hit["path"].replace("::", ".")
                    hseg = self._splice(htext, hit, file, item.line_start + line_off, True, "verify", hid, False)
                    hseg.render(gen)
                if "R-REC" in rules and role == "verify":
                    rit = {k: v for k, v in it.items() if k in ("requires", "ensures", "ret", "path", "kind")}
                    # a precondition marked entry_only is about machine arithmetic at the entry call (e.g. a depth counter) and is
                    # not part of the induction hypothesis; it is reported as an assumption of the unit
                    rit["requires"] = [c for c in rit.get("requires", []) if not (isinstance(c, dict) and c.get("entry_only"))]
                    rit["ensures"] = list(it.get("ensures", []))  # including rec_only clauses (assumed about the recursive calls)
                    rit["rename"] = splice.FnShape(text).name + "__rec"
                    rit["proved_by"] = ""
                    gen.add("// ---- R-REC: induction hypothesis for the recursive calls (same contract; termination not proved)", ("gen", "item-header"))
                    saved = list(self.obligations)
                    rseg = self._splice(splice.normalise(item, self.features, []), rit, file, item.line_start, True, "rec", fn_id, False)
                    self.obligations = saved
                    rseg.render(gen)
            if it["kind"] == "impl_fn" and not it.get("as_free_fn"):
                gen.add("}", ("gen", "impl-close"))

    def _splice(self, text, it, file, first_line, approx, role, fn_id, is_twin):
        sh = FnShape(text)
        seg = Segments(text, file, first_line, approx)
        name = sh.name
        rename = it.get("rename", "")
        vname = (rename or name) + ("__twin" if is_twin else "")
        if is_twin or rename:
            mt = re.search(r"\bfn\s+%s\b" % re.escape(name), sh.m)
            if rename:
                seg.text = text = text[:mt.start()] + "fn " + rename + text[mt.end():]
                sh = FnShape(text)
                seg = Segments(text, file, first_line, approx)
                mt = re.search(r"\bfn\s+%s\b" % re.escape(rename), sh.m)
            if is_twin:
                seg.insert(mt.end(), "__twin", ("gen", "twin"), inline=True)
                self.twins.append(vname)
        ret = it.get("ret", "r")
        if sh.ret_start is not None:
            a = skip_ws(sh.m, sh.ret_start)
            b = sh.ret_end
            while sh.m[b - 1] in " \t\r\n":
                b -= 1
            if not text[a:b].startswith("(%s:" % ret):
                seg.insert(a, "(%s: " % ret, ("gen", "N4"), inline=True)
                seg.insert(b, ")", ("gen", "N4"), inline=True)
        elif it.get("ensures") and re.search(r"\basync\s+fn\b", sh.m[:sh.params_open]):
            # N4b: an `async fn` WITHOUT a declared return type silently loses its ensures at `.await` (observed with this Verus);
            # spelling the unit return type out, `-> (r: ())`, keeps them
            seg.insert(sh.params_close + 1, " -> (%s: ())" % ret, ("gen", "N4b"), inline=True)
        pre = self.name + "/" + fn_id
        spec_lines = []

        def add_clauses(kw, cls, kind):
            if not cls:
                return
            spec_lines.append(("    " + kw, ("gen", "kw")))
            for k, c in enumerate(cls):
                cid = c["id"] or "%s%d" % (kind, k + 1)
                oname = "%s#%s" % (pre, cid)
                tag = ("clause", fn_id, kind, cid)
                txt = c["text"].strip().rstrip(",")
                spec_lines.append(("        " + txt.replace("\n", "\n        ") + ",", tag))
                if not is_twin and kind != "R":
                    self.obligations.append(Obligation(oname, kind, fn_id, c["alarm"], _one_line(txt)))

        req = clause_list(it.get("requires"))
        ens = clause_list([c for c in it.get("ensures", []) if role == "rec" or not (isinstance(c, dict) and c.get("rec_only"))])
        add_clauses("requires", req, "R")
        if is_twin:
            spec_lines.append(("    ensures", ("gen", "kw")))
            for c in ens:
                spec_lines.append(("        " + c["text"].strip().rstrip(",").replace("\n", "\n        ") + ",", ("gen", "twin")))
            spec_lines.append(("        false,", ("clause", fn_id, "TWIN", "false")))
        else:
            add_clauses("ensures", ens, "E")
        if it.get("decreases"):
            spec_lines.append(("    decreases " + it["decreases"] + ",", ("clause", fn_id, "D", "decreases")))
        if it.get("opens_invariants"):
            spec_lines.append(("    opens_invariants " + it["opens_invariants"], ("gen", "kw")))
        if role in ("stub", "rec"):
            if not sh.has_body:
                raise SpliceError("stub of bodyless fn")
            # body replaced; contract assumed
            mt = re.search(r"\S", text)
            seg.insert(mt.start(), "#[verifier::external_body]" + (" // contract proved by " + it["proved_by"] if it.get("proved_by") else ""),
                       ("gen", ("rec-hypothesis:" if role == "rec" else "proved-elsewhere:" if it.get("proved_by") else "assumed-contract:") + fn_id))
            for (ln, tag) in spec_lines:
                seg.insert(sh.sig_end, ln, tag if tag[0] != "clause" else ("assumed-clause", fn_id, tag[2], tag[3]))
            # drop the body: replace by unimplemented!()
            seg.text = text[:sh.body_open] + "{ unimplemented!() }" + text[sh.body_close + 1:]
            # obligations recorded for a stub are not proof obligations
            self.obligations = [o for o in self.obligations if not (o.fn == fn_id and o.name.startswith(pre + "#"))]
            return seg
        for (ln, tag) in spec_lines:
            seg.insert(sh.sig_end, ln, tag)
        for at in it.get("attrs", []):
            mt0 = re.search(r"\S", text)
            seg.insert(mt0.start(), "#[%s]" % at, ("gen", "attr"))
        if not is_twin:
            self.obligations.append(Obligation(pre + "#body", "B", fn_id, it.get("body_alarm", []),
                                               "safety of every operation, callee preconditions and spliced assertions in " + name))
        # loops
        for lp in it.get("loops", []):
            k = lp["ordinal"]
            if lp.get("optional") and (k < 1 or k > len(sh.loops) or (lp.get("kind") and lp["kind"] != sh.loops[k - 1]["kind"])):
                continue  # the contract clause that depends on this loop then fails on its own
            if k < 1 or k > len(sh.loops):
                raise SpliceError("%s: loop %d not found (%d loops)" % (name, k, len(sh.loops)))
            L = sh.loops[k - 1]
            if lp.get("kind") and lp["kind"] != L["kind"]:
                raise SpliceError("%s: loop %d is `%s`, contract expects `%s`" % (name, k, L["kind"], lp["kind"]))
            if lp.get("iter"):
                if L["in_at"] is None:
                    raise SpliceError("%s: loop %d has no `in`" % (name, k))
                seg.insert(L["in_at"], " %s:" % lp["iter"], ("gen", "ghost-iter"), inline=True)
            for kw, key, kind in (("invariant_except_break", "invariant_except_break", "I"),
                                  ("invariant", "invariant", "I"), ("ensures", "ensures", "I")):
                cls = clause_list(lp.get(key))
                if not cls:
                    continue
                seg.insert(L["hdr_end"], "        " + kw, ("gen", "kw"))
                for q, c in enumerate(cls):
                    cid = c["id"] or "loop%d.%s%d" % (k, {"invariant_except_break": "ieb", "invariant": "inv", "ensures": "ens"}[key], q + 1)
                    txt = c["text"].strip().rstrip(",")
                    seg.insert(L["hdr_end"], "            " + txt.replace("\n", "\n            ") + ",",
                               ("clause", fn_id, "I", cid))
                    if not is_twin:
                        self.obligations.append(Obligation("%s#%s" % (pre, cid), "I", fn_id, c["alarm"], _one_line(txt)))
            if lp.get("decreases"):
                seg.insert(L["hdr_end"], "        decreases " + lp["decreases"] + ",", ("clause", fn_id, "D", "loop%d.decreases" % k))
                if not is_twin:
                    self.obligations.append(Obligation("%s#loop%d.decreases" % (pre, k), "D", fn_id, [], lp["decreases"]))
        # proof blocks
        for pb in it.get("proof_at", []):
            try:
                off = self._pos(sh, pb["pos"], name)
            except SpliceError:
                if pb.get("optional"):
                    continue  # the obligation is then reported as not generated (undecided), the rest of the unit still runs
                raise
            if pb.get("id"):
                # a spliced assertion that restates a contract clause at a point where the needed values are in scope: an
                # obligation of its own (kind A), so that its failure is reported like the clause's
                seg.insert(off, pb["text"].rstrip("\n"), ("clause", fn_id, "A", pb["id"]))
                if not is_twin:
                    self.obligations.append(Obligation("%s#%s" % (pre, pb["id"]), "A", fn_id, pb.get("alarm", []),
                                                       "spliced assertion at %s" % pb["pos"].split(":")[0]))
            else:
                seg.insert(off, pb["text"].rstrip("\n"), ("proof", fn_id, pb["pos"]))
        return seg

    def _pos(self, sh, pos, name):
        mt = re.match(r"^loop(\d+)\.(body_start|body_end)$", pos)
        if pos == "fn_start":
            return sh.body_open + 1
        if pos == "fn_tail":
            return sh.tail_at
        if pos == "fn_end":
            return sh.body_close
        if mt:
            k = int(mt.group(1))
            if k > len(sh.loops):
                raise SpliceError("%s: %s: no such loop" % (name, pos))
            L = sh.loops[k - 1]
            return L["open"] + 1 if mt.group(2) == "body_start" else L["close"]
        mt = re.match(r"^(before|after)_loop(\d+)$", pos)
        if mt:
            k = int(mt.group(2))
            if k > len(sh.loops):
                raise SpliceError("%s: %s: no such loop" % (name, pos))
            L = sh.loops[k - 1]
            return L["kw_at"] if mt.group(1) == "before" else L["close"] + 1
        mt = re.match(r"^(before|after)_stmt(\d+)$", pos)
        if mt:
            st = splice.statements(sh.m, sh.body_open, sh.body_close)
            k = int(mt.group(2))
            if k > len(st):
                raise SpliceError("%s: %s: only %d statements" % (name, pos, len(st)))
            return st[k - 1][0] if mt.group(1) == "before" else st[k - 1][1]
        mt = re.match(r"^loop(\d+)\.(before|after)_stmt(\d+)$", pos)
        if mt:
            L = sh.loops[int(mt.group(1)) - 1]
            st = splice.statements(sh.m, L["open"], L["close"])
            k = int(mt.group(3))
            if k > len(st):
                raise SpliceError("%s: %s: only %d statements" % (name, pos, len(st)))
            return st[k - 1][0] if mt.group(2) == "before" else st[k - 1][1]
        mt = re.match(r"^stmt(\d+)\.body_end$", pos)
        if mt:
            # just before the closing brace of the (last) block of the N-th top-level statement, e.g. the then-block of an `if`
            st = splice.statements(sh.m, sh.body_open, sh.body_close)
            k = int(mt.group(1))
            if k > len(st):
                raise SpliceError("%s: %s: only %d statements" % (name, pos, len(st)))
            (a, b, term) = st[k - 1]
            e = b - 1
            while e > a and sh.m[e] in " \t\r\n;":
                e -= 1
            if sh.m[e] != "}":
                raise SpliceError("%s: %s: statement does not end with a block" % (name, pos))
            return e
        mt = re.match(r"^(before|after):(\d+):(.+)$", pos, re.S)
        if mt:
            # the N-th occurrence of a literal piece of the source text inside the body (nested blocks included); if the text is
            # edited the anchor is lost (undecided), never silently moved
            lit, k = mt.group(3), int(mt.group(2))
            at = sh.body_open
            for _ in range(k):
                at = sh.text.find(lit, at + 1)
                if at < 0 or at > sh.body_close:
                    raise SpliceError("%s: %s: text not found" % (name, pos))
            return at if mt.group(1) == "before" else at + len(lit)
        mt = re.match(r"^after_stmt_with:(\d+):(.+)$", pos, re.S)
        if mt:
            # just after the `;` that ends the statement containing the N-th occurrence of a literal piece of source text
            lit, k = mt.group(2), int(mt.group(1))
            at = sh.body_open
            for _ in range(k):
                at = sh.text.find(lit, at + 1)
                if at < 0 or at > sh.body_close:
                    raise SpliceError("%s: %s: text not found" % (name, pos))
            depth = 0
            e = at
            while e < sh.body_close:
                c = sh.m[e]
                if c in "([{":
                    depth += 1
                elif c in ")]}":
                    depth -= 1
                    if depth < 0:
                        raise SpliceError("%s: %s: statement end not found" % (name, pos))
                elif c == ";" and depth == 0:
                    return e + 1
                e += 1
            raise SpliceError("%s: %s: statement end not found" % (name, pos))
        mt = re.match(r"^marker:([\w.]+)$", pos)
        if mt:
            # positions defined by a desugaring template (markers are comments inside the generated template text)
            mk = "/*@vx:%s@*/" % mt.group(1)
            k = sh.text.find(mk)
            if k < 0:
                raise SpliceError("%s: marker %s not present" % (name, mk))
            return k + len(mk)
        raise SpliceError("%s: unknown position %s" % (name, pos))


def _one_line(s):
    return re.sub(r"\s+", " ", s).strip()


def _strip_comments_tail(s):
    return re.sub(r"//[^\n]*", "", s).rstrip()
