"""Which units / harness groups / searches decide which property."""

TRUSTED_BASE = [
    "T1 Verus 0.2026.09.13 + Z3 (and Kani 0.68 + CBMC 6.11 where a Kani obligation is listed)",
    "T2 the extractor vx: item location, normalisations N1-N6 / N4b and the desugarings counted in desugarings_applied (R-FMT R-LOG R-ALL R-FOREACH R-ENUM R-EXTMAP R-UNDERSCORE R-MAPITER R-CONTINUE R-COLLECT R-SPAWN R-REC R-SEGMENT R-SLICE1 R-UFCS R-UTF8 R-CLOSPEC R-TAKE R-ASSERTEQ R-WHILELET R-SELF R-FLATMAP R-MAPCOLLECT R-DEREFSET R-GUARD - DESIGN 3.1 and 10.5); per-item SHA-256 in functions_under_contract",
    "T3 vstd specifications of core/alloc items and the assumed std specifications listed under assumptions",
    "T5 machine arithmetic is NOT treated as mathematical: Verus checks overflow on every executable operation (the two exceptions - a depth counter and a node counter in recursive functions - are listed under assumptions of the properties concerned)",
]

BASE_VERIFY_FNS = ["verify_label", "verify_existence", "verify_existence_with_val", "verify_existence_with_commitment", "verify_nonexistence",
                   "verify_membership", "verify_nonmembership", "NodeLabel.value", "NodeLabel.root", "NodeLabel.new"]

TN = "TreeNodeWithPreviousValue."
SM = "StorageManager."
PROPS = {
    "C12": {
        "verus": [("directory_publish", ["Directory.publish__tail", "Directory.publish__head", "Azks.get_latest_epoch"]),
                  ("manager", [SM + "commit_transaction", SM + "write_committed_records", SM + "tic_toc", SM + "increment_metric", "Clone for StorageManager.clone"])],
        "search": True,
        "always_search": True,
        "bounded_search": [{"obligation": "replay/c12#overtaken_on_clone",
                            "bound": "TWO deterministic interleavings of two publish calls on clones of one directory (the later-starting call is overtaken between its read of the epoch record and the start of its "
                                     "transaction; a whole call runs while the other call's commit write has been issued and has not reached storage), with and without the object cache, both configurations. Other interleavings are not explored"}],
        "scope": "partial (the single-call obligations the serialisation argument rests on; schedules themselves are outside this family): in the transactional tail of Directory::publish the batch - prepared against the "
                 "epoch read at the start of the call - is handed to batch_insert_nodes only after the epoch record was read AGAIN, bypassing the cache, by a call whose transaction had begun, and showed that same epoch "
                 "(permission epoch_confirmed, granted only from such a read); otherwise the transaction is rolled back and the call fails; a refused begin_transaction fails the call before any write AND without rolling back (a call may roll back only the transaction it began itself - the log is shared by all clones); an epoch other "
                 "than the current one is announced only after an accepted commit; StorageManager::commit_transaction ends the transaction - so that another one may begin - only once the database write of its records "
                 "has returned (accepted or rejected) or it is certain that none is attempted (permission write_attempt_over, granted by the write's return; C12-D13); a clone of a storage manager is a second handle on the SAME transaction log, cache and database (identity model: new = fresh, clone = same), so the transaction flag excludes publishes on clones. BOUNDED (never counted as proved): the overtaking interleaving on clones - each call fails without effect or takes effect as a "
                 "whole, successful calls get distinct consecutive epochs, every returned (epoch, hash) pair is what the audit chain verifies against. Not decided: that begin_transaction is an atomic test-and-set "
                 "shared by clones (Arc<AtomicBool> behind &self), any other interleaving, instances that do not share a storage manager.",
        "trusted": ["knowledge tokens (txn_begun, fresh_epoch_read, epoch_confirmed, rolled_back, commit_accepted) are handed out only by the postconditions of the external calls named after them; they cannot express the "
                    "ORDER of begin_transaction and the re-read - both are in the verified segment, in that order in the text",
                    "R-SEGMENT: the verified text is a suffix of publish; Directory is a model struct"],
        "assumed": [],
    },
    "C13": {
        "verus": [("manager", [SM + "get_direct", SM + "tic_toc", SM + "increment_metric", SM + "write_committed_records"]), ("tree_node", [TN + "determine_node_to_get", TN + "get_appropriate_tree_node_from_storage", "TreeNode.get_from_storage", "TreeNode.get_child_label", "TreeNode.get_child_node"]),
                  ("directory_lookup", ["Directory.poll_for_azks_changes", "Directory.lookup", "Directory.batch_lookup", "Directory.key_history__head", "Directory.key_history__tail",
                                        "Directory.create_single_update_proof", "Directory.get_epoch_hash", "Directory.audit", "Directory.retrieve_azks", "Clone for Directory.clone", "Azks.get_latest_epoch", "lemma_the_info"]),
                  ("azks_audit", ["Azks.get_root_hash_safe", "Azks.get_root_hash", "Directory.get_epoch_hash", "Azks.get_latest_epoch", "NodeLabel.root", "NodeLabel.new"])],
        "search": True,
        "always_search": True,
        "bounded_search": [{"obligation": "replay/c13#races_and_lagging_readers",
                            "bound": "fixed two/three-epoch histories, both configurations: a lookup / key_history on an uncached instance with another instance's publish running right AFTER and right BEFORE its read of the epoch record; a fresh reader "
                                     "served right after the storage operation that carries the epoch record of a commit; a read-only directory lagging 0..3 (thorough: 6) epochs behind storage, with and without cache"}],
        "scope": "partial: a commit hands ALL its records to the database in ONE storage operation with the epoch record last (manager/write_committed_records#E_commit), so no reader can see the new epoch record without the records it announces; the four request handlers that take the shared side of the cache lock (lookup, batch_lookup, key_history, audit) hold it from their first statement to their end (R-GUARD: a guard bound to a name lives to the end of the function, a guard matched against `_` is dropped at once; an explicit drop is exit 2); one iteration of the change poller follows the protocol exclusive lock -> flush -> reload of the epoch record -> change signal (the flush requires the exclusive lock to have been taken, the signal requires flush and reload: knowledge tokens of one loop iteration); request handlers read the epoch record THROUGH the object cache (retrieve_azks; a direct read is a permission only the poller holds), a clone of a directory shares the cache lock and the storage manager of the original (so the poller's exclusive lock on a clone excludes the original's readers); reads of the epoch record are modelled as NONDETERMINISTIC (a publish may complete between two of them), and lookup / batch_lookup / key_history (head, every update proof, tail) / audit / get_epoch_hash take the epoch, the state filter, every tree proof and the root hash of an answer from ONE value of that record (never a proof stitched together from two epochs, whatever the interleaving with publishes); the as-of read of a node record never returns a node newer than the epoch asked for (so no answer stitches a newer node into an older epoch); a child a node names but whose record holds only newer versions (reader behind storage) is an error for get_child_node, never an absent child (else the proof walk would return a proof that misses a subtree); the read returns the latest "
                 "node whenever it is not newer, and otherwise only NotFound; get_epoch_hash answers (e, h) with e the latest epoch of the ONE epoch record it read and h the root hash of the "
                 "root node as of that very e (get_root_hash_safe refuses any epoch other than the record's). Interleavings, the change poller and the cache are not decided.",
        "trusted": ["T6 async functions are verified under single-task sequential semantics; a storage read is a function of (manager, key) during one call",
                    "StorageManager::get is external (assumed to return the stored record)"],
        "assumed": ["residual seen by reading: get_child_node maps NotFound to 'no child', so a reader overtaken during a request can still assemble a non-verifying proof (outside this contract)"],
    },
    "C18": {
        "verus": ["encoding_lemmas", ("verify_base", BASE_VERIFY_FNS + ["verify_label", "NodeLabel.new"]),
                  ("verify_history", ["verify_single_update_proof"]), ("verify_lookup", ["lookup_verify"]), "vrf_labels",
                  ("directory_publish", ["Directory.publish__vrf_map"])],
        "kani": ["c18"],
        "search": True,
        "scope": "partial (everything except the curve arithmetic): the node labels a publish places in the tree - VRFKeyStorage::get_node_labels, the parallel branch (tasks in a JoinSet whose "
                 "join_next hands results out in COMPLETION order) - pair every input tuple with the VRF label of that very tuple, and return a pair for EVERY tuple of the batch exactly once (task-identity model of the JoinSet: join_next answers None only when no spawned task is left; each task handed out ran to completion with the pair of the tuple it was spawned for) (trait default method verified as a free function over an arbitrary implementor, R-SELF), and publish keys its tuple -> node label map with exactly those pairs (segment publish__vrf_map); the VRF public-key parser refuses bytes that are not a curve point and points of small order, under which proofs for any input could be forged (Kani, curve operations as harness-controlled switches); every acceptance path of the client verifiers binds the claimed node label through verify_label to the (label, freshness, version) "
                 "it is accepted for - verify_existence / _with_val / _with_commitment / verify_nonexistence accept only with label_ok for exactly their arguments, and lookup_verify / "
                 "verify_single_update_proof (tombstoned entries under AllowMissingValues included) accept only through them; verify_label accepts iff key and proof parse, the VRF accepts the proof for the hash input of (label, freshness, version) "
                 "and the claimed node label equals the truncated VRF output with length 256 (Verus, unbounded); the hash input is be64(|label|) || label || [freshness] || be64(version) "
                 "(Kani on the real functions with a recording hash stub, both configurations; BOUNDED in the label length, full-domain otherwise) and that encoding is injective "
                 "(Verus lemma, unbounded); leaf-hash and commitment-nonce pre-images (nonce contains the key-derived commitment key); output truncation = first 32 bytes; the key and proof parsers refuse every byte string of the wrong length (Kani, curve operations stubbed). "
                 "VRF completeness, uniqueness and key separation are cryptographic assumptions.",
        "trusted": ["everything in ecvrf_impl.rs (prove/verify/evaluate, proof (de)serialisation) and the hash functions themselves (blake3)",
                    "tokio JoinSet model: join_next yields the value of SOME spawned task that completed, in no particular order; R-SPAWN / R-WHILELET / R-SELF applied to get_node_labels; termination of its loops not proved",
                    "u64::to_be_bytes is the big-endian byte string (be64)"],
        "assumed": [],
    },
    "C19": {
        "verus": [("verify_history", ["verify_with_history_params", "key_history_verify"]), ("auditor", ["audit_verify"])],
        "kani": ["c19"],
        "search": True,
        "always_search": True,
        "bounded_search": [
            {"obligation": "proto/whole_proof#roundtrip", "bound": "real lookup / history (Complete, MostRecent(1), MostRecent(2)) / append-only proofs of a 3-epoch directory, both configurations: proof -> proto message -> wire bytes -> message -> proof is identical and verifies to the same result"},
            {"obligation": "proto/whole_proof#no_panic", "bound": "every truncation (first 400 lengths) and 300 seeded single-bit flips of each of those encodings: decoding returns Err or Ok, never panics"}],
        "scope": "no arithmetic overflow (hence no overflow panic) in the history verifier and the auditor for ANY decoded proof - counters at u64::MAX included (Verus #body obligations of verify_with_history_params / key_history_verify / audit_verify, without the former R_nooverflow assumptions; C19-D14); partial (label / digest / direction codecs and component round trips, Kani on the compiled crate): minimal-label encode/decode round trip for all 2^256 values; "
                 "NodeLabel, AzksElement, SiblingProof -> proto -> back is the identity; over-long label value, label_len > 256, missing fields and wrong-size digests are rejected "
                 "without panic; the direction field decodes only to 0/1 after masking. Whole proofs (composite converters: Kani did not finish within 15 min even with concrete labels) are "
                 "covered by a BOUNDED enumeration on the real code, see bounded.",
        "trusted": ["the protobuf crate (wire parsing, never panics on arbitrary bytes)", "alloc::fmt::format stubbed in the harnesses (error message text is irrelevant to the contracts)",
                    "overlay akd_core/Cargo.toml: default features += protobuf, whatsapp_v1 (cargo kani applies --features workspace-wide)"],
        "assumed": [],
    },
    "C09": {
        "verus": ["auditor", ("azks_walk", ["TreeNode.update_hash", "node_to_azks_value", "node_to_label", "TreeNode.get_latest_epoch"])],
        "kani": ["c05"],
        "search": True,
        "bounded_search": [{"obligation": "auditor/ensure_prefix_free#completeness",
                            "bound": "cross-check only (the soundness direction is PROVED in Verus): all sets of <= 3 labels of <= 3 bits (thorough: 4), with and without stray bits; accepted <==> pairwise prefix-free"}],
        "always_search": True,
        "scope": "auditor side: audit_verify Ok ==> |epochs|+1 = |hashes|, |epochs| = |proofs| and every transition i was accepted for (hashes[i], hashes[i+1], epochs[i]+1); a transition is "
                 "accepted only if both reconstructed node sets are prefix-free (no shadowed / duplicated / overlapping subtree: the validation helper ensure_prefix_free is proved - canonicalise, sort, "
                 "compare neighbours - through an order lemma on bit strings) and the reconstructed root hashes equal the given ones "
                 "(start from the unchanged nodes, end from unchanged + inserted leaves committed with the end epoch). That batch_insert_nodes computes the canonical tree is assumed (C01).",
        "trusted": ["Azks::new / batch_insert_nodes / get_root_hash external: the root hash is a function of (start epoch, inserted node set, mode) for one insertion into a fresh manager",
                    "collision resistance for 'replacing any root hash makes verification fail'",
                    "assumed std contracts: <[T]>::sort_unstable_by returns a rearrangement ordered by the comparator; <[u8; 32] as Ord>::cmp is byte-wise lexicographic (cross-checked by Kani c17_cmp_contract); Ordering::then"],
        "assumed": ["the epoch list is shorter than usize::MAX (overflow guard)"],
    },
    "C01": {
        "verus": ["directory_publish", ("azks_audit", ["Azks.batch_insert_nodes", "Azks.increment_epoch", "AzksElementSet.deref"]),
                  ("azks_walk", ["TreeNode.update_hash", "node_to_azks_value", "node_to_label", "new_leaf_node", "TreeNode.new"])],
        "search": True,
        "always_search": True,
        "bounded_search": [{"obligation": "replay/c01#canonical_trie",
                            "bound": "6 (thorough: 24) seeded random histories of 16 (30) publish calls over 3..8 labels per configuration, batches of 1..4 entries incl. no-op re-submissions and batches naming a label twice, "
                                     "sequential and parallel insertion: after EVERY call epoch and root hash are compared with an independent computation of the canonical compressed trie over the prescribed leaves"}],
        "scope": "partial. The heart of the statement - the root hash equals the hash of the canonical trie over the prescribed leaves, i.e. functional correctness of the recursive batch insertion - is NOT decided "
                 "deductively; it is covered only by the BOUNDED differential check (never counted as proved). Deductive parts (single functions of the publish path): the middle of publish builds, for every labelled tuple of the "
                 "batch, exactly the leaf the statement prescribes (stale tuple -> the stale constant; fresh tuple -> the commitment to (commitment key, node label, version, value)) and records a value state with the NEXT epoch "
                 "for fresh tuples only (segment publish__build_update_set, HashMap loop through R-MAPITER, any iteration order); the tail announces current+1 only after an accepted commit and returns the current epoch "
                 "unchanged for an empty update set; batch_insert_nodes advances the epoch by exactly one and leaves the tree untouched for an empty batch; update_hash stores the parent hash of exactly the values / labels "
                 "node_to_azks_value / node_to_label report (leaf values with their epoch); new_leaf_node stamps a leaf with its birth epoch. The head of publish (segments publish__head / publish__tuples / publish__vrf_map; iterator chains through R-MAPCOLLECT / R-FLATMAP / R-COLLECT, "
                 "the flat_map closure hoisted verbatim): a batch that repeats a label is refused before anything is read or written; the stored versions are asked for exactly the labels of the batch as of "
                 "the epoch of the one epoch record read, next epoch = that epoch + 1; the batch becomes the concatenation of, per (label, value): (Fresh, 1) for an unseen label, NOTHING for a label re-submitted with its current value, "
                 "(Stale, v), (Fresh, v+1) otherwise; the tuple -> node label map holds for each tuple the VRF label of that very tuple. get_node_labels returns a pair for every tuple of the batch (units vrf_labels / vrf_labels_seq: E_complete) and every tuple is a key of the map. Not decided: trie insertion.",
        "trusted": ["R-SEGMENT / R-MAPITER (vx_pop_any removes an ARBITRARY entry: every iteration order); T4 configuration hashes and the VRF as functions",
                    "std iterator chains as loops: iter().map(f).collect() into Vec / HashSet (R-MAPCOLLECT), iter().flat_map(f).collect() (R-FLATMAP), into_iter().collect::<HashMap>() (vx_pairs_into_map); <[T]>::sort is a rearrangement; AkdLabel obeys the HashMap key model; a stored epoch is < u64::MAX and stored versions are < u64::MAX",
                    "the independent canonical-trie computation in replay/exports (written from the statement; shares only the hash primitives and the VRF with the code under test)"],
        "assumed": [],
    },
    "C02": {
        "verus": [("directory_lookup", ["Directory.lookup", "Directory.lookup_with_info", "Directory.get_lookup_info", "Directory.build_lookup_info", "Directory.derive_commitment_key",
                                        "Directory.batch_lookup", "lemma_the_info", "get_marker_version", "Azks.get_latest_epoch"]), ("verify_lookup", ["lookup_verify"]), ("verify_base", BASE_VERIFY_FNS), "azks_proofs",
                  ("directory_publish", ["Directory.publish__head", "Directory.publish__tuples", "Directory.publish__tuples_for", "lemma_all_tuples_step", "lemma_labels_step", "lemma_distinct_iff", "lemma_multiset_same_set"])],
        "search": True,
        "always_search": True,
        "bounded_search": [{"obligation": "replay/c0203#all_answers",
                            "bound": "8 labels (sequential insertion, single-threaded runtime) and 48 labels (thorough: 96; parallel insertion and parallel VRF labelling on a 4-worker runtime), two versions each; every "
                                     "lookup and key-history (Complete, MostRecent(1), MostRecent(5)) answer must verify to the true latest value / versions; both configurations - a cross-check of the whole statement "
                                     "for what lies between the verified units (tree contents, VRF labelling of a batch)"}],
        "scope": "partial (server-side ASSEMBLY of a lookup answer + agreement with the verifier; not the tree contents): Directory::lookup reads the epoch record once and that one record decides the epoch of "
                 "the answer, the state filter, the tree the proofs are taken from and the root hash returned with them; get_lookup_info selects the newest state NOT NEWER than that epoch (LeqEpoch) and a label "
                 "without such a state gets an error, never a proof; build_lookup_info asks the VRF for exactly the triple (Fresh, v), (Fresh, 2^floor(log2 v)), (Stale, v) - the same `plog` the verifier's contract "
                 "(C06) uses, get_marker_version = 63 - leading_zeros verified; lookup_with_info fills every field from the component produced for the right (freshness, version) and tree label: the three VRF "
                 "proofs' bytes, membership proofs of the existent and marker labels, the non-membership proof of the stale label, value/version/epoch of the selected state, and the commitment nonce of "
                 "(key-derived commitment key, node label of the fresh VRF proof, version, value). Not decided: that the tree contains these leaves (C01), that the NON-membership proof's prefix conditions hold for the honest anchor "
                 "(the fold-to-root part of C05 completeness is proved in unit azks_proofs), lock discipline against the poller. batch_lookup: per label, in order, the answer is assembled from THE lookup info of (label, epoch of the one epoch record read) by the same lookup_with_info, "
                 "and its assert_eq! can never fail (R-ASSERTEQ turns it into an obligation). "
                 "The VERSION rule (head of Directory::publish, R-SEGMENT + R-FLATMAP: the flat_map closure hoisted verbatim and verified as a function, the adapter chain as a loop): a batch turns into "
                 "exactly the in-order concatenation, per (label, value), of: a label without a stored state -> (Fresh, 1); a label whose stored latest value EQUALS the submitted one -> nothing "
                 "(no version, the version counts distinct successive values); otherwise (Stale, v), (Fresh, v+1) for the stored latest version v.",
        "trusted": ["T4 the VRF as functions of (key storage, label, freshness, version); R-UFCS rewrites `self.vrf.m(..)` into free-function stubs (the VRF trait has async methods)",
                    "T6 results of storage / tree reads are functions of what one request sees (user_state, mem_proof, nonmem_proof, root_hash_of, azks_read)",
                    "Directory is a model struct with the fields these functions touch; R-UTF8 makes the error-message choice opaque; the greedy preload only warms the cache (external)",
                    "<[T]>::to_vec is an element-wise clone (assumed std contract)"],
        "assumed": ["stored versions are >= 1 (precondition R_versions; `64 - leading_zeros(0) - 1` would underflow) and < u64::MAX (`latest_version + 1` in publish)",
                    "std's slice iter().flat_map(f).collect() is the in-order concatenation of f's results (R-FLATMAP); AkdLabel's Hash/Eq obey the HashMap key model"],
    },
    "C03": {
        "verus": [("directory_lookup", ["Directory.create_single_update_proof", "Directory.key_history__head", "Directory.key_history__tail", "Directory.derive_commitment_key", "lemma_min_max",
                                        "lemma_mask_is_filter", "Azks.get_latest_epoch"]),
                  ("verify_history", ["verify_single_update_proof", "verify_with_history_params", "lemma_consecutive"]), ("verify_base", BASE_VERIFY_FNS), "azks_proofs",
                  ("directory_publish", ["Directory.publish__tuples", "Directory.publish__tuples_for", "lemma_all_tuples_step"])],
        "search": True,
        "always_search": True,
        "bounded_search": [{"obligation": "replay/c0203#all_answers",
                            "bound": "8 labels (sequential insertion, single-threaded runtime) and 48 labels (thorough: 96; parallel insertion and parallel VRF labelling on a 4-worker runtime), two versions each; every "
                                     "lookup and key-history (Complete, MostRecent(1), MostRecent(5)) answer must verify to the true latest value / versions; both configurations - a cross-check of the whole statement "
                                     "for what lies between the verified units (tree contents, VRF labelling of a batch)"}],
        "scope": "partial (server-side ASSEMBLY of a key-history answer from the selected states + agreement with the verifier; not the selection itself, not the tree contents): "
                 "create_single_update_proof fills an update proof for one stored state with the fields the verifier checks - epoch/version/value of the state, the VRF proof and membership proof of "
                 "(Fresh, version), for every version > 1 the membership proof and VRF proof of (Stale, version - 1) and for version 1 neither, and the commitment nonce; the tail of key_history (from the "
                 "emptiness test to the end, R-SEGMENT) errors on an empty selection, produces exactly one update proof per selected state in order, computes the marker versions with the SAME "
                 "get_marker_versions(oldest selected version, newest selected version, served epoch) the verifier calls, and for every past marker a VRF proof + membership proof of (Fresh, marker), for "
                 "every future marker a VRF proof + NON-membership proof of (Fresh, marker), in the order of those lists, and returns them with (served epoch, root hash of the epoch record it was given). "
                 "the head of key_history (R-SEGMENT up to the emptiness test; closures through R-CLOSPEC, the MostRecent cut through R-TAKE): the selected states are exactly the stored states of the label that are "
                 "NOT NEWER than the epoch of the ONE epoch record read, newest first, all of them or the newest min(N, total). Not decided: that the tree contains these leaves (C01), "
                 "that honest membership / non-membership proofs verify (C05 completeness); create_single_update_proof re-reads the epoch record per update (T6: one request sees one storage state).",
        "trusted": ["T4 the VRF as functions; R-UFCS; T6 storage / tree reads as functions of what one request sees",
                    "the unit is verified as compiled WITHOUT the default feature preload_history (that block only warms the cache: an iterator chain over both marker lists)",
                    "get_marker_versions is a function of its arguments (its contents are proved under C08)", "<[T]>::to_vec is an element-wise clone (assumed std contract)",
                    "assumed std contracts: Vec::retain (keeps, in order, exactly the elements the predicate answered true for), <[T]>::sort_by (rearrangement; no earlier element compares Greater than a later one); "
                    "R-CLOSPEC gives the two closures their ensures (proved against their bodies), R-TAKE models into_iter().take(n).collect() as the first min(n, len) elements"],
        "assumed": ["stored states satisfy 1 <= version <= epoch of the state (precondition of the segment: get_marker_versions needs start <= end <= epoch)"],
    },
    "C10": {
        "verus": [("directory_publish", ["Directory.publish__tail", "Directory.publish__after_commit", "Azks.get_latest_epoch"]), ("tree_node", [TN + "get_appropriate_tree_node_from_storage", TN + "determine_node_to_get", "TreeNode.get_from_storage", "TreeNode.get_child_label", "TreeNode.get_child_node", "TreeNode.write_to_storage"]),
                  ("manager", ["Clone for StorageManager.clone", SM + "commit_transaction", SM + "write_committed_records", SM + "tic_toc", SM + "increment_metric"])],
        "search": True,
        "always_search": True,
        "bounded_search": [{"obligation": "replay/c10#single_fault_enumeration",
                            "bound": "one fixed two-epoch history ([(a,a1),(b,b1)] then [(a,a2),(c,c1)]); the second publish repeated once per database operation it performs with exactly that "
                                     "operation failing, followed by the same batch again or by a different batch [(b,b2),(d,d1)]; with and without the object cache; both hashing configurations; in-memory database; plus: PARALLEL insertion of 24-label batches, every single fault of the second publish, everything the call started is given the chance to run, then a different batch (no task may outlive a failed publish)"}],
        "scope": "partial. Deductive part (the transactional tail of Directory::publish, from the no-change early return to the end, verified as two segments of the real text): an epoch other than the "
                 "current one is announced only if commit_transaction returned Ok, and then it is current+1; every error exit taken after begin_transaction is preceded by rollback_transaction "
                 "(failed insertion, failed root-hash computation, failed commit); once the commit has been accepted nothing that can fail is left - the call returns Ok(next epoch); a named child whose read fails with anything but NotFound surfaces as an error through get_from_storage and get_child_node (never as 'no child', which the hashing would treat as an empty subtree). "
                 "BOUNDED part (never counted as proved): single-fault enumeration on the real code - after a publish that returned an error the same directory instance reports the previous "
                 "epoch and root hash, still serves a verifying proof of the previous value, holds no open transaction, and a later publish (the same batch again, or a different one) ends in the state of a directory that never saw the failed call; a publish that returns Ok despite a failed operation must have produced the fault-free root hash. "
                 "Not decided: the statements of publish before the segment (duplicate check, label derivation, building the update sets - they perform reads only), the cache's and the "
                 "transaction log's internal state (Arc/DashMap/atomics behind &self), multi-fault schedules, histories other than the enumerated one.",
        "trusted": ["StorageManager::{begin,commit,rollback}_transaction, batch_set and the Azks methods are external; 'rollback was called' / 'commit returned Ok' are knowledge tokens that only those calls' postconditions hand out",
                    "R-SEGMENT: the verified text is a suffix of the function body with its free variables as declared parameters; the statements before it are dropped",
                    "Directory is a model struct with the fields the segment touches (storage, parallelism_config)"],
        "assumed": ["`self.storage.batch_set(updates).await?` inside the open transaction cannot fail (it only appends to the transaction log: StorageManager::batch_set returns Ok before any database call when a transaction is active) - its error exit carries no rollback"],
    },
    "C16": {
        "verus": [("manager", [SM + "set", SM + "batch_set", SM + "commit_transaction", SM + "write_committed_records", SM + "get", SM + "get_from_cache_only", SM + "batch_get", SM + "get_user_state",
                               SM + "tic_toc", SM + "increment_metric", SM + "is_transaction_active", SM + "get_direct", SM + "tombstone_value_states"]), "timed_cache"],
        "search": True,
        "always_search": True,
        "scope": "partial (ordering contract + what the cache stores): the cache's own write paths (unit timed_cache, R-DEREFSET for stores through a lock guard): TimedCache::put / batch_put store EVERY record they are given - the epoch record in its never-expiring slot, anything else in the map under the record's key - unconditionally (no comparison with what the slot held), and flush empties the map and the epoch slot;  on every path of the storage manager that fills the object cache - the three write paths (set, batch_set, transaction commit) and the "
                 "three read-fill paths (get, batch_get, get_user_state) - a record enters the cache only if the database returned it from a read or accepted it in a write, so a write "
                 "the database rejects never changes what a later read returns; reads prefer the pending transaction value; get_direct ('ignoring any caching') holds no permission to fill the cache at all - the change poller's direct read of the epoch record cannot move the instance's cached view. Expiry, memory-pressure eviction (TimedCache::clean: floating point, closures over &mut counters), hit_test's map branch and concurrent tasks (state behind "
                 "&self, wall clock) are not decided.",
        "trusted": ["unit timed_cache: MODEL struct TimedCache (the Arc wrappers dropped), model RwLock / DashMap whose primitives hand out the knowledge tokens slot_written / map_inserted / map_cleared; TimedCache::clean external (assumed to evict map entries only)",
                    "unit manager: TimedCache / Database / Transaction methods external; 'the database holds this record' is a knowledge token that only their postconditions hand out",
                    "T6 single-task sequential semantics of the async functions"],
        "assumed": [],
    },
    "C14": {
        "verus": ["vrf_labels", "vrf_labels_seq",
                  ("azks_walk", ["Azks.get_append_only_proof_helper", "Azks.vx_task1", "lemma_walk_unfold", "lemma_child_unfold", "lemma_multiset_algebra", "lemma_concat_multiset", "lemma_push_multiset", "lemma_empty_multiset"]),
                  ("directory_lookup", ["Directory.retrieve_azks"]), "azks_insert", "readonly_wrapper"],
        "search": True,
        "always_search": True,
        "bounded_search": [{"obligation": "replay/c14#variants",
                            "bound": "one 4-epoch history (12 labels; updates; the same 12 again in reverse order; one more label) under {sequential, parallel insertion} x {no cache, default cache, 64-byte memory limit cleaned every 2 ms, 2 ms item lifetime} x {long-lived instance, "
                                     "instance re-created over the same storage before every call} x {single-threaded, 4-worker runtime} x both configurations: identical epoch hashes and identical verified lookup results"}],
        "scope": "partial (the pieces of 'results do not depend on parallelism' that are properties of ONE function): the two compile variants of VRFKeyStorage::get_node_labels - tasks in a JoinSet joined in completion order "
                 "(feature parallel_vrf) and the plain loop - satisfy the SAME contract: every input tuple is paired with the VRF label of that tuple; the audit walk returns walk_spec of the stored tree (as multisets) "
                 "through its sequential branch and through its spawned-task branch alike; the parallel-level countdown of the recursive insertion cannot underflow for any level count (also 0 and 1) and both branches obey the same write discipline; an instance takes the epoch record through its cache like its tree nodes (never the epoch from storage and the tree from the cache); every method of the read-only wrapper hands its arguments unchanged to the Directory method of the same name and returns that method's answer (unit readonly_wrapper: proof and error types opaque). "
                 "BOUNDED (never counted as proved): identical epoch hashes and verified results across insertion parallelism, cache, restarts and runtimes for one history. Not decided: order / sub-batch independence of "
                 "the trie insertion (that is C01's canonical-trie statement), cache lifetimes and memory limits, the preload features, the read-only wrapper.",
        "trusted": ["tokio task / JoinSet models (a joined value is the value of a spawned future; join_next yields in completion order)", "R-SELF / R-SPAWN / R-REC / R-WHILELET desugarings; termination not proved",
                    "T4 the VRF as a function of (key pair, label, freshness, version)"],
        "assumed": [],
    },
    "C15": {
        "verus": [("manager", [SM + "get_user_state", SM + "compare_db_and_transaction_records", SM + "commit_transaction", SM + "is_transaction_active",
                               SM + "tic_toc", SM + "increment_metric", "DbRecord.transaction_priority", SM + "get_user_state_versions",
                               SM + "get_from_cache_only", SM + "get", SM + "batch_get", "lemma_merge", SM + "set", SM + "batch_set", SM + "write_committed_records", "Clone for StorageManager.clone"])],
        "kani": ["c15"],
        "search": True,
        "always_search": True,
        "scope": "partial: inside a transaction a single user-state query returns the pending record exactly when it must win against the database answer for that flag "
                 "(SpecificVersion/SpecificEpoch: always; LeqEpoch/MaxEpoch: pending epoch >= database epoch; MinEpoch: <=), the database answer otherwise, NotFound iff both are absent; "
                 "the bulk versions query answers per user the (version, value) of the state that rule selects (HashMap loop through R-MAPITER, any iteration order); "
                 "single and batched record gets return the pending record of a key whenever the open transaction has one (a cache hit only for keys without a pending record, "
                 "the database only for keys with neither); commit hands the database exactly the drained log, only if its last record is the epoch record, and reports its size. "
                 "lemma_merge: that rule applied to the answers over database and pending data IS the same query over the merged data (what the query returns after commit) for well-formed data; "
                 "the pending-side helper find_appropriate_item is checked BOUNDED (Kani, 3 states). get_user_data, the in-memory database and begin/rollback (state behind &self) are not decided.",
        "trusted": ["StorageManager is a model struct (same field names; Arc<Db> -> opaque handle with the Database methods as stubs); Transaction / TimedCache / Database methods external",
                    "Transaction::commit_transaction returns the log sorted by transaction_priority (closure/DashMap code outside the verifier)",
                    "that 'pending wins' as specified equals the post-commit read relies on the well-formedness of the data stated in the property (versions increase with epochs)"],
        "assumed": ["well-formed data as stated in the property (precondition wf_pair): per user versions increase with epochs, a rewritten (user, epoch) record keeps its version",
                    "Database::get_user_state_versions / Transaction::get_users_states answer per user what the single queries answer (stubs)",
                    "desugarings R-CONTINUE (continue elimination in batch_get's for loop) and R-COLLECT (iterator collect -> trusted set helpers) applied to batch_get; HashSet key model for St::StorageKey is a precondition"],
    },
    "C20": {
        "verus": [("manager", [SM + "tombstone_value_states", SM + "batch_set", SM + "tic_toc", SM + "increment_metric", SM + "is_transaction_active"]),
                  ("verify_history", ["verify_single_update_proof", "key_history_verify"]),
                  ("directory_lookup", ["Directory.create_single_update_proof", "Directory.key_history__tail", "Directory.derive_commitment_key", "lemma_min_max", "Azks.get_latest_epoch"])],
        "scope": "partial (frame + verifier opt-in + the server's answer does not depend on the stored value): the server assembles a history answer the same way whether or not a state's value was tombstoned - one update proof per "
                 "selected state (also under MostRecent), each with the commitment nonce of (commitment key, node label, version, STORED value) - an empty stored value gets the nonce of the empty value, which is what a label whose owner published the empty value needs - "
                 "(create_single_update_proof#E_update, key_history__tail#E_updates); every record set tombstone_value_states hands to a write path consists only of value-state records that re-key an existing "
                 "(label, epoch <= cut-off) state of that user with the same version, node label and username and an EMPTY value - no tree node, epoch record or other label is written; "
                 "on the verifier side the value check is skipped only in AllowMissingValues mode for an empty value and the leaf's membership is still required. "
                 "Histories with further publishes after tombstoning are not decided.",
        "trusted": ["epoch hashes and audit proofs are functions of tree-node and epoch records only (the async proof generators are not under contract)",
                    "StorageManager model struct as in C15; get_user_data outside a transaction returns the database's data (stub)"],
        "assumed": [],
    },
    "C11": {
        "verus": [("tree_node", [TN + "determine_node_to_get", TN + "get_appropriate_tree_node_from_storage", TN + "write_to_storage", "TreeNode.write_to_storage", "lemma_rot"]),
                  ("manager", [SM + "commit_transaction", SM + "write_committed_records", SM + "tic_toc", SM + "increment_metric", "DbRecord.transaction_priority"]),
                  "azks_insert", ("directory_lookup", ["Directory.get_lookup_info", "Directory.build_lookup_info", "get_marker_version", "Azks.get_latest_epoch", "Directory.key_history__head", "lemma_mask_is_filter", "Directory.poll_for_azks_changes"])],
        "search": True,
        "always_search": True,
        "bounded_search": [{"obligation": "replay/c11#reader_of_partial_commit",
                            "bound": "ONE crash point (every record of a commit written except the epoch record) of one three-epoch history in which one label was NOT updated in the previous epoch; fresh read-only instance with and without cache; "
                                     "both configurations: previous epoch and root hash reported, lookups / histories / the audit proof verify with the values of completed epochs only, the new epoch is served once the record is written"}],
        "scope": "partial, record level: TreeNode::write_to_storage writes exactly {label, latest: self, previous: as-of(stored, epoch-1) or None when new}, and concludes 'no previous version' only from a NotFound answer (any other read failure fails the write); the poller of a cached instance compares the storage's epoch with the epoch the instance SERVES (a read through the cache), so an instance whose cache was filled before the epoch record arrived does flush it (last sentence of the property); rotation lemma: that record still "
                 "serves the as-of-(E) node at E and serves the new node at E+1; readers select by target epoch; the batch a commit hands to the database is non-empty only with the epoch "
                 "record last (else Err before any database write); Azks has the lowest commit priority; write discipline of the recursive batch insertion "
                 "(recursive_batch_insert_nodes: sequential branch, spawned task body and join): a node is written as brand new - dropping the previous-epoch state - only if it was constructed "
                 "during this insertion (every write's is_new flag is the flag its subtree's insertion returned; the pushed-down existing node is written as existing); the lookup path filters value states by epoch <= the served epoch (get_lookup_info: LeqEpoch) and so does the history path (key_history head: the selection keeps only states not newer than the epoch record read, BEFORE the MostRecent cut). "
                 "The crash-point quantifier over sets of records is not decided.",
        "trusted": ["T6 sequential semantics of async fns", "StorageManager::get/set external", "derived Clone is structural (companion)",
                    "'constructed during this insertion' is a knowledge token handed out by new_interior_node / new_leaf_node only; that no stored record exists for such a label is the trie invariant, not proved",
                    "R-SPAWN / R-REC / R-SLICE1 applied to recursive_batch_insert_nodes; tokio task model as in C04; termination not proved"],
        "assumed": ["the node counter additions in recursive_batch_insert_nodes do not overflow (recursive results assumed <= 2^32: machine arithmetic treated as mathematical)"],
    },
    "C04": {
        "verus": [("tree_node", ["TreeNode.set_child", "lemma_sum"]), "azks_audit", "azks_walk", ("directory_lookup", ["Directory.audit", "Azks.get_latest_epoch"]),
                  ("directory_publish", ["Directory.publish__tail", "Directory.publish__after_commit", "Azks.get_latest_epoch"]), "auditor_complete", ("readonly_wrapper", ["ReadOnlyDirectory.audit"])],
        "search": True,
        "always_search": True,
        "bounded_search": [{"obligation": "replay/c04#all_ranges",
                            "bound": "one fixed 5-epoch history (new labels, updates, a no-op publish, a batch naming one label twice); every pair (s, e) with 0 <= s, e <= current + 1 after every publish; "
                                     "sequential and parallel insertion; both configurations; in-memory database - a cross-check of the whole statement for what lies between the verified units (trie insertion)"}],
        "scope": "the client-side audit_verify adds no rejection of its own: a proof whose list lengths agree and whose every step the step verifier accepts is ACCEPTED (unit auditor_complete; the step verifier's answer is a function of its arguments there, its soundness is C09); partial: the (epoch, hash) pairs publish announces: an epoch is announced only after an accepted commit, and the batch is written only once the epoch it was prepared for has been confirmed inside the transaction (so no epoch is issued twice - the audit chain would not match the announced pairs otherwise); Directory::audit refuses s >= e and e beyond the epoch of the one epoch record it read, and otherwise returns the proof of exactly (s, e) from that epoch record; batch_insert_nodes leaves the tree untouched for an empty batch (the recursive insertion and the root write are entered only with a non-empty set - "
                 "the auditor's start tree of an audit from epoch 0 depends on it) and advances the epoch by one; get_append_only_proof refuses every range with end <= start or end beyond the latest epoch, and for an accepted range returns exactly one proof per epoch "
                 "start..end (epochs list = start, start+1, .., end-1; |proofs| = |epochs|; proof i = the walk for (start+i, start+i+1) from the root as of the latest epoch); "
                 "the walk get_append_only_proof_helper itself (sequential branch, spawned task body and join, all under contract): what it returns equals walk_spec of the stored tree - a subtree not updated after s is reported by its root with the value its parent hashes (the tree root is not reported), "
                 "a subtree whose oldest descendant is younger than e is skipped, a leaf in between is reported as inserted with its stored value, otherwise both children are walked; "
                 "L-AUDIT (proved): on a stored tree whose epoch summaries bound its leaves, for EVERY s <= e the unchanged roots cover exactly the leaves born <= s and the inserted elements are exactly the leaves born in (s, e]; "
                 "update_hash stores, for every non-leaf node, the parent hash of exactly the (value, label) pairs node_to_azks_value / node_to_label report for its two children as read at its epoch, and changes nothing else; "
                 "new_leaf_node gives a leaf both epochs = birth epoch; set_child maintains (last_epoch, min_descendant_epoch) as max/min summaries of the descendants (with frame: nothing else changes; refusal exactly for a child that "
                 "does not extend the parent). Not decided: that re-inserting the reported elements into an empty tree reproduces the published root hashes (trie-insertion correctness of recursive_batch_insert_nodes), and the auditor's comparison itself (C09).",
        "trusted": ["NodeLabel::get_prefix_ordering as a function (its meaning is proved under C17)", "core::cmp::{max,min} assumed via cmp_spec",
                    "storage reads are a function of (database, key, reader epoch) during one proof generation (T6); a clone of the manager reads the same database",
                    "tokio task model: a joined value is the value of the spawned future (spawn/JoinHandle are external_body); R-SPAWN hoists the async block verbatim into an associated async fn with a declared capture list",
                    "R-REC: recursive calls of the walk use its own contract as induction hypothesis - partial correctness, termination not proved",
                    "preloading (preload_audit_nodes) only warms the cache and is external"],
        "assumed": ["the depth counter `level + 1` does not overflow (entry precondition level < u64::MAX; depth <= 256 because labels lengthen along a path - not proved)"],
    },
    "C07": {
        "verus": ["verify_history", ("verify_base", BASE_VERIFY_FNS), ("markers", ["get_marker_versions", "lemma_l1", "lemma_history_pins_latest", "lemma_next_is_future_marker", "find_max_index_in_skiplist", "get_bit_length", "get_marker_version_log2"])],
        "kani": ["c05", "c06"],
        "verus_thorough": ["node_label"],
        "search": True,
        "always_search": True,
        "scope": "verifier side: key_history_verify Ok ==> non-empty, consecutive decreasing versions, start/end/parameter rules, marker lists = get_marker_versions(start, end, epoch) "
                 "with matching proof counts, results = the proofs' own (epoch, version, value) in order, non-increasing epochs, every update accepted (fresh leaf with value/epoch "
                 "commitment; previous version's stale leaf stamped with THIS update's epoch), every past marker shown present and every future marker shown absent; "
                 "the value check is skipped only in AllowMissingValues mode for an empty value. Ground truth of the honest history is not decided.",
        "trusted": ["T4 ECVRF and configuration hashes as in C06", "get_marker_versions is a function of its arguments (determinism); what it contains is proved under C08",
                    "desugarings R-FMT, R-FOREACH, R-ENUM, R-UNDERSCORE applied to verify_with_history_params / key_history_verify (syntax only; listed in desugarings_applied)"],
        "assumed": [],
    },
    "C06": {
        "verus": ["verify_lookup", ("verify_base", BASE_VERIFY_FNS)],
        "kani": ["c05", "c06"],
        "search": True,
        "always_search": True,
        "verus_thorough": ["node_label", "markers"],
        "scope": "verifier control-flow soundness: lookup_verify Ok ==> version <= epoch, the result triple equals the proof's fields, and the three sub-proofs "
                 "were accepted for exactly (Fresh, v) with the value/epoch commitment, (Fresh, 2^floor(log2 v)) and (Stale, v) non-membership under the same key/root/label. "
                 "What the honest tree contains (the histories quantifier) is not decided.",
        "trusted": ["T4 ECVRF (ecvrf_impl.rs) as three opaque notions: parse, accept, truncated output; configuration hashes are uninterpreted in the Verus units - what their pre-images contain (parent hash: both children's values and labels; value commitment: length-framed value and nonce, server and client side) is checked on the compiled encoders by BOUNDED Kani harnesses (groups c05, c06), the hash function itself (blake3) is trusted",
                    "meaning step (VRF uniqueness + collision resistance => 'tree contains / does not contain') is the standard argument, not machine-checked"],
        "assumed": [],
    },
    "C05": {
        "verus": [("verify_base", ["verify_membership", "verify_nonmembership", "NodeLabel.value", "NodeLabel.root", "NodeLabel.new"]), "trie_lemmas", "azks_proofs",
                  ("node_label", ["get_bit_from_slice", "NodeLabel.get_bit_at", "NodeLabel.get_prefix", "NodeLabel.is_prefix_of", "NodeLabel.get_longest_common_prefix", "NodeLabel.get_prefix_ordering", "Configuration for WhatsAppV1Configuration.empty_label", "Configuration for ExperimentalConfiguration.empty_label"])],
        "kani": ["c05"],
        "verus_thorough": ["node_label"],
        "search": True,
        "always_search": True,
        "bounded_search": [{"obligation": "azks_proofs/assumed_tree_invariants#consistent_and_shaped",
                            "bound": "the two invariants unit azks_proofs ASSUMES of the stored tree (trie shape, hash consistency) are CHECKED on real executions only: 2 (thorough: 6) seeded random histories of 8 (14) publishes over 9 labels x "
                                     "{sequential, parallel insertion} x both configurations, the whole stored tree read back after every publish"},
                           {"obligation": "replay/c05#anchors",
                            "bound": "small leaf sets over 16-bit label prefixes: every member and every 1-bit neighbour queried, every ancestor tried as anchor, server proofs verified (both configurations)"}],
        "scope": "server side, COMPLETENESS of honest proofs (unit azks_proofs): on a hash-consistent stored tree (every non-leaf node stores the parent hash of its children as read - what update_hash establishes) the proof walk get_lcp_node_label_with_membership_proof returns a membership proof that folds, by the verifier's own bottom-up fold, to the stored root value, for every label asked; get_membership_proof and the anchor proof of get_non_membership_proof inherit it; on a tree that also has the trie shape (canonical labels, a child extends its parent with its direction bit, leaves are the 256-bit nodes, only the root may lack a child - assumed like consistency; both assumptions are checked on real executions by a BOUNDED search only) the walk stops at the DEEPEST stored node whose label is a prefix of the 256-bit label asked for, and for a label that is not in the tree get_non_membership_proof returns a proof of the shape verify_nonmembership demands: anchor a prefix of the label, neither reported child a prefix of it, the membership proof for that very node with hash value = parent hash of the two reported children, the label differs from both reported child labels, and whatever get_longest_common_prefix may answer for the two reported child labels is, after the verifier's empty-label -> root normalisation, the anchor (partial correctness; not decided: termination). Verifier side of completeness: verify_nonmembership ACCEPTS every proof with that structure whose anchor proof folds to the root (E_complete) - so, on a consistent and shaped tree, the server's own non-membership proofs verify. Verifier side: verify_membership accepts exactly when the bottom-up Merkle fold of the proof ends at the root label and hashes to the root; verify_nonmembership "
                 "accepts only proofs anchored at the deepest matching node (anchor is a prefix of the label, is the lcp of its two children, no child is a "
                 "prefix of the label, children hash to the anchor, anchor is a member). Meaning (unit trie_lemmas, spec level): for every well-formed full binary compressed trie T, under "
                 "injective parent / label hashes and leaf-interior domain separation (hypotheses, not axioms), mem_ok against T's hash proves a node of T with that label and hash, and "
                 "the verifier's non-membership facts prove that the queried label is NOT a leaf of T (also for an anchor at the root).",
        "trusted": ["T4 configuration hashes are deterministic functions of their byte inputs (uninterpreted); collision resistance enters only as explicit hypotheses of the meaning lemmas, not the contracts",
                    "the meaning lemmas model tries in which every interior node has two children (a root with a single child - all leaves sharing the first bit - is not modelled); (since the repair of D15 the label of a proof WITHOUT sibling proofs is bound too: mem_ok demands the fold to end at the root label, and lemma_membership_sound_at_root gives the node of T with the proof's label for every k >= 0)",
                    "the label operations both sides rely on (get_bit_at, get_prefix, is_prefix_of, get_longest_common_prefix, get_prefix_ordering, empty_label) are proved equal to their bit-string meaning in unit node_label, which this check runs too"],
        "assumed": [],
    },
    "C17": {
        "verus": ["node_label"],
        "kani": ["c17"],
        "search": True,
        "always_search": True,
        "bounded_search": [{"obligation": "node_label/AzksElementSet#set_ops",
                            "bound": "all multisets of <= 3 canonical labels of one length L <= 3 bits (thorough: 4) x every common prefix x both configurations: "
                                     "partition / get_longest_common_prefix / contains_prefix of the binary-searchable path == the unsorted path == the bit-string meaning"}],
        "scope": "first sentence: every NodeLabel operation (bit access, prefix test, longest common prefix, prefix extraction, child direction, ordering) "
                 "equals its bit-string meaning for all labels of 0..256 bits; second sentence (set operations): BOUNDED stand-in (exhaustive enumeration on the real AzksElementSet code), see bounded",
        "trusted": ["TC::empty_label() is deterministic (a pure function without inputs); its two implementations are verified to return length 0"],
        "assumed": [],
    },
    "C08": {
        "verus": ["markers", ("verify_history", ["verify_with_history_params", "key_history_verify", "verify_single_update_proof", "lemma_l2", "lemma_consecutive"]),
                  ("verify_lookup", ["lookup_verify"]), ("verify_base", BASE_VERIFY_FNS)],
        "search": True,
        "always_search": True,
        "scope": "get_marker_versions contains the closed-form marker sets for all u64 (s, e, E); lemma L1 (history vs history) for all n < m <= E and all ranges; "
                 "server/verifier marker-exponent agreement; L2: an accepted complete history for n shows the stale leaf of every m < n present (the leaf an accepted lookup for m shows absent), "
                 "over the verifier contracts of key_history_verify / lookup_verify (an accepted lookup is for a version <= the epoch it is verified at) and of the base verifiers they rest on ('shown present' = the fold reaches the root, 'shown absent' = anchored at the deepest prefix whose two reported children hash to the anchor). lookup(m > n) vs complete history(n) is a known finding (not a theorem).",
        "trusted": ["T4 Merkle soundness turns 'shown present' and 'shown absent' for one (label, freshness, version) under one root into a contradiction (C05 + collision resistance)"],
        "assumed": [],
    },
}
