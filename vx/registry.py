"""Which units / harness groups / searches decide which property."""

TRUSTED_BASE = [
    "T1 Verus 0.2026.09.13 + Z3 (and Kani 0.68 + CBMC 6.11 where a Kani obligation is listed)",
    "T2 the extractor vx: item location, normalisations N1-N5 and the listed desugarings (per-item SHA-256 in functions_under_contract)",
    "T3 vstd specifications of core/alloc items and the assumed std specifications listed under assumptions",
    "T5 machine arithmetic is NOT treated as mathematical: Verus checks overflow on every executable operation",
]

PROPS = {
    "C17": {
        "verus": ["node_label"],
        "kani": ["c17"],
        "search": True,
        "scope": "first sentence: every NodeLabel operation (bit access, prefix test, longest common prefix, prefix extraction, child direction, ordering) "
                 "equals its bit-string meaning for all labels of 0..256 bits; second sentence (set operations): bounded Kani stand-in, see bounded",
        "trusted": ["TC::empty_label() is deterministic (a pure function without inputs); its two implementations are verified to return length 0"],
        "assumed": [],
    },
    "C08": {
        "verus": ["markers"],
        "search": True,
        "always_search": True,
        "scope": "get_marker_versions contains the closed-form marker sets for all u64 (s, e, E); lemma L1 (history vs history) for all n < m <= E and all ranges; "
                 "server/verifier marker-exponent agreement. lookup(m > n) vs complete history(n) is a known finding (not a theorem).",
        "trusted": ["T4 Merkle soundness turns 'shown present' and 'shown absent' for one (label, freshness, version) under one root into a contradiction (C05 + collision resistance)"],
        "assumed": [],
    },
}
