"""Per-property driver: run the units of a property, classify, search for failing inputs, write evidence."""
import concurrent.futures as cf
import json
import os
import subprocess
import sys
import time

from . import verus, registry, overlay, kani
from .unit import ROOT, REPO

# runs against a scratch copy (VX_REPO set for mutation testing) must not overwrite the real evidence
EVID = os.path.join(ROOT, "evidence") if (os.path.realpath(REPO) == "/repo" and not os.environ.get("VX_SCRATCH_EVIDENCE")) \
    else os.path.join(ROOT, "build", "evidence-scratch")
VERSION_NOTE = "Verus 0.2026.09.13 (Z3), Kani 0.68 (CBMC 6.11)"


def load_json(path, default):
    try:
        with open(path) as f:
            return json.load(f)
    except FileNotFoundError:
        return default


def run_property(pid, tier="quick", seed=0, update=False):
    t0 = time.time()
    spec = registry.PROPS[pid]
    fn_filter = {}
    units = []
    for ent in list(spec.get("verus", [])) + (list(spec.get("verus_thorough", [])) if tier == "thorough" else []):
        if isinstance(ent, (tuple, list)):
            u, fns = ent
            fn_filter[u] = set(fns)
        else:
            u = ent
        if u not in units:
            units.append(u)
    results = {}
    with cf.ThreadPoolExecutor(max_workers=8) as ex:
        futs = {ex.submit(verus.verify_unit, u, True, None, seed): u for u in units}
        # Kani harness groups run concurrently with Verus
        kfut = None
        kgroups = list(spec.get("kani", []))
        if tier == "thorough":
            kgroups += spec.get("kani_thorough", [])
        if kgroups:
            kfut = ex.submit(kani.run_groups, kgroups, tier)
        for f in cf.as_completed(futs):
            results[futs[f]] = f.result()
        kres = kfut.result() if kfut else []

    committed_obl = load_json(os.path.join(ROOT, "contracts", "OBLIGATIONS.json"), {})
    committed_asm = load_json(os.path.join(ROOT, "contracts", "ASSUMPTIONS.json"), {})

    undecided = []      # reasons -> exit 2
    alarm_failed = []   # (obligation, messages)
    support_failed = []
    scaffold = []
    obligations = []
    discharged = []
    backends = {}
    functions = []
    assumptions = []
    cfg_res = []
    desug = {}
    vac = {}
    samples = []
    cmds = []
    for u in units:
        r = results[u]
        cmds.append(r.cmd)
        if r.status == "undecided":
            undecided.append("%s: %s" % (u, r.reason))
            continue
        all_names = [o.name for o in r.obligations]
        any_failure = bool(r.failed or r.scaffold_failures)
        if u in fn_filter:
            # only the functions this property depends on (the unit's other functions belong to other properties)
            keep = fn_filter[u]
            r.obligations = [o for o in r.obligations if o.fn in keep]
            r.failed = {k: v for k, v in r.failed.items() if k in set(o.name for o in r.obligations)}
            r.scaffold_failures = [sf for sf in r.scaffold_failures if any((":%s:" % f) in sf or ("fn %s" % f.split(".")[-1]) in sf for f in keep)]
            r.items = [i for i in r.items if i["path"].replace("::", ".") in keep or i["path"].split("::")[-1] in keep or i["kind"] not in ("fn", "impl_fn")]
        names = all_names
        if update:
            committed_obl[u] = sorted(names)
            committed_asm[u] = sorted(set("%s|%s" % (a["kind"], a["item"]) for a in r.assumptions))
        missing = [n for n in committed_obl.get(u, []) if n not in names]
        if missing:
            undecided.append("%s: obligations listed in OBLIGATIONS.json were not generated: %s" % (u, ", ".join(missing[:5])))
        if u not in committed_obl:
            undecided.append("%s: unit has no entry in OBLIGATIONS.json" % u)
        asm_now = set("%s|%s" % (a["kind"], a["item"]) for a in r.assumptions)
        extra_asm = asm_now - set(committed_asm.get(u, []))
        if extra_asm:
            undecided.append("%s: assumptions not in the allow-list: %s" % (u, ", ".join(sorted(extra_asm)[:5])))
        failed_fns = set()
        for o in r.obligations:
            obligations.append(o)
        for o in r.obligations:
            if o.name in r.failed:
                if pid in o.alarm:
                    alarm_failed.append((o, r.failed[o.name]))
                else:
                    support_failed.append((o, r.failed[o.name]))
        # an obligation counts as discharged when Verus verified its function and no diagnostic refutes it
        bad_fns = set()
        for fn, t in r.times.items():
            if t.get("success") is False:
                bad_fns.add(fn.split("::")[-1])
        for o in r.obligations:
            fn_short = o.fn.split(".")[-1]
            if o.name in r.failed or fn_short in bad_fns:
                continue
            if r.status in ("verified", "failed"):
                discharged.append(o)
                t = r.times.get(fn_short) or next((v for k, v in r.times.items() if k.split("::")[-1] == fn_short), None)
                backends[o.name] = {"backend": "verus/z3", "fn_smt_ms": t.get("smt_ms") if t else None}
        for s in r.scaffold_failures:
            scaffold.append("%s: %s" % (u, s))
        if r.status == "failed" and not any_failure:
            undecided.append("%s: verification failed without a mappable diagnostic: %s" % (u, r.reason))
        if r.status == "verified":
            if r.twin_ok is False:
                undecided.append("%s: reachability twin: %s" % (u, r.twin_note))
            vac[u] = r.twin_note
        functions += r.items
        assumptions += ["%s: %s %s (%s)" % (u, a["kind"], a["item"], a["origin"]) for a in r.assumptions]
        cfg_res += r.cfg_log
        for k, v in r.desugar_counts.items():
            desug[k] = desug.get(k, 0) + v

    # Kani results
    bounded = []
    for k in kres:
        cmds.append(k["cmd"])
        if k["status"] == "undecided":
            undecided.append("kani %s: %s" % (k["harness"], k["reason"]))
            continue
        o = verus.Unit  # placeholder to keep flake quiet
        ob = type("O", (), {})()
        ob.name = "kani/%s" % k["harness"]
        ob.kind = "KB" if k.get("bounded") else "K"
        ob.fn = k.get("fn", k["harness"])
        ob.alarm = k.get("alarm", [])
        ob.text = k.get("text", "")
        if k.get("bounded"):
            bounded.append({"obligation": ob.name, "bound": k["bounded"], "status": k["status"], "time_s": k.get("time_s")})
            if k["status"] == "failed":
                (alarm_failed if pid in ob.alarm else support_failed).append((ob, [k.get("reason", "")]))
            continue
        obligations.append(ob)
        if k["status"] == "success":
            discharged.append(ob)
            backends[ob.name] = {"backend": "kani/cbmc", "time_s": k.get("time_s")}
        else:
            (alarm_failed if pid in ob.alarm else support_failed).append((ob, [k.get("reason", "")]))

    for bn in spec.get("bounded_search", []):
        if True:
            bounded.append({"obligation": bn["obligation"], "bound": bn["bound"], "backend": "exhaustive enumeration on the real code (replay crate)",
                            "status": "pending"})
    if update:
        with open(os.path.join(ROOT, "contracts", "OBLIGATIONS.json"), "w") as f:
            json.dump(committed_obl, f, indent=1, sort_keys=True)
        with open(os.path.join(ROOT, "contracts", "ASSUMPTIONS.json"), "w") as f:
            json.dump(committed_asm, f, indent=1, sort_keys=True)

    # ------------------------------------------------------------------ violation pipeline (DESIGN 3.4)
    out_lines = []
    violations = []
    known = load_json(os.path.join(ROOT, "known_findings.json"), {"findings": []})
    exit_code = 0
    search_result = None
    # an undecided unit (lost anchor, unsupported construct after an edit) is also a reason to look for a failing input on the real code
    need_search = bool(alarm_failed or scaffold or support_failed or undecided)
    always = spec.get("always_search", False) or tier == "thorough"
    if (need_search or always) and spec.get("search"):
        search_result = overlay.run_search(spec.get("search_pid", pid), seed, tier, full=need_search)
        if search_result.get("error"):
            undecided.append("replay search: " + search_result["error"])
    found = (search_result or {}).get("failures", [])
    kf_lines = []
    # known findings: witness must still fail on the real code
    for kf in known.get("findings", []):
        if kf.get("property") != pid or kf.get("status") != "known":
            continue
        w = overlay.run_finding(kf["id"])
        if w.get("reproduces"):
            kf_lines.append("KNOWN-FINDING: property=%s %s" % (pid, kf["what"]))
        elif w.get("error"):
            undecided.append("known finding %s could not be replayed: %s" % (kf["id"], w["error"]))
    known_ids = set(kf["id"] for kf in known.get("findings", []) if kf.get("property") == pid and kf.get("status") == "known")
    new_found = [f for f in found if f.get("finding_id") not in known_ids]
    os.makedirs(os.path.join(EVID, "replay"), exist_ok=True)
    if new_found:
        f0 = new_found[0]
        clause = f0.get("clause", "unknown")
        rp = os.path.join(EVID, "replay", "%s-%s.json" % (pid, clause.replace("/", "_").replace("#", "-")))
        with open(rp, "w") as f:
            json.dump({"property": pid, "obligation": clause, "kind": "failing-input", "input": f0.get("input"),
                       "expected": f0.get("expected"), "observed": f0.get("observed"), "replay_case": f0.get("case"),
                       "verifier_output": [m for (_, ms) in alarm_failed + support_failed for m in ms][:10] + scaffold[:10],
                       "other_failing_inputs": new_found[1:10]}, f, indent=1)
        violations.append(rp)
        out_lines.append("VIOLATION property=%s replay=%s" % (pid, rp))
        exit_code = 1
    elif alarm_failed:
        o, ms = alarm_failed[0]
        rp = os.path.join(EVID, "replay", "%s-%s.json" % (pid, o.name.replace("/", "_").replace("#", "-")))
        with open(rp, "w") as f:
            json.dump({"property": pid, "obligation": o.name, "kind": "failed-obligation", "clause": o.text,
                       "failed_obligations": [{"name": x.name, "clause": x.text, "messages": m} for (x, m) in alarm_failed],
                       "verifier_output": [m for (_, ms2) in alarm_failed for m in ms2] + scaffold[:10],
                       "search": (search_result or {}).get("summary", "no executable search registered for this clause"),
                       "input": None}, f, indent=1)
        violations.append(rp)
        out_lines.append("VIOLATION property=%s replay=%s no-failing-input-found" % (pid, rp))
        exit_code = 1
    elif scaffold or support_failed:
        undecided.append("proof script no longer matches the code; no alarm-raising clause refuted and no failing input found: "
                         + "; ".join([s.split("\n")[0] + " " + (s.split("\n")[1].strip() if "\n" in s else "") for s in scaffold[:3]]
                                     + [o.name for (o, _) in support_failed[:3]]))
    for b in bounded:
        if b.get("status") == "pending":
            fails = [f for f in found if f.get("clause") == b["obligation"]]
            b["status"] = ("failed" if fails else "success") if search_result and not search_result.get("error") else "not run"
            b["evaluations"] = (search_result or {}).get("evaluations")
    if exit_code == 0 and undecided:
        exit_code = 2
    out_lines = kf_lines + out_lines

    # ------------------------------------------------------------------ evidence
    n_obl = len(obligations)
    n_dis = len(discharged)
    ev = {
        "property_id": pid,
        "tier": tier,
        "seed": seed,
        "level": "proof",
        "coverage": {
            "obligations": n_obl,
            "discharged": n_dis,
            "checker_cmd": " && ".join(c for c in cmds if c) or "none",
            "trusted_base": registry.TRUSTED_BASE + spec.get("trusted", []),
            "samples": [{"obligation": o.name, "kind": o.kind, "alarm": o.alarm, "clause": o.text[:300]}
                        for o in (sorted(obligations, key=lambda o: (pid not in o.alarm, o.kind not in ("E", "I", "K", "KB", "L")))[:14])],
            "obligation_names": [o.name for o in obligations],
            "functions_under_contract": functions,
            "backends": backends,
            "bounded": bounded,
            "desugarings_applied": desug,
            "cfg_resolution": cfg_res,
            "vacuity": vac,
            "undecided": undecided,
            "failed": [{"obligation": o.name, "messages": m} for (o, m) in alarm_failed + support_failed],
            "scaffold_failures": scaffold[:20],
            "search": search_result,
            "known_findings": kf_lines,
            "scope": spec.get("scope", ""),
        },
        "assumptions": sorted(set(assumptions)) + spec.get("assumed", []),
        "wall_s": round(time.time() - t0, 2),
        "violations": len(violations),
    }
    os.makedirs(EVID, exist_ok=True)
    with open(os.path.join(EVID, "%s.json" % pid), "w") as f:
        json.dump(ev, f, indent=1)
    return exit_code, out_lines, undecided, ev


def main(argv):
    import argparse
    ap = argparse.ArgumentParser()
    ap.add_argument("property")
    ap.add_argument("--tier", default=os.environ.get("VERIF_TIER", "quick"))
    ap.add_argument("--replay")
    ap.add_argument("--update-lists", action="store_true", help="(maintainer) rewrite OBLIGATIONS.json / ASSUMPTIONS.json entries")
    a = ap.parse_args(argv)
    seed = int(os.environ.get("VERIF_SEED", "0") or 0)
    if a.property not in registry.PROPS:
        print("unknown or unclaimed property %s" % a.property)
        return 2
    if a.replay:
        return overlay.replay_file(a.property, a.replay)
    tier = a.tier if a.tier in ("quick", "thorough") else "quick"
    code, lines, undecided, ev = run_property(a.property, tier, seed, a.update_lists)
    for l in lines:
        print(l)
    c = ev["coverage"]
    print("%s tier=%s obligations=%d discharged=%d bounded=%d wall=%.1fs" % (
        a.property, tier, c["obligations"], c["discharged"], len(c["bounded"]), ev["wall_s"]))
    for u in undecided:
        print("UNDECIDED: " + u)
    return code
