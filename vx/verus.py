"""Run Verus on a generated unit and map its diagnostics back to obligations."""
import json
import os
import re
import subprocess
import time

from .unit import Unit, ROOT, REPO
from .splice import SpliceError
from .extract import LostAnchor
from .rustscan import ScanError

BUILD = os.path.join(ROOT, "build")
VERUS = os.environ.get("VX_VERUS", "verus")

UNDECIDED_PATTERNS = [
    r"[Rr]esource limit", r"rlimit", r"not supported", r"unsupported", r"The verifier does not yet support",
    r"cannot find", r"mismatched types", r"unresolved", r"expected .* found", r"no method named",
    r"failed to resolve", r"timed out", r"solver .* unknown", r"is not yet supported",
]


class UnitResult:
    def __init__(self, unit):
        self.unit = unit
        self.status = None          # "verified" | "failed" | "undecided"
        self.reason = ""
        self.failed = {}            # obligation name -> list of messages
        self.scaffold_failures = [] # messages not mapped to a named clause
        self.times = {}             # fn -> {time_ms, rlimit, success}
        self.verified_count = 0
        self.error_count = 0
        self.wall_s = 0.0
        self.cmd = ""
        self.raw_errors = []
        self.twin_ok = None
        self.twin_note = ""
        self.gen_path = ""
        self.assumptions = []


def run_verus(path, extra=None, timeout=900, multiple_errors=20):
    cmd = [VERUS, path, "--output-json", "--time", "--error-format=json", "--multiple-errors", str(multiple_errors)] + (extra or [])
    t0 = time.time()
    try:
        p = subprocess.run(cmd, capture_output=True, text=True, timeout=timeout, cwd=os.path.dirname(path))
        out, err, rc = p.stdout, p.stderr, p.returncode
    except subprocess.TimeoutExpired as e:
        return cmd, None, [], -9, time.time() - t0
    wall = time.time() - t0
    try:
        js = json.loads(out[out.index("{"):]) if "{" in out else None
    except Exception:
        js = None
    diags = []
    for l in err.splitlines():
        l = l.strip()
        if l.startswith("{"):
            try:
                diags.append(json.loads(l))
            except Exception:
                pass
        elif l:
            diags.append({"level": "raw", "message": l, "spans": [], "children": []})
    return cmd, js, diags, rc, wall


def scan_assumptions(gen):
    """Mechanical scan of the generated file for everything that is assumed rather than proved:
    assume(..), admit(), external_body items, assume_specification, external type/trait specifications, uninterpreted spec functions."""
    found = []
    pat = re.compile(r"\b(assume\s*\(|admit\s*\(|external_body|assume_specification|external_fn_specification|"
                     r"verifier::external\b|verifier::external_type_specification|verifier::external_trait_specification|"
                     r"uninterp\s+spec\s+fn)")
    n = len(gen.lines)
    for k, ln in enumerate(gen.lines):
        code = re.sub(r"//.*", "", ln)
        mt = pat.search(code)
        if not mt:
            continue
        if "contract proved by" in ln:
            continue  # stub whose contract is discharged by another unit / a Kani harness (listed with the item)
        kind = mt.group(1).strip(" (")
        kind = re.sub(r"\s+", " ", kind)
        ctx = ""
        if kind == "assume_specification":
            # the bracketed path, with nested brackets
            i = code.find("[", mt.end())
            depth, j = 0, i
            while j >= 0 and j < len(code):
                if code[j] == "[":
                    depth += 1
                elif code[j] == "]":
                    depth -= 1
                    if depth == 0:
                        break
                j += 1
            ctx = code[i + 1:j].strip() if i >= 0 else ""
        elif kind == "uninterp spec fn":
            m2 = re.search(r"uninterp\s+spec\s+fn\s+(\w+)", code)
            ctx = m2.group(1) if m2 else ""
        else:
            for j in range(k, min(k + 6, n)):
                m2 = re.search(r"\b(?:proof\s+|exec\s+|async\s+)*(fn|struct|enum|trait|const)\s+([A-Za-z_]\w*)", re.sub(r"//.*", "", gen.lines[j]))
                if m2:
                    ctx = m2.group(1) + " " + m2.group(2)
                    break
        found.append({"kind": kind, "item": ctx, "origin": _tag_str(gen.tags[k])})
    return found


def _tag_str(tag):
    return ":".join(str(x) for x in tag)


def classify_diag(d):
    msg = d.get("message", "")
    for p in UNDECIDED_PATTERNS:
        if re.search(p, msg):
            return "undecided"
    return "proof"


def verify_unit(name, twin=True, rlimit=None, seed=None, keep=True):
    """Assemble + verify one unit (and its reachability twin). Returns UnitResult."""
    res = UnitResult(name)
    os.makedirs(BUILD, exist_ok=True)
    try:
        u = Unit(name)
        gen = u.assemble(twin=False)
    except (SpliceError, LostAnchor, ScanError, FileNotFoundError, KeyError) as e:
        res.status = "undecided"
        res.reason = "%s: %s" % (type(e).__name__, e)
        res.unit_obj = None
        return res
    res.unit_obj = u
    obligations = list(u.obligations)
    res.obligations = obligations
    res.items = list(u.items)
    res.cfg_log = list(u.cfg_log)
    res.desugar_counts = dict(u.desugar_counts)
    path = os.path.join(BUILD, "vx_%s.rs" % name)
    with open(path, "w") as f:
        f.write(gen.text())
    res.gen_path = path
    res.assumptions = scan_assumptions(gen)
    twin_box = {}
    twin_thread = None
    if twin:
        import threading

        def _twin():
            try:
                u2 = Unit(name)
                g2 = u2.assemble(twin=True)
                p2 = os.path.join(BUILD, "vx_%s_twin.rs" % name)
                with open(p2, "w") as f:
                    f.write(g2.text())
                twin_box["run"] = run_verus(p2, multiple_errors=0)
                twin_box["twins"] = list(u2.twins)
            except (SpliceError, LostAnchor, ScanError) as e:
                twin_box["error"] = str(e)
        twin_thread = threading.Thread(target=_twin)
        twin_thread.start()
    extra = []
    if rlimit:
        extra += ["--rlimit", str(rlimit)]
    if seed is not None:
        extra += ["--smt-option", "smt.random_seed=%d" % (seed % 1000)]
    cmd, js, diags, rc, wall = run_verus(path, extra)
    res.cmd = " ".join(cmd)
    res.wall_s = wall
    if js is None:
        res.status = "undecided"
        res.reason = "verus produced no JSON result (rc=%s): %s" % (rc, "; ".join(
            d.get("message", "")[:200] for d in diags if d.get("level") in ("error", "raw"))[:1500])
        res.raw_errors = [d.get("message", "") for d in diags if d.get("level") in ("error", "raw")]
        return res
    vr = js.get("verification-results", {})
    res.verified_count = vr.get("verified", 0)
    res.error_count = vr.get("errors", 0)
    for mod in js.get("times-ms", {}).get("smt", {}).get("smt-run-module-times", []):
        for fb in mod.get("function-breakdown", []):
            res.times[fb["function"].split("::", 1)[-1]] = {
                "mode": fb.get("mode:", fb.get("mode")), "smt_ms": fb.get("time"), "rlimit": fb.get("rlimit"),
                "success": fb.get("success")}
    errors = [d for d in diags if d.get("level") == "error" and not d.get("message", "").startswith("aborting due to")]
    if vr.get("encountered-vir-error") or (vr.get("encountered-error") and res.error_count == 0):
        res.status = "undecided"
        res.reason = "front-end error: " + "; ".join(e.get("message", "")[:300] for e in errors)[:1500]
        res.raw_errors = [_render(e, gen) for e in errors]
        return res
    if vr.get("success") and not errors:
        res.status = "verified"
    else:
        undec = False
        for e in errors:
            res.raw_errors.append(_render(e, gen))
            kind = classify_diag(e)
            if kind == "undecided":
                undec = True
                res.reason += e.get("message", "")[:300] + "; "
                continue
            hit = _map_error(e, gen, u)
            if hit:
                for (oname) in hit:
                    res.failed.setdefault(oname, []).append(e.get("message", ""))
            else:
                res.scaffold_failures.append(_render(e, gen))
        if undec and not res.failed and not res.scaffold_failures:
            res.status = "undecided"
        else:
            res.status = "failed"
    # reachability twin (ran concurrently)
    if twin_thread is not None:
        twin_thread.join()
    if twin and res.status == "verified":
        if "error" in twin_box:
            res.twin_ok = False
            res.twin_note = "twin assembly failed: %s" % twin_box["error"]
        else:
            cmd2, js2, diags2, rc2, wall2 = twin_box["run"]
            twins = twin_box["twins"]
            if js2 is None:
                res.twin_ok = False
                res.twin_note = "twin run produced no result"
            else:
                status = {}
                for mod in js2.get("times-ms", {}).get("smt", {}).get("smt-run-module-times", []):
                    for fb in mod.get("function-breakdown", []):
                        fn = fb["function"].split("::")[-1]
                        if fn.endswith("__twin"):
                            status[fn] = fb.get("success")
                # a twin that succeeds proved `false`: vacuous precondition or inconsistent assumption
                missing = [t for t in twins if status.get(t) is not False]
                res.twin_ok = len(missing) == 0
                res.twin_note = ("%d twins, none can prove `false`" % len(twins)) if res.twin_ok else \
                    "VACUOUS or not run: twins not refuted: %s" % ", ".join(missing)
                res.twins = twins
    return res


def _enclosing_fn(gen, line):
    for k in range(min(line, len(gen.lines)) - 1, -1, -1):
        mt = re.match(r"\s*(?:pub(?:\([a-z]+\))?\s+)?(?:async\s+)?(?:proof\s+|exec\s+)?fn\s+(\w+)", gen.lines[k])
        if mt:
            return mt.group(1)
    return None


def _spans(e):
    sp = list(e.get("spans", []))
    for c in e.get("children", []):
        sp += c.get("spans", [])
    return sp


def _render(e, gen):
    parts = [e.get("message", "")]
    for s in _spans(e):
        ln = s.get("line_start", 0)
        tag = gen.tags[ln - 1] if 0 < ln <= len(gen.tags) else ("?",)
        src = gen.lines[ln - 1].strip() if 0 < ln <= len(gen.lines) else ""
        parts.append("  at gen:%d [%s] %s%s" % (ln, _tag_str(tag), ("(" + s["label"] + ") ") if s.get("label") else "", src[:160]))
    return "\n".join(parts)


def _map_error(e, gen, u):
    """Obligation names this diagnostic refutes (possibly several), or [] if it only touches scaffolding."""
    hits = []
    msg = e.get("message", "")
    spans = _spans(e)
    clause_tags = []
    fn_of_primary = None
    for s in spans:
        ln = s.get("line_start", 0)
        if not (0 < ln <= len(gen.tags)):
            continue
        tag = gen.tags[ln - 1]
        if tag[0] == "clause":
            clause_tags.append(tag)
        if s.get("is_primary"):
            fn_of_primary = _enclosing_fn(gen, ln)
            ptag = tag
    names = {o.name: o for o in u.obligations}
    for tag in clause_tags:
        (_, fn_id, kind, cid) = tag
        if kind == "R":
            # a callee's precondition failed at a call site: this is the caller's P obligation (body)
            continue
        oname = "%s/%s#%s" % (u.name, fn_id, cid)
        if oname in names:
            hits.append(oname)
    if hits:
        return hits
    # precondition failures, lemma bodies, safety: attribute to the enclosing function's body / lemma obligation
    if fn_of_primary:
        for o in u.obligations:
            if o.kind == "L" and o.fn == fn_of_primary:
                return [o.name]
        # a failure in the body that is not inside a spliced proof block is a body obligation (safety / P)
        if ptag[0] in ("src", "src~") or re.search(r"precondition not satisfied", msg):
            for o in u.obligations:
                if o.kind == "B" and o.fn.split(".")[-1] == fn_of_primary:
                    return [o.name]
    return []
