use vstd::prelude::*;
verus! {
pub open spec fn foldr(s: Seq<u64>, k: int, acc: u64) -> u64
    decreases k
{
    if k <= 0 { acc } else { foldr(s, k - 1, acc) ^ s[s.len() - k] }
}
fn f(v: &Vec<u64>, init: u64) -> (r: u64)
    ensures r == foldr(v@, v@.len() as int, init)
{
    let mut acc: u64 = init;
    for x in it: v.iter().rev()
        invariant
            it.history@.len() == it.index@,
            it.index@ <= v@.len(),
            forall|j: int| 0 <= j < it.index@ ==> *it.history@[j] == v@[v@.len() - 1 - j],
            acc == foldr(v@, it.index@ as int, init),
    {
        acc = acc ^ *x;
    }
    acc
}
}
fn main() {}
