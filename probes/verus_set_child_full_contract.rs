use vstd::prelude::*;
use vstd::std_specs::cmp::*;
use std::cmp::{max, min};
verus! {

#[derive(Debug, Clone, Copy, PartialEq, Eq)]
pub struct NodeLabel { pub label_val: [u8; 32], pub label_len: u32 }
#[derive(Debug, Clone, Copy, Eq, PartialEq)]
pub enum PrefixOrdering { WithZero = 0, WithOne = 1, Invalid = 255 }
#[derive(Debug, Clone, Copy, Eq, PartialEq)]
pub enum Direction { Left = 0, Right = 1 }
pub assume_specification<T: core::cmp::Ord>[ core::cmp::max::<T> ](a: T, b: T) -> (r: T)
    ensures T::obeys_cmp_spec() ==> r == (if b.cmp_spec(&a) == core::cmp::Ordering::Less { a } else { b });
pub assume_specification<T: core::cmp::Ord>[ core::cmp::min::<T> ](a: T, b: T) -> (r: T)
    ensures T::obeys_cmp_spec() ==> r == (if b.cmp_spec(&a) == core::cmp::Ordering::Less { b } else { a });
pub uninterp spec fn ordering(p: NodeLabel, c: NodeLabel) -> PrefixOrdering;
pub open spec fn umax(a: u64, b: u64) -> u64 { if a >= b { a } else { b } }
pub open spec fn umin(a: u64, b: u64) -> u64 { if a <= b { a } else { b } }
pub enum TreeNodeError { NoDirection(NodeLabel, Option<Direction>) }

impl NodeLabel {
    #[verifier::external_body]
    pub fn get_prefix_ordering(&self, other: Self) -> (r: PrefixOrdering) ensures r == ordering(*self, other) { unimplemented!() }
}

pub struct TreeNode {
    pub label: NodeLabel,
    pub last_epoch: u64,
    pub min_descendant_epoch: u64,
    pub parent: NodeLabel,
    pub left_child: Option<NodeLabel>,
    pub right_child: Option<NodeLabel>,
}

impl TreeNode {
    pub(crate) fn set_child(&mut self, child_node: &mut TreeNode) -> (r: Result<(), TreeNodeError>)
        ensures
            // E_err: refused exactly when the child does not properly extend the parent, and then nothing changed
            r is Err <==> ordering(old(self).label, old(child_node).label) is Invalid,
            r is Err ==> *final(self) == *old(self) && *final(child_node) == *old(child_node),
            // E_child: only the parent pointer of the child changes
            r is Ok ==> *final(child_node) == (TreeNode { parent: old(self).label, ..*old(child_node) }),
            // E_parent: pointer on the side of the ordering, epoch summaries, everything else untouched (frame)
            r is Ok ==> *final(self) == (TreeNode {
                left_child: if ordering(old(self).label, old(child_node).label) is WithZero { Some(old(child_node).label) } else { old(self).left_child },
                right_child: if ordering(old(self).label, old(child_node).label) is WithOne { Some(old(child_node).label) } else { old(self).right_child },
                last_epoch: umax(old(self).last_epoch, old(child_node).last_epoch),
                min_descendant_epoch: if old(self).min_descendant_epoch == 0 { old(child_node).min_descendant_epoch } else { umin(old(self).min_descendant_epoch, old(child_node).min_descendant_epoch) },
                ..*old(self) }),
    {
        // Set child according to given direction.
        match self.label.get_prefix_ordering(child_node.label) {
            PrefixOrdering::Invalid => {
                return Err(TreeNodeError::NoDirection(child_node.label, None))
            }
            PrefixOrdering::WithZero => {
                self.left_child = Some(child_node.label);
            }
            PrefixOrdering::WithOne => {
                self.right_child = Some(child_node.label);
            }
        }

        // Update parent of the child.
        child_node.parent = self.label;

        // Update last updated epoch.
        self.last_epoch = max(self.last_epoch, child_node.last_epoch);

        // Update the smallest descencent epoch
        if self.min_descendant_epoch == 0u64 {
            self.min_descendant_epoch = child_node.min_descendant_epoch;
        } else {
            self.min_descendant_epoch =
                min(self.min_descendant_epoch, child_node.min_descendant_epoch);
        };

        Ok(())
    }
}
}
fn main() {}
