use vstd::prelude::*;
verus! {
#[derive(Clone, Copy, PartialEq, Eq)]
pub struct NodeLabel { pub label_val: [u8; 32], pub label_len: u32 }
pub struct TreeNode { pub label: NodeLabel, pub last_epoch: u64, pub min_descendant_epoch: u64 }
impl Clone for TreeNode {
    #[verifier::external_body]
    fn clone(&self) -> (r: Self) ensures r == *self { unimplemented!() }
}
pub struct NodeKey(pub NodeLabel);
pub struct TreeNodeWithPreviousValue { pub label: NodeLabel, pub latest_node: TreeNode, pub previous_node: Option<TreeNode> }
pub enum StorageError { NotFound(String), Other(String) }
#[verifier::external_body]
fn vx_msg() -> String { String::new() }

impl TreeNodeWithPreviousValue {
    pub(crate) fn determine_node_to_get(
        &self,
        target_epoch: u64,
    ) -> (r: Result<TreeNode, StorageError>)
        ensures
            r is Ok ==> r->Ok_0.last_epoch <= target_epoch,                                           // E_not_newer  [C13]
            r is Ok ==> (r->Ok_0 == self.latest_node || Some(r->Ok_0) == self.previous_node),          // E_from_record
            self.latest_node.last_epoch <= target_epoch ==> r == Ok::<TreeNode, StorageError>(self.latest_node),   // E_latest [C11, C13]
            r is Err ==> r->Err_0 is NotFound,
    {
        if self.latest_node.last_epoch > target_epoch {
            if let Some(previous_node) = &self.previous_node {
                Ok(previous_node.clone())
            } else {
                // no previous, return not found
                Err(StorageError::NotFound(vx_msg()))
            }
        } else {
            // Otherwise the currently targeted epoch just points to the most up-to-date value, retrieve that
            Ok(self.latest_node.clone())
        }
    }
}
}
fn main() {}
