use vstd::prelude::*;
use vstd::std_specs::bits::*;
verus! {
// (1 << j) <= n  <==>  j < 64 - lz(n)      for n >= 1, j < 64
pub proof fn lemma_lz_pow2(n: u64, j: u64)
    requires n >= 1, j < 64
    ensures u64_leading_zeros(n) <= 63,
            ((1u64 << j) <= n) <==> (j + u64_leading_zeros(n) < 64)
    decreases n
{
    reveal(u64_leading_zeros);
    if n == 1 {
        assert(u64_leading_zeros(0) == 64);
        assert(1u64 / 2 == 0);
        assert(u64_leading_zeros(1) == 63);
        assert(((1u64 << j) <= 1u64) <==> j == 0) by(bit_vector) requires j < 64;
    } else {
        let h = n / 2;
        assert(h >= 1 && h < n);
        lemma_lz_pow2(h, 0);
        assert(u64_leading_zeros(n) == (u64_leading_zeros(h) - 1) as u32);
        if j == 0 {
            assert((1u64 << 0u64) <= n) by(bit_vector) requires n >= 1;
        } else {
            let j1 = (j - 1) as u64;
            lemma_lz_pow2(h, j1);
            assert(((1u64 << j) <= n) <==> ((1u64 << j1) <= h)) by(bit_vector)
                requires j >= 1, j < 64, j1 == sub(j, 1), h == n / 2;
        }
    }
}
}
fn main() {}
