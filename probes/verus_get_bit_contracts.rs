use vstd::prelude::*;
use vstd::std_specs::cmp::*;
verus! {
#[derive(Debug, Clone, Copy, PartialEq, Eq)]
pub struct NodeLabel { pub label_val: [u8; 32], pub label_len: u32 }
#[derive(Debug, PartialEq, Eq)]
#[repr(u8)]
pub(crate) enum Bit { Zero = 0u8, One = 1u8 }

pub open spec fn byte_bit(b: u8, r: int) -> bool { (b >> ((7 - r) as u8)) & 1u8 == 1u8 }
pub open spec fn bit(l: NodeLabel, i: int) -> bool { byte_bit(l.label_val[i / 8], i % 8) }

fn get_bit_from_slice(input: &[u8], index: u32) -> (r: Result<Bit, String>)
    requires input@.len() <= 0x1000_0000
    ensures
        index < 8 * input@.len() ==> r is Ok && (r->Ok_0 == Bit::One <==> byte_bit(input@[index as int / 8], index as int % 8)),
        index >= 8 * input@.len() ==> r is Err,
{
    if (input.len() as u32) * 8 <= index {
        return Err(format!(
            "Input is too short: index = {index}, input.len() = {}",
            input.len()
        ));
    }
    let usize_index: usize = index as usize;
    let index_full_blocks = usize_index / 8;
    let index_remainder = usize_index % 8;
    proof {
        let b = input@[index_full_blocks as int];
        let r = index_remainder;
        assert(((b >> sub(7usize, r)) & 1u8 == 0u8) <==> !((b >> ((7 - r) as u8)) & 1u8 == 1u8)) by(bit_vector)
            requires r < 8usize;
    }
    if (input[index_full_blocks] >> (7 - index_remainder)) & 1 == 0 {
        Ok(Bit::Zero)
    } else {
        Ok(Bit::One)
    }
}

impl NodeLabel {
    fn get_bit_at(&self, index: u32) -> (r: Result<Bit, String>)
        ensures index < self.label_len && index < 256 ==> (r is Ok && (r->Ok_0 == Bit::One <==> bit(*self, index as int))),
                !(index < self.label_len && index < 256) ==> r is Err,
    {
        if index >= self.label_len {
            return Err(format!(
                "Index out of range: index = {index}, label_len = {label_len}",
                index = index,
                label_len = self.label_len
            ));
        }
        get_bit_from_slice(&self.label_val, index)
    }
}
}
fn main() {}
