use vstd::prelude::*;
verus! {
pub type Digest = [u8; 32];
#[derive(Debug, Clone, Copy, PartialEq, Eq)]
pub struct NodeLabel { pub label_val: [u8; 32], pub label_len: u32 }
#[derive(Debug, Clone, Copy, PartialEq, Eq)]
pub struct AzksValue(pub Digest);
#[derive(Debug, Clone, Copy, PartialEq, Eq)]
pub struct AzksElement { pub label: NodeLabel, pub value: AzksValue }
pub struct SingleAppendOnlyProof { pub inserted: Vec<AzksElement>, pub unchanged_nodes: Vec<AzksElement> }
pub struct AppendOnlyProof { pub proofs: Vec<SingleAppendOnlyProof>, pub epochs: Vec<u64> }
pub enum AuditorError { VerifyAuditProof(String) }
pub enum AzksError { VerifyAppendOnlyProof(String) }
pub enum AkdError { AuditErr(AuditorError), AzksErr(AzksError), Other }
#[derive(Clone, Copy)]
pub enum InsertMode { Directory, Auditor }
pub struct AzksParallelismConfig { pub x: u8 }
impl AzksParallelismConfig { #[verifier::external_body] pub fn default() -> Self { unimplemented!() } }
pub trait Configuration {}
pub trait Database {}
pub struct AsyncInMemoryDatabase {}
impl Database for AsyncInMemoryDatabase {}
impl AsyncInMemoryDatabase { #[verifier::external_body] pub fn new_with_remove_child_nodes_on_insertion() -> Self { unimplemented!() } }
pub struct StorageManager<S: Database> { pub s: S }
impl<S: Database> StorageManager<S> { #[verifier::external_body] pub fn new_no_cache(db: S) -> Self { unimplemented!() } }
#[verifier::external_body]
fn vx_msg() -> String { String::new() }

pub open spec fn pfx(a: NodeLabel, b: NodeLabel) -> bool;
pub open spec fn prefix_free(s: Seq<AzksElement>) -> bool {
    forall|i: int, j: int| 0 <= i < s.len() && 0 <= j < s.len() && i != j ==> !pfx(#[trigger] s[i].label, #[trigger] s[j].label)
}

pub struct Azks { pub latest_epoch: u64, pub num_nodes: u64 }
impl Azks {
    #[verifier::external_body]
    pub async fn new<TC: Configuration, S: Database>(storage: &StorageManager<S>) -> Result<Self, AkdError> { unimplemented!() }
    #[verifier::external_body]
    pub async fn batch_insert_nodes<TC: Configuration, S: Database>(&mut self, storage: &StorageManager<S>, nodes: Vec<AzksElement>, insert_mode: InsertMode, parallelism_config: AzksParallelismConfig) -> Result<(), AkdError>
        requires insert_mode is Auditor ==> prefix_free(nodes@)
    { unimplemented!() }
    #[verifier::external_body]
    pub async fn get_root_hash<TC: Configuration, S: Database>(&self, storage: &StorageManager<S>) -> Result<Digest, AkdError> { unimplemented!() }
}

#[verifier::external_body]
fn ensure_prefix_free(nodes: &[AzksElement]) -> (r: Result<(), AkdError>)
    ensures r is Ok ==> prefix_free(nodes@)
{ unimplemented!() }

async fn verify_append_only_hash<TC: Configuration>(
    nodes: Vec<AzksElement>,
    expected_hash: Digest,
    latest_epoch: Option<u64>,
) -> Result<(), AkdError> {
    ensure_prefix_free(&nodes)?;
    let manager = StorageManager::new_no_cache(
        AsyncInMemoryDatabase::new_with_remove_child_nodes_on_insertion(),
    );
    let mut azks = Azks::new::<TC, _>(&manager).await?;
    if let Some(epoch) = latest_epoch {
        azks.latest_epoch = epoch;
    }
    azks.batch_insert_nodes::<TC, _>(
        &manager,
        nodes,
        InsertMode::Auditor,
        AzksParallelismConfig::default(),
    )
    .await?;
    let computed_hash: Digest = azks.get_root_hash::<TC, _>(&manager).await?;
    if computed_hash != expected_hash {
        return Err(AkdError::AzksErr(AzksError::VerifyAppendOnlyProof(
            vx_msg(),
        )));
    }
    Ok(())
}

pub uninterp spec fn consecutive_ok(p: SingleAppendOnlyProof, s: Digest, e: Digest, end_epoch: u64) -> bool;
#[verifier::external_body]
pub async fn verify_consecutive_append_only<TC: Configuration>(proof: &SingleAppendOnlyProof, start_hash: Digest, end_hash: Digest, end_epoch: u64) -> (r: Result<(), AkdError>)
    ensures r is Ok ==> consecutive_ok(*proof, start_hash, end_hash, end_epoch)
{ unimplemented!() }

pub async fn audit_verify<TC: Configuration>(
    hashes: Vec<Digest>,
    proof: AppendOnlyProof,
) -> (r: Result<(), AkdError>)
    ensures r is Ok ==> proof.epochs.len() + 1 == hashes.len() && proof.epochs.len() == proof.proofs.len()
{
    if proof.epochs.len() + 1 != hashes.len() {
        return Err(AkdError::AuditErr(AuditorError::VerifyAuditProof(vx_msg())));
    }
    if proof.epochs.len() != proof.proofs.len() {
        return Err(AkdError::AuditErr(AuditorError::VerifyAuditProof(vx_msg())));
    }
    for i in 0..hashes.len() - 1
        invariant proof.epochs.len() + 1 == hashes.len(), proof.epochs.len() == proof.proofs.len()
    {
        let start_hash = hashes[i];
        let end_hash = hashes[i + 1];
        verify_consecutive_append_only::<TC>(
            &proof.proofs[i],
            start_hash,
            end_hash,
            proof.epochs[i] + 1,
        )
        .await?;
    }
    Ok(())
}
}
fn main() {}
