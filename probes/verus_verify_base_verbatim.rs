use vstd::prelude::*;
verus! {

pub type Digest = [u8; 32];
pub const ARITY: usize = 2;

#[derive(Debug, Clone, Copy, PartialEq, Eq)]
pub struct NodeLabel { pub label_val: [u8; 32], pub label_len: u32 }
#[derive(Debug, Clone, Copy, PartialEq, Eq)]
pub struct AzksValue(pub Digest);
#[derive(Debug, Clone, Copy, PartialEq, Eq)]
pub struct AzksElement { pub label: NodeLabel, pub value: AzksValue }
#[derive(Debug, Clone, Copy, Eq, PartialEq)]
pub enum Direction { Left = 0, Right = 1 }
#[derive(Debug, Clone, PartialEq, Eq)]
pub struct SiblingProof { pub label: NodeLabel, pub siblings: [AzksElement; 1], pub direction: Direction }
#[derive(Debug, Clone, PartialEq, Eq)]
pub struct MembershipProof { pub label: NodeLabel, pub hash_val: AzksValue, pub sibling_proofs: Vec<SiblingProof> }
#[derive(Debug, Clone, PartialEq, Eq)]
pub struct NonMembershipProof {
    pub label: NodeLabel,
    pub longest_prefix: NodeLabel,
    pub longest_prefix_children: [AzksElement; ARITY],
    pub longest_prefix_membership_proof: MembershipProof,
}
pub enum VerificationError { MembershipProof(String), NonMembershipProof(String) }

pub trait Configuration {
    spec fn spec_parent(l: AzksValue, ll: Seq<u8>, r: AzksValue, rl: Seq<u8>) -> AzksValue;
    spec fn spec_root(v: AzksValue) -> Digest;
    spec fn spec_label_value(l: NodeLabel) -> Seq<u8>;
    fn compute_parent_hash_from_children(left_val: &AzksValue, left_label: &[u8], right_val: &AzksValue, right_label: &[u8]) -> (r: AzksValue)
        ensures r == Self::spec_parent(*left_val, left_label@, *right_val, right_label@);
    fn compute_root_hash_from_val(root_val: &AzksValue) -> (r: Digest)
        ensures r == Self::spec_root(*root_val);
    fn empty_label() -> NodeLabel;
}

impl NodeLabel {
    #[verifier::external_body]
    pub fn value<TC: Configuration>(&self) -> (r: Vec<u8>) ensures r@ == TC::spec_label_value(*self) { unimplemented!() }
    #[verifier::external_body]
    pub fn is_prefix_of(&self, other: &Self) -> bool { unimplemented!() }
    #[verifier::external_body]
    pub fn get_longest_common_prefix<TC: Configuration>(&self, other: NodeLabel) -> Self { unimplemented!() }
    pub fn root() -> Self { Self::new([0u8; 32], 0) }
    pub fn new(val: [u8; 32], len: u32) -> Self { NodeLabel { label_val: val, label_len: len } }
}

pub(crate) fn verify_membership<TC: Configuration>(
    root_hash: Digest,
    proof: &MembershipProof,
) -> Result<(), VerificationError> {
    let mut curr_val = proof.hash_val;
    let mut curr_label = proof.label;

    for sibling_proof in proof.sibling_proofs.iter().rev() {
        let sibling = sibling_proof.siblings[0];
        let (left_val, left_label, right_val, right_label) = match sibling_proof.direction {
            Direction::Left => (
                curr_val,
                curr_label.value::<TC>(),
                sibling.value,
                sibling.label.value::<TC>(),
            ),
            Direction::Right => (
                sibling.value,
                sibling.label.value::<TC>(),
                curr_val,
                curr_label.value::<TC>(),
            ),
        };
        curr_val =
            TC::compute_parent_hash_from_children(&left_val, &left_label, &right_val, &right_label);
        curr_label = sibling_proof.label;
    }

    if TC::compute_root_hash_from_val(&curr_val) == root_hash {
        Ok(())
    } else {
        Err(VerificationError::MembershipProof(format!(
            "Membership proof for label {:?} did not verify",
            proof.label
        )))
    }
}

pub(crate) fn verify_nonmembership<TC: Configuration>(
    root_hash: Digest,
    proof: &NonMembershipProof,
) -> Result<(), VerificationError> {
    // Verify that the proof's label is not equal to either of the children's labels
    if proof.label == proof.longest_prefix_children[0].label
        || proof.label == proof.longest_prefix_children[1].label
    {
        return Err(VerificationError::NonMembershipProof(
            "Proof's label is equal to one of the children's labels".to_string(),
        ));
    }

    // Verify that proof.longest_prefix is a prefix of the proof's label
    if !proof.longest_prefix.is_prefix_of(&proof.label) {
        return Err(VerificationError::NonMembershipProof(
            "Proof's longest prefix is not a prefix of the proof's label".to_string(),
        ));
    }

    // Verify that proof.longest_prefix is the longest common prefix of the children
    let mut lcp_children = proof.longest_prefix_children[0]
        .label
        .get_longest_common_prefix::<TC>(proof.longest_prefix_children[1].label);
    if lcp_children == TC::empty_label() {
        lcp_children = NodeLabel::root();
    }
    if proof.longest_prefix != lcp_children {
        return Err(VerificationError::NonMembershipProof(
            "longest_prefix != computed lcp".to_string(),
        ));
    }

    let lcp_hash = TC::compute_parent_hash_from_children(
        &proof.longest_prefix_children[0].value,
        &proof.longest_prefix_children[0].label.value::<TC>(),
        &proof.longest_prefix_children[1].value,
        &proof.longest_prefix_children[1].label.value::<TC>(),
    );
    if lcp_children != proof.longest_prefix_membership_proof.label
        || lcp_hash != proof.longest_prefix_membership_proof.hash_val
    {
        return Err(VerificationError::NonMembershipProof(
            "lcp_hash != longest_prefix_hash".to_string(),
        ));
    }
    verify_membership::<TC>(root_hash, &proof.longest_prefix_membership_proof)?;

    Ok(())
}
}
fn main() {}
