import random, sys
sys.path.insert(0,'.')
SKIP=[1,2,4,16,256,65536,1<<32]
M64=(1<<64)-1
def log2(v): return v.bit_length()-1
def fmi(x):
    i=0
    while i<len(SKIP):
        if x<SKIP[i]: break
        i+=1
    return i-1
def gmv(s,e,E):
    past=[]
    idx=fmi(s)
    if SKIP[idx]!=s: past.append(SKIP[idx])
    p=1<<log2(s)
    if p!=s and (not past or p!=past[-1]): past.append(p)
    for i in reversed(range(s.bit_length())):
        sh=1<<i
        if s&sh:
            m=(sh-1)|sh
            pv=s&~m&M64
            if pv!=0 and (not past or pv!=past[-1]): past.append(pv)
    fut=[]
    fv=e
    for i in range(e.bit_length()):
        sh=1<<i
        if e&sh==0:
            fv|=sh; fv&=~(sh-1)&M64
            if fv<=E: fut.append(fv)
    ei=fmi(e); Ei=fmi(E)
    sl=SKIP[ei+1:Ei+1]
    for i in range(log2(e)+1, log2(E)+1):
        v=1<<i
        if sl and v>=sl[0]: break
        fut.append(v)
    fut+=sl
    return past,fut
def pow2(p): return p!=0 and p&(p-1)==0
def hb(d): return 0 if d==0 else 1<<log2(d)
def kmin(n):
    for k in SKIP:
        if n<k: return k
    return 0
def lmax(s):
    return max(k for k in SKIP if k<=s)
def in_fut(x,n,E):
    if not (n<x<=E): return False
    a=any(((n&p)==0 and p<=n and x==((n|p)&~(p-1)&M64)) for p in (1<<i for i in range(64)))
    b=pow2(x) and not (kmin(n)!=0 and kmin(n)<=E and x>=kmin(n))
    return a or b or x in SKIP
def in_past(x,s):
    if (x==lmax(s) and x!=s) or (x==hb(s) and x!=s): return True
    return any(((s&p)!=0 and x==(s&~((p-1)|p)&M64) and x!=0) for p in (1<<i for i in range(64)))
def check(s,e,E):
    P,F=gmv(s,e,E)
    assert P==sorted(set(P)) and F==sorted(set(F)),(s,e,E,P,F)
    # candidates: everything up to a window, plus outputs
    cand=set(P)|set(F)|set(range(1,min(E,600)+1))|{1<<i for i in range(64)}|{e+1,s-1,E}
    cand={c for c in cand if 0<c<=M64}
    for x in cand:
        assert (x in F)==in_fut(x,e,E),("F",s,e,E,x,F)
        assert (x in P)==in_past(x,s),("P",s,e,E,x,P)
cnt=0
for E in range(1,80):
    for e in range(1,E+1):
        for s in range(1,e+1):
            check(s,e,E); cnt+=1
rnd=random.Random(7)
for _ in range(3000):
    s=rnd.choice([rnd.randrange(1,1<<k) for k in (3,9,17,33,47,63,64)])
    e=min(M64, s+rnd.choice([0,1,5,1000,1<<20,1<<40]))
    E=min(M64, e+rnd.choice([0,1,7,1<<10,1<<33,1<<62]))
    check(s,e,E); cnt+=1
for k in range(1,64):
    for d in (-1,0,1):
        v=(1<<k)+d
        for (s,e,E) in ((v,v,v),(v,v,min(M64,2*v+1)),(1,v,min(M64,v+3)),(max(1,v-2),v,M64)):
            if 1<=s<=e<=E: check(s,e,E); cnt+=1
print("closed forms agree with the mirror on",cnt,"triples")
