use vstd::prelude::*;
verus! {
pub struct AkdLabel(pub Vec<u8>);
pub struct UpdateProof { pub epoch: u64, pub version: u64 }
pub struct HistoryProof {
    pub update_proofs: Vec<UpdateProof>,
    pub past_marker_vrf_proofs: Vec<Vec<u8>>,
    pub existence_of_past_marker_proofs: Vec<u64>,
    pub future_marker_vrf_proofs: Vec<Vec<u8>>,
    pub non_existence_of_future_marker_proofs: Vec<u64>,
}
#[derive(Copy, Clone)]
pub enum HistoryParams { Complete, MostRecent(usize) }
pub enum VerificationError { HistoryProof(String) }

#[verifier::external_body]
fn vx_msg() -> String { String::new() }

#[verifier::external_body]
pub fn get_marker_versions(start_version: u64, end_version: u64, epoch: u64) -> (Vec<u64>, Vec<u64>)
 requires 1 <= start_version <= end_version <= epoch
{ unimplemented!() }

fn verify_with_history_params(
    current_epoch: u64,
    akd_label: &AkdLabel,
    proof: &HistoryProof,
    params: HistoryParams,
) -> Result<(Vec<u64>, Vec<u64>), VerificationError> {
    let num_proofs = proof.update_proofs.len();

    // Make sure the update proofs are non-empty
    if num_proofs == 0 {
        return Err(VerificationError::HistoryProof(vx_msg()));
    }

    // Check that the sent proofs are for a contiguous sequence of decreasing versions
    for count in 1..num_proofs {
        // Make sure this proof is for a version 1 more than the previous one.
        let prev_version = proof.update_proofs[count - 1].version;
        let curr_version = proof.update_proofs[count].version;
        if curr_version + 1 != prev_version {
            return Err(VerificationError::HistoryProof(vx_msg()));
        }
    }

    let mut start_version = proof.update_proofs[0].version;
    let mut end_version = proof.update_proofs[0].version;
    for update_proof in proof.update_proofs.iter() {
        if update_proof.version < start_version {
            start_version = update_proof.version;
        }
        if update_proof.version > end_version {
            end_version = update_proof.version;
        }
    }

    if start_version == 0 {
        return Err(VerificationError::HistoryProof(
            "Computed start version for the key history should be non-zero".to_string(),
        ));
    }

    if end_version > current_epoch {
        return Err(VerificationError::HistoryProof(
            "Computed end version for the key history should not exceed current epoch".to_string(),
        ));
    }

    match params {
        HistoryParams::Complete => {
            // Make sure the start version is 1
            if start_version != 1 {
                return Err(VerificationError::HistoryProof(vx_msg()));
            }
        }
        HistoryParams::MostRecent(recency) => {
            use core::cmp::Ordering;
            match num_proofs.cmp(&recency) {
                Ordering::Greater => {
                    return Err(VerificationError::HistoryProof(vx_msg()))
                }
                Ordering::Less => {
                    if start_version != 1 {
                        return Err(VerificationError::HistoryProof(vx_msg()));
                    }
                }
                Ordering::Equal => {}
            }
        }
    }

    let (past_marker_versions, future_marker_versions) =
        get_marker_versions(start_version, end_version, current_epoch);

    // Perform checks for expected number of past marker proofs
    if past_marker_versions.len() != proof.past_marker_vrf_proofs.len() {
        return Err(VerificationError::HistoryProof(vx_msg()));
    }
    if proof.past_marker_vrf_proofs.len() != proof.existence_of_past_marker_proofs.len() {
        return Err(VerificationError::HistoryProof(vx_msg()));
    }
    if future_marker_versions.len() != proof.future_marker_vrf_proofs.len() {
        return Err(VerificationError::HistoryProof(vx_msg()));
    }
    if proof.future_marker_vrf_proofs.len() != proof.non_existence_of_future_marker_proofs.len() {
        return Err(VerificationError::HistoryProof(vx_msg()));
    }

    Ok((past_marker_versions, future_marker_versions))
}
}
fn main() {}
