use vstd::prelude::*;
verus! {
#[derive(Clone, Copy, PartialEq, Eq)]
pub struct NodeLabel { pub label_val: [u8; 32], pub label_len: u32 }
pub struct TreeNode { pub label: NodeLabel, pub last_epoch: u64, pub min_descendant_epoch: u64 }
impl Clone for TreeNode {
    #[verifier::external_body]
    fn clone(&self) -> (r: Self) ensures r == *self { unimplemented!() }
}
pub struct TreeNodeWithPreviousValue { pub label: NodeLabel, pub latest_node: TreeNode, pub previous_node: Option<TreeNode> }
impl Clone for TreeNodeWithPreviousValue {
    #[verifier::external_body]
    fn clone(&self) -> (r: Self) ensures r == *self { unimplemented!() }
}
pub struct NodeKey(pub NodeLabel);
pub enum StorageError { NotFound(String), Other(String) }
pub enum DbRecord { TreeNode(TreeNodeWithPreviousValue) }
pub trait Database {}
pub struct StorageManager<S: Database> { pub s: S }

// asof: the (repaired) selection function as a spec
pub open spec fn asof(rec: TreeNodeWithPreviousValue, t: u64) -> Option<TreeNode> {
    if rec.latest_node.last_epoch > t {
        match rec.previous_node { Some(p) => if p.last_epoch <= t { Some(p) } else { None }, None => None }
    } else { Some(rec.latest_node) }
}

impl<S: Database> StorageManager<S> {
    // ghost view of what is stored under a label (None = no record) -- read by the stubs below
    pub uninterp spec fn stored(&self, label: NodeLabel) -> Option<TreeNodeWithPreviousValue>;
    pub uninterp spec fn written(&self, rec: TreeNodeWithPreviousValue) -> bool;
    #[verifier::external_body]
    pub async fn set(&self, record: DbRecord) -> (r: Result<(), StorageError>)
        ensures r is Ok ==> self.written(record->TreeNode_0)
    { unimplemented!() }
}

impl TreeNodeWithPreviousValue {
    #[verifier::external_body]
    pub(crate) async fn get_appropriate_tree_node_from_storage<S: Database>(
        storage: &StorageManager<S>,
        key: &NodeKey,
        target_epoch: u64,
    ) -> (r: Result<TreeNode, StorageError>)
        ensures
            match storage.stored(key.0) {
                Some(rec) => match asof(rec, target_epoch) { Some(n) => r == Ok::<TreeNode, StorageError>(n), None => r is Err && r->Err_0 is NotFound },
                None => r is Err,
            }
    { unimplemented!() }

    pub(crate) async fn write_to_storage<S: Database>(
        &self,
        storage: &StorageManager<S>,
    ) -> (r: Result<(), StorageError>)
        ensures r is Ok ==> storage.written(*self)
    {
        storage.set(DbRecord::TreeNode(self.clone())).await
    }
}

impl TreeNode {
    pub(crate) async fn write_to_storage<S: Database>(
        &self,
        storage: &StorageManager<S>,
        is_new: bool,
    ) -> (r: Result<(), StorageError>)
        requires self.last_epoch >= 1,
                 storage.stored(self.label) is Some,
        ensures
            // E_record [C11]: on success exactly this record was written
            r is Ok ==> storage.written(TreeNodeWithPreviousValue {
                label: self.label,
                latest_node: *self,
                previous_node: if is_new { None } else { asof(storage.stored(self.label)->Some_0, (self.last_epoch - 1) as u64) },
            }),
    {
        let target_epoch = match self.last_epoch {
            e if e > 0 => e - 1,
            other => other,
        };

        // previous value of a new node is None
        let previous = if is_new {
            None
        } else {
            match TreeNodeWithPreviousValue::get_appropriate_tree_node_from_storage(
                storage,
                &NodeKey(self.label),
                target_epoch,
            )
            .await
            {
                Ok(p) => Some(p),
                Err(StorageError::NotFound(_)) => None,
                Err(other) => return Err(other),
            }
        };

        // construct the "new" record, shifting the most recent stored value into the "previous" field
        let left_shifted = TreeNodeWithPreviousValue {
            label: self.label,
            latest_node: self.clone(),
            previous_node: previous,
        };

        // write this updated tuple record back to storage
        left_shifted.write_to_storage(storage).await
    }
}

// L-ROT [C11]: the rotated record serves the old node at the old epoch and the new node at the new epoch
pub proof fn lemma_rot(r0: TreeNodeWithPreviousValue, new: TreeNode)
    requires new.last_epoch >= 1,
             r0.latest_node.last_epoch <= new.last_epoch,      // records only move forward
    ensures ({
        let e = (new.last_epoch - 1) as u64;
        let r1 = TreeNodeWithPreviousValue { label: r0.label, latest_node: new, previous_node: asof(r0, e) };
        &&& asof(r1, e) == asof(r0, e)          // readers of the previous epoch see what they saw
        &&& asof(r1, new.last_epoch) == Some(new) // readers of the new epoch get the new node
        &&& forall|t: u64| t < e ==> (asof(r1, t) is Some ==> asof(r1, t)->Some_0.last_epoch <= t)   // never newer than asked (C13)
    })
{
}
}
fn main() {}
