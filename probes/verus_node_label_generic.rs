use vstd::prelude::*;
verus! {

#[derive(Debug, Clone, Copy, PartialEq, Eq)]
pub struct NodeLabel {
    pub label_val: [u8; 32],
    pub label_len: u32,
}

#[derive(Debug, PartialEq, Eq)]
#[repr(u8)]
pub(crate) enum Bit {
    Zero = 0u8,
    One = 1u8,
}

#[derive(Debug, Clone, Copy, Eq, PartialEq)]
pub enum PrefixOrdering { WithZero = 0, WithOne = 1, Invalid = 255 }

impl From<Bit> for PrefixOrdering {
    fn from(bit: Bit) -> Self {
        match bit {
            Bit::Zero => Self::WithZero,
            Bit::One => Self::WithOne,
        }
    }
}

pub trait Configuration {
    fn empty_label() -> NodeLabel;
}

impl NodeLabel {
    #[verifier::external_body]
    fn get_bit_at(&self, index: u32) -> Result<Bit, String> { unimplemented!() }
    #[verifier::external_body]
    pub fn get_prefix(&self, len: u32) -> Self { unimplemented!() }

    pub fn is_prefix_of(&self, other: &Self) -> bool {
        if self.label_len > other.label_len {
            return false;
        }
        (0..self.label_len).all(|i| self.get_bit_at(i) == other.get_bit_at(i))
    }

    pub fn get_longest_common_prefix<TC: Configuration>(&self, other: NodeLabel) -> Self {
        let empty_label = TC::empty_label();
        if *self == empty_label || other == empty_label {
            return empty_label;
        }

        let shorter_len = if self.label_len < other.label_len {
            self.label_len
        } else {
            other.label_len
        };

        let mut prefix_len = 0;
        while prefix_len < shorter_len
            && self.get_bit_at(prefix_len) == other.get_bit_at(prefix_len)
            decreases shorter_len - prefix_len
        {
            prefix_len += 1;
        }

        self.get_prefix(prefix_len)
    }
    pub fn get_len(&self) -> u32 {
        self.label_len
    }
    pub fn get_prefix_ordering(&self, other: Self) -> PrefixOrdering {
        if self.get_len() >= other.get_len() {
            return PrefixOrdering::Invalid;
        }
        if other.get_prefix(self.get_len()) != self.get_prefix(self.get_len()) {
            return PrefixOrdering::Invalid;
        }
        if let Ok(bit) = other.get_bit_at(self.get_len()) {
            return PrefixOrdering::from(bit);
        }

        PrefixOrdering::Invalid
    }
}

} // verus!
fn main() {}
