use vstd::prelude::*;
use vstd::std_specs::cmp::*;
verus! {
#[derive(Debug, PartialEq, Eq)]
#[repr(u8)]
pub enum Bit { Zero = 0u8, One = 1u8 }
impl PartialEqSpecImpl for Bit {
    open spec fn obeys_eq_spec() -> bool { true }
    open spec fn eq_spec(&self, other: &Bit) -> bool { *self == *other }
}
pub assume_specification<T: PartialEq, E: PartialEq>[ <Result<T, E> as PartialEq>::eq ](a: &Result<T, E>, b: &Result<T, E>) -> (r: bool)
    ensures (a is Ok && b is Ok && T::obeys_eq_spec()) ==> r == a->Ok_0.eq_spec(&b->Ok_0),
            (a is Ok) != (b is Ok) ==> !r;

fn f(a: Result<Bit, String>, b: Result<Bit, String>) -> (r: bool)
    requires a is Ok, b is Ok
    ensures r == (a->Ok_0 == b->Ok_0)
{ a == b }
}
fn main() {}
