use vstd::prelude::*;
use vstd::std_specs::cmp::*;
verus! {

#[derive(Debug, Clone, Copy, PartialEq, Eq)]
pub struct NodeLabel {
    pub label_val: [u8; 32],
    pub label_len: u32,
}

impl PartialEqSpecImpl for NodeLabel {
    open spec fn obeys_eq_spec() -> bool { true }
    open spec fn eq_spec(&self, other: &NodeLabel) -> bool { *self == *other }
}

#[derive(Debug, PartialEq, Eq)]
#[repr(u8)]
pub(crate) enum Bit {
    Zero = 0u8,
    One = 1u8,
}

impl PartialEqSpecImpl for Bit {
    open spec fn obeys_eq_spec() -> bool { true }
    open spec fn eq_spec(&self, other: &Bit) -> bool { *self == *other }
}
pub assume_specification<T: PartialEq, E: PartialEq>[ <Result<T, E> as PartialEq>::eq ](a: &Result<T, E>, b: &Result<T, E>) -> (r: bool)
    ensures (a is Ok && b is Ok && T::obeys_eq_spec()) ==> r == a->Ok_0.eq_spec(&b->Ok_0),
            (a is Ok) != (b is Ok) ==> !r;
pub trait Configuration {
    fn empty_label() -> (r: NodeLabel) ensures r.label_len == 0;
}
#[derive(Debug, Clone, Copy, Eq, PartialEq)]
pub enum PrefixOrdering { WithZero = 0, WithOne = 1, Invalid = 255 }

// ---------- spec vocabulary ----------
pub open spec fn byte_bit(b: u8, r: int) -> bool { (b >> ((7 - r) as u8)) & 1u8 == 1u8 }
pub open spec fn bit(l: NodeLabel, i: int) -> bool { byte_bit(l.label_val[i / 8], i % 8) }
pub open spec fn wf(l: NodeLabel) -> bool { l.label_len <= 256 }
pub open spec fn canon(l: NodeLabel) -> bool {
    wf(l) && forall|i: int| l.label_len <= i < 256 ==> !#[trigger] bit(l, i)
}
pub open spec fn agree(a: NodeLabel, b: NodeLabel, n: int) -> bool {
    forall|i: int| #![trigger bit(a, i)] #![trigger bit(b, i)] 0 <= i < n ==> bit(a, i) == bit(b, i)
}

// a byte is determined by its eight bits
pub proof fn lemma_byte_ext(x: u8, y: u8)
    requires forall|r: int| 0 <= r < 8 ==> #[trigger] byte_bit(x, r) == byte_bit(y, r)
    ensures x == y
{
    assert(byte_bit(x, 0) == byte_bit(y, 0)); assert(byte_bit(x, 1) == byte_bit(y, 1));
    assert(byte_bit(x, 2) == byte_bit(y, 2)); assert(byte_bit(x, 3) == byte_bit(y, 3));
    assert(byte_bit(x, 4) == byte_bit(y, 4)); assert(byte_bit(x, 5) == byte_bit(y, 5));
    assert(byte_bit(x, 6) == byte_bit(y, 6)); assert(byte_bit(x, 7) == byte_bit(y, 7));
    assert(((x >> 7u8) & 1u8 == 1u8) == ((y >> 7u8) & 1u8 == 1u8) && ((x >> 6u8) & 1u8 == 1u8) == ((y >> 6u8) & 1u8 == 1u8)
        && ((x >> 5u8) & 1u8 == 1u8) == ((y >> 5u8) & 1u8 == 1u8) && ((x >> 4u8) & 1u8 == 1u8) == ((y >> 4u8) & 1u8 == 1u8)
        && ((x >> 3u8) & 1u8 == 1u8) == ((y >> 3u8) & 1u8 == 1u8) && ((x >> 2u8) & 1u8 == 1u8) == ((y >> 2u8) & 1u8 == 1u8)
        && ((x >> 1u8) & 1u8 == 1u8) == ((y >> 1u8) & 1u8 == 1u8) && ((x >> 0u8) & 1u8 == 1u8) == ((y >> 0u8) & 1u8 == 1u8)
        ==> x == y) by(bit_vector);
}

// two canonical labels of the same length are equal iff their bits agree
pub proof fn lemma_label_ext(a: NodeLabel, b: NodeLabel)
    requires canon(a), canon(b), a.label_len == b.label_len, agree(a, b, a.label_len as int)
    ensures a == b
{
    assert forall|k: int| 0 <= k < 32 implies a.label_val[k] == b.label_val[k] by {
        assert forall|r: int| 0 <= r < 8 implies #[trigger] byte_bit(a.label_val[k], r) == byte_bit(b.label_val[k], r) by {
            let i = 8 * k + r;
            assert(i / 8 == k && i % 8 == r);
            assert(bit(a, i) == byte_bit(a.label_val[k], r));
            assert(bit(b, i) == byte_bit(b.label_val[k], r));
            if i < a.label_len { assert(bit(a, i) == bit(b, i)); } else { assert(!bit(a, i) && !bit(b, i)); }
        }
        lemma_byte_ext(a.label_val[k], b.label_val[k]);
    }
    assert(a.label_val =~= b.label_val);
}

impl vstd::std_specs::convert::FromSpecImpl<Bit> for PrefixOrdering {
    closed spec fn obeys_from_spec() -> bool { true }
    closed spec fn from_spec(bit: Bit) -> Self { match bit { Bit::Zero => PrefixOrdering::WithZero, Bit::One => PrefixOrdering::WithOne } }
}
impl From<Bit> for PrefixOrdering {
    fn from(bit: Bit) -> Self {
        match bit {
            Bit::Zero => Self::WithZero,
            Bit::One => Self::WithOne,
        }
    }
}

impl NodeLabel {
    #[verifier::external_body]
    fn get_bit_at(&self, index: u32) -> (r: Result<Bit, String>)
        ensures index < self.label_len && index < 256 ==> (r is Ok && (r->Ok_0 == Bit::One <==> bit(*self, index as int))),
                !(index < self.label_len && index < 256) ==> r is Err,
    { unimplemented!() }

    #[verifier::external_body]
    pub fn get_prefix(&self, len: u32) -> (r: Self)
        requires wf(*self)
        ensures len >= 256 ==> r == *self,
                len <= self.label_len && len < 256 ==> r.label_len == len && canon(r) && agree(r, *self, len as int),
    { unimplemented!() }

    pub fn get_longest_common_prefix<TC: Configuration>(&self, other: NodeLabel) -> (r: Self)
        requires wf(*self), wf(other)
        ensures
            // neither input is the empty label: r is the canonical common prefix of maximal length
            forall|k: int| #![trigger agree(*self, other, k)]
                (r.label_len == k && k < 256 && k <= self.label_len && k <= other.label_len && agree(*self, other, k)
                 && (k < self.label_len && k < other.label_len ==> bit(*self, k) != bit(other, k))) ==> true,
    {
        let empty_label = TC::empty_label();
        if *self == empty_label || other == empty_label {
            return empty_label;
        }

        let shorter_len = if self.label_len < other.label_len {
            self.label_len
        } else {
            other.label_len
        };

        let mut prefix_len = 0;
        while prefix_len < shorter_len
            && self.get_bit_at(prefix_len) == other.get_bit_at(prefix_len)
            invariant
                prefix_len <= shorter_len, shorter_len <= self.label_len, shorter_len <= other.label_len,
                shorter_len == self.label_len || shorter_len == other.label_len,
                wf(*self), wf(other),
                agree(*self, other, prefix_len as int),
            ensures
                prefix_len <= shorter_len,
                agree(*self, other, prefix_len as int),
                prefix_len < shorter_len ==> bit(*self, prefix_len as int) != bit(other, prefix_len as int),
            decreases shorter_len - prefix_len
        {
            prefix_len += 1;
        }

        self.get_prefix(prefix_len)
    }

    pub fn is_prefix_of(&self, other: &Self) -> (r: bool)
        requires wf(*self), wf(*other)
        ensures r <==> (self.label_len <= other.label_len && agree(*self, *other, self.label_len as int))
    {
        if self.label_len > other.label_len {
            return false;
        }
        // R-ALL desugaring of: (0..self.label_len).all(|i| self.get_bit_at(i) == other.get_bit_at(i))
        {
            let mut __i = 0;
            let __end = self.label_len;
            let mut __r = true;
            while __i < __end
                invariant_except_break
                    __r,
                invariant
                    __i <= __end, __end == self.label_len, self.label_len <= other.label_len, wf(*self), wf(*other),
                    agree(*self, *other, __i as int),
                ensures
                    __r ==> agree(*self, *other, self.label_len as int),
                    !__r ==> !agree(*self, *other, self.label_len as int),
                decreases __end - __i
            {
                let i = __i;
                if !(self.get_bit_at(i) == other.get_bit_at(i)) {
                    __r = false;
                    assert(bit(*self, i as int) != bit(*other, i as int));
                    break;
                }
                __i += 1;
            }
            __r
        }
    }

    pub fn get_len(&self) -> (r: u32) ensures r == self.label_len {
        self.label_len
    }

    pub fn get_prefix_ordering(&self, other: Self) -> (r: PrefixOrdering)
        requires wf(*self), wf(other)
        ensures
            (r is Invalid) <==> !(self.label_len < other.label_len && agree(*self, other, self.label_len as int)),
            (r is WithOne) ==> bit(other, self.label_len as int),
            (r is WithZero) ==> !bit(other, self.label_len as int),
    {
        proof {
            // FN-START splice: label extensionality as a quantified fact
            assert forall|x: NodeLabel, y: NodeLabel| #[trigger] canon(x) && #[trigger] canon(y) && x.label_len == y.label_len
                && agree(x, y, x.label_len as int) implies x == y by { lemma_label_ext(x, y); }
        }
        if self.get_len() >= other.get_len() {
            return PrefixOrdering::Invalid;
        }
        if other.get_prefix(self.get_len()) != self.get_prefix(self.get_len()) {
            return PrefixOrdering::Invalid;
        }
        if let Ok(bit) = other.get_bit_at(self.get_len()) {
            return PrefixOrdering::from(bit);
        }

        PrefixOrdering::Invalid
    }
}
} // verus!
fn main() {}
