// Kani probe appended to akd_core/src/configuration/whatsapp_v1.rs in a scratch copy: SUCCESSFUL, 6.2 s.
// Shows that a trait-impl method (`<WhatsAppV1Configuration as Configuration>::hash`) can be stubbed to observe the pre-image.
#[cfg(kani)]
mod kani_probe {
    use super::*;

    static mut REC: [u8; 32] = [0u8; 32];
    static mut REC_LEN: usize = 0;

    // contract-as-stub for the hash: records (a prefix of) its input, returns a fixed digest
    fn rec_hash(item: &[u8]) -> crate::hash::Digest {
        unsafe {
            REC_LEN = item.len();
            let mut i = 0;
            while i < 32 && i < item.len() { REC[i] = item[i]; i += 1; }
        }
        [0u8; 32]
    }

    #[kani::proof]
    #[kani::unwind(34)]
    #[kani::stub(<WhatsAppV1Configuration as Configuration>::hash, rec_hash)]
    fn probe_label_input_encoding() {
        // label of 2 symbolic bytes
        let l0: u8 = kani::any(); let l1: u8 = kani::any();
        let label = AkdLabel(vec![l0, l1]);
        let fresh: bool = kani::any();
        let f = if fresh { VersionFreshness::Fresh } else { VersionFreshness::Stale };
        let v: u64 = kani::any();
        let _ = WhatsAppV1Configuration::get_hash_from_label_input(&label, f, v);
        unsafe {
            // enc = be64(2) || l0 l1 || [f] || be64(v)   (8 + 2 + 1 + 8 = 19 bytes)
            assert!(REC_LEN == 19);
            assert!(REC[7] == 2 && REC[0] == 0);
            assert!(REC[8] == l0 && REC[9] == l1);
            assert!(REC[10] == (if fresh { 1 } else { 0 }));
            assert!(REC[11] == (v >> 56) as u8 && REC[18] == v as u8);
        }
    }
}
