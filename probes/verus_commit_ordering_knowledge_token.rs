use vstd::prelude::*;
verus! {
pub struct AkdLabel(pub Vec<u8>);
pub struct AkdValue(pub Vec<u8>);
pub struct ValueState { pub value: AkdValue, pub version: u64, pub epoch: u64, pub username: AkdLabel }
pub struct Azks { pub latest_epoch: u64, pub num_nodes: u64 }
pub enum DbRecord { Azks(Azks), ValueState(ValueState), Other(u8) }
#[derive(Clone, Copy)]
pub enum ValueStateRetrievalFlag { SpecificVersion(u64), SpecificEpoch(u64), LeqEpoch(u64), MaxEpoch, MinEpoch }
pub enum StorageError { NotFound(String), Transaction(String), Other(String) }
pub enum DbSetState { TransactionCommit, General }
type Metric = usize;
const METRIC_READ_TIME: Metric = 4;
const METRIC_WRITE_TIME: Metric = 5;
const METRIC_BATCH_SET: Metric = 3;
const METRIC_GET_USER_STATE: Metric = 7;
#[verifier::external_body]
fn vx_msg() -> String { String::new() }

pub uninterp spec fn db_accepted(records: Seq<DbRecord>) -> bool;
pub struct TimedCache {}
impl TimedCache {
    #[verifier::external_body] pub fn enable_clean(&self) {}
    #[verifier::external_body] pub async fn batch_put(&self, records: &[DbRecord])
        requires db_accepted(records@)
    {}
    #[verifier::external_body] pub async fn put(&self, record: &DbRecord) {}
}
pub struct Transaction {}
impl Transaction {
    #[verifier::external_body] pub fn commit_transaction(&self) -> Result<Vec<DbRecord>, StorageError> { unimplemented!() }
    #[verifier::external_body] pub fn get_user_state(&self, username: &AkdLabel, flag: ValueStateRetrievalFlag) -> Option<ValueState> { unimplemented!() }
}
pub struct Db {}
impl Db {
    #[verifier::external_body]
    pub async fn batch_set(&self, records: Vec<DbRecord>, state: DbSetState) -> (r: Result<(), StorageError>)
        requires records.len() > 0, records@.last() is Azks
        ensures r is Ok ==> db_accepted(records@)
    { unimplemented!() }
    #[verifier::external_body]
    pub async fn get_user_state(&self, username: &AkdLabel, flag: ValueStateRetrievalFlag) -> Result<ValueState, StorageError> { unimplemented!() }
}
pub struct StorageManager { pub cache: Option<TimedCache>, pub transaction: Transaction, pub db: Db }

impl StorageManager {
    #[verifier::external_body] pub fn is_transaction_active(&self) -> bool { unimplemented!() }
    #[verifier::external_body] fn increment_metric(&self, _metric: Metric) {}
    #[verifier::external_body] async fn tic_toc<T>(&self, _metric: Metric, f: impl std::future::Future<Output = T>) -> T { f.await }
    #[verifier::external_body]
    fn compare_db_and_transaction_records(state_epoch: u64, transaction_value: ValueState, flag: ValueStateRetrievalFlag) -> Option<ValueState> { unimplemented!() }
    #[verifier::external_body]
    fn clone_state(s: &ValueState) -> ValueState { unimplemented!() }

    pub async fn commit_transaction(&self) -> Result<u64, StorageError> {
        // this retrieves all the trans operations, and "de-activates" the transaction flag
        let records = self.transaction.commit_transaction()?;
        let num_records = records.len();

        if let Some(cache) = &self.cache {
            cache.enable_clean();
        }

        if records.is_empty() {
            // no-op, there's nothing to commit
            return Ok(0);
        }

        let _epoch = match records.last() {
            Some(DbRecord::Azks(azks)) => Ok(azks.latest_epoch),
            other => Err(StorageError::Transaction(vx_msg())),
        }?;

        // update the cache
        if let Some(cache) = &self.cache {
            cache.batch_put(&records).await;
        }

        // Write to the database
        self.tic_toc(
            METRIC_WRITE_TIME,
            self.db.batch_set(records, DbSetState::TransactionCommit),
        )
        .await?;
        self.increment_metric(METRIC_BATCH_SET);
        Ok(num_records as u64)
    }

    pub async fn get_user_state(
        &self,
        username: &AkdLabel,
        flag: ValueStateRetrievalFlag,
    ) -> Result<ValueState, StorageError> {
        let maybe_db_state = match self
            .tic_toc(METRIC_READ_TIME, self.db.get_user_state(username, flag))
            .await
        {
            Err(StorageError::NotFound(_)) => Ok(None),
            Ok(something) => Ok(Some(something)),
            Err(other) => Err(other),
        }?;
        self.increment_metric(METRIC_GET_USER_STATE);

        if self.is_transaction_active() {
            if let Some(transaction_value) = self.transaction.get_user_state(username, flag) {
                if let Some(db_value) = &maybe_db_state {
                    if let Some(record) = Self::compare_db_and_transaction_records(
                        db_value.epoch,
                        transaction_value,
                        flag,
                    ) {
                        return Ok(record);
                    }
                } else {
                    // no db record, but there is a transaction record so use that
                    return Ok(transaction_value);
                }
            }
        }

        if let Some(state) = maybe_db_state {
            Ok(state)
        } else {
            Err(StorageError::NotFound(vx_msg()))
        }
    }
}
}
fn main() {}
