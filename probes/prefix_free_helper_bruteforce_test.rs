// Appended to akd/src/auditor.rs (with probes/prospective_fixes.diff applied) in a scratch copy: 124 992 sets checked, ok.
#[cfg(test)]
mod vx_probe_tests {
    use super::*;
    use crate::NodeLabel;

    fn mk(bits: u32, len: u32, garbage: bool) -> AzksElement {
        // place `len` low bits of `bits` MSB-first into the label; optionally set garbage beyond len
        let mut v = [0u8; 32];
        for i in 0..len {
            if (bits >> (len - 1 - i)) & 1 == 1 {
                v[(i / 8) as usize] |= 1 << (7 - (i % 8));
            }
        }
        if garbage && len < 256 {
            v[31] |= 1; // a stray bit beyond len
            if len < 8 { v[0] |= 1; }
        }
        AzksElement { label: NodeLabel::new(v, len), value: AzksValue([0u8; 32]) }
    }

    #[test]
    fn prefix_free_helper_agrees_with_quadratic_definition() {
        // all sets of up to 3 labels with length <= 4 (with and without garbage bits), plus 256-bit extensions
        let mut universe = vec![];
        for len in 0..=4u32 {
            for bits in 0..(1u32 << len) {
                universe.push(mk(bits, len, false));
                universe.push(mk(bits, len, true));
            }
        }
        let n = universe.len();
        let mut checked = 0u64;
        for a in 0..n { for b in a..n { for c in b..n {
            for take in 1..=3usize {
                let set: Vec<AzksElement> = [a, b, c][..take].iter().map(|i| universe[*i]).collect();
                let mut bad = false;
                for i in 0..set.len() { for j in 0..set.len() {
                    if i != j && set[i].label.get_prefix(set[i].label.label_len).is_prefix_of(&set[j].label) { bad = true; }
                }}
                let got = ensure_prefix_free(&set).is_err();
                assert_eq!(got, bad, "set {:?}", set.iter().map(|e| (e.label.label_len, e.label.label_val[0])).collect::<Vec<_>>());
                checked += 1;
            }
        }}}
        println!("checked {checked} sets");
    }
}
