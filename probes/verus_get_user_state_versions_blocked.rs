use vstd::prelude::*;
use std::collections::HashMap;
verus! {

#[derive(Clone, PartialEq, Eq, Hash, Debug)]
pub struct AkdLabel(pub Vec<u8>);
#[derive(Clone, PartialEq, Eq, Hash, Debug)]
pub struct AkdValue(pub Vec<u8>);

#[derive(Clone, Debug)]
pub struct ValueState { pub value: AkdValue, pub version: u64, pub epoch: u64, pub username: AkdLabel }

#[derive(Clone, Copy, Debug)]
pub enum ValueStateRetrievalFlag { SpecificVersion(u64), SpecificEpoch(u64), LeqEpoch(u64), MaxEpoch, MinEpoch }

pub enum StorageError { NotFound(String), Other(String) }
type Metric = usize;
const METRIC_READ_TIME: Metric = 4;
const METRIC_GET_USER_STATE_VERSIONS: Metric = 9;

pub struct Transaction {}
impl Transaction {
    #[verifier::external_body]
    pub fn get_users_states(&self, usernames: &[AkdLabel], flag: ValueStateRetrievalFlag) -> HashMap<AkdLabel, ValueState> { unimplemented!() }
}
pub struct Db {}
impl Db {
    #[verifier::external_body]
    pub async fn get_user_state_versions(&self, usernames: &[AkdLabel], flag: ValueStateRetrievalFlag) -> Result<HashMap<AkdLabel, (u64, AkdValue)>, StorageError> { unimplemented!() }
}

pub struct StorageManager { pub transaction: Transaction, pub db: Db }

impl StorageManager {
    #[verifier::external_body]
    pub fn is_transaction_active(&self) -> bool { unimplemented!() }
    #[verifier::external_body]
    fn increment_metric(&self, _metric: Metric) {}
    #[verifier::external_body]
    async fn tic_toc<T>(&self, _metric: Metric, f: impl std::future::Future<Output = T>) -> T { f.await }

    #[verifier::external_body]
    fn compare_db_and_transaction_records(state_epoch: u64, transaction_value: ValueState, flag: ValueStateRetrievalFlag) -> Option<ValueState> { unimplemented!() }

    pub async fn get_user_state_versions(
        &self,
        usernames: &[AkdLabel],
        flag: ValueStateRetrievalFlag,
    ) -> Result<HashMap<AkdLabel, (u64, AkdValue)>, StorageError> {
        let mut data = self
            .tic_toc(
                METRIC_READ_TIME,
                self.db.get_user_state_versions(usernames, flag),
            )
            .await?;
        self.increment_metric(METRIC_GET_USER_STATE_VERSIONS);

        if self.is_transaction_active() {
            let transaction_records = self.transaction.get_users_states(usernames, flag);
            for (label, value_state) in transaction_records.into_iter() {
                if let Some((epoch, _)) = data.get(&label) {
                    if let Some(updated_record) =
                        Self::compare_db_and_transaction_records(*epoch, value_state, flag)
                    {
                        data.insert(label, (*epoch, updated_record.value));
                    }
                } else {
                    data.insert(label, (value_state.epoch, value_state.value));
                }
            }
        }

        Ok(data)
    }
}
}
fn main() {}
