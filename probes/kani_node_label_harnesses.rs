// Kani probe harnesses appended to akd_core/src/types/node_label/mod.rs in a scratch copy.
// get_prefix: SUCCESSFUL 1.06 s; cmp: SUCCESSFUL 0.72 s; (earlier) get_bit_at: SUCCESSFUL 0.5 s.
#[cfg(kani)]
mod kani_probe {
    use super::*;

    fn spec_bit(l: &NodeLabel, i: u32) -> u8 {
        (l.label_val[(i / 8) as usize] >> (7 - (i % 8))) & 1
    }

    #[kani::proof]
    fn probe_get_prefix_contract() {
        let l = NodeLabel { label_val: kani::any(), label_len: kani::any() };
        kani::assume(l.label_len <= 256);
        let n: u32 = kani::any();
        let r = l.get_prefix(n);
        if n >= 256 {
            assert!(r == l);
        } else if n == 0 {
            assert!(r == NodeLabel::root());
        } else if n <= l.label_len {
            assert!(r.label_len == n);
            let i: u32 = kani::any();
            kani::assume(i < 256);
            if i < n { assert!(spec_bit(&r, i) == spec_bit(&l, i)); } else { assert!(spec_bit(&r, i) == 0); }
        }
    }

    #[kani::proof]
    #[kani::unwind(34)]
    fn probe_cmp_contract() {
        let a = NodeLabel { label_val: kani::any(), label_len: kani::any() };
        let b = NodeLabel { label_val: kani::any(), label_len: kani::any() };
        let r = a.cmp(&b);
        // spec: lexicographic on (len, bytes), witnessed by a symbolic first-difference index
        if a.label_len != b.label_len {
            assert!(r == a.label_len.cmp(&b.label_len));
        } else {
            let k: usize = kani::any();
            kani::assume(k <= 32);
            // k = first differing byte (32 = none)
            let mut ok = true;
            let mut j = 0;
            while j < 32 { if j < k && a.label_val[j] != b.label_val[j] { ok = false; } j += 1; }
            kani::assume(ok);
            if k == 32 { assert!(r == core::cmp::Ordering::Equal); }
            else { kani::assume(a.label_val[k] != b.label_val[k]); assert!(r == a.label_val[k].cmp(&b.label_val[k])); }
        }
    }
}
