// Kani probe harnesses appended to akd_core/src/proto/mod.rs in a scratch copy (protobuf feature on).
// min-label round trip: SUCCESSFUL 3.5 s; NodeLabel <-> proto round trip: SUCCESSFUL 5.1 s with alloc::fmt::format stubbed (>20 min without).
#[cfg(kani)]
mod kani_probe {
    use super::*;

    #[kani::proof]
    #[kani::unwind(34)]
    fn probe_min_label_roundtrip() {
        let v: [u8; 32] = kani::any();
        let e = encode_minimum_label(&v);
        assert!(e.len() <= 32);
        let d = decode_minimized_label(&e);
        assert!(d == v);
    }

    fn stub_format(_a: core::fmt::Arguments<'_>) -> String { String::new() }

    #[kani::proof]
    #[kani::unwind(34)]
    #[kani::stub(alloc::fmt::format, stub_format)]
    fn probe_nodelabel_roundtrip() {
        let l = crate::NodeLabel { label_val: kani::any(), label_len: kani::any() };
        let p: specs::types::NodeLabel = (&l).into();
        let back: Result<crate::NodeLabel, ConversionError> = (&p).try_into();
        if l.label_len <= 256 {
            assert!(back.is_ok());
            assert!(back.unwrap() == l);
        } else {
            assert!(back.is_err());
        }
    }
}
