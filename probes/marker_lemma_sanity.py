SKIP=[1,2,4,16,256,65536,1<<32]
def log2(v): return v.bit_length()-1
def fmi(x):
    i=0
    while i<len(SKIP):
        if x<SKIP[i]: break
        i+=1
    return i-1
def gmv(s,e,E):
    past=[]
    idx=fmi(s)
    if SKIP[idx]!=s: past.append(SKIP[idx])
    p=1<<log2(s)
    if p!=s and (not past or p!=past[-1]): past.append(p)
    for i in reversed(range(s.bit_length())):
        sh=1<<i
        if s&sh:
            m=(sh-1)|sh
            pv=s&~m
            if pv!=0 and (not past or pv!=past[-1]): past.append(pv)
    fut=[]
    fv=e
    for i in range(e.bit_length()):
        sh=1<<i
        if e&sh==0:
            fv|=sh; fv&=~(sh-1)
            if fv<=E: fut.append(fv)
    ei=fmi(e); Ei=fmi(E)
    sl=SKIP[ei+1:Ei+1]
    for i in range(log2(e)+1, log2(E)+1):
        v=1<<i
        if sl and v>=sl[0]: break
        fut.append(v)
    fut+=sl
    return past,fut
assert gmv(85,85,65537)==([16,64,80,84],[86,88,96,128,256,65536])
assert gmv(6,12,256)==([4],[13,14,16,256])
N=48
bad1=0; bad3=[]
for E in range(1,N):
    for n in range(1,E+1):
        _,F=gmv(1,n,E); F=set(F)
        # sorted/unique checks
        for m in range(n+1,E+1):
            for s2 in range(1,m+1):
                P,_=gmv(s2,m,E)
                shown=set(P)|set(range(s2,m+1))
                if not (F & shown):
                    bad1+=1
                    if bad1<5: print("L1 FAIL",n,m,s2,E)
            # lookup m>n
            if not (F & {m, 1<<log2(m)}):
                if len(bad3)<10: bad3.append((n,m,E))
print("L1 failures:",bad1)
print("L3 failing examples:",bad3)
