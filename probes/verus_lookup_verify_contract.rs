use vstd::prelude::*;
use vstd::std_specs::bits::u64_leading_zeros;
verus! {

pub type Digest = [u8; 32];
#[derive(Debug, Clone, Copy, PartialEq, Eq)]
pub struct NodeLabel { pub label_val: [u8; 32], pub label_len: u32 }
#[derive(Debug, Clone, Copy, PartialEq, Eq)]
pub struct AzksValue(pub Digest);
#[derive(Debug, Clone, Copy, PartialEq, Eq)]
pub struct AzksValueWithEpoch(pub Digest);
#[derive(Debug, Clone, Copy, PartialEq, Eq)]
pub enum VersionFreshness { Stale = 0, Fresh = 1 }
pub struct AkdLabel(pub Vec<u8>);
pub struct AkdValue(pub Vec<u8>);
pub struct MembershipProof { pub label: NodeLabel, pub hash_val: AzksValue }
pub struct NonMembershipProof { pub label: NodeLabel }
pub struct LookupProof {
    pub epoch: u64, pub value: AkdValue, pub version: u64,
    pub existence_vrf_proof: Vec<u8>, pub existence_proof: MembershipProof,
    pub marker_vrf_proof: Vec<u8>, pub marker_proof: MembershipProof,
    pub freshness_vrf_proof: Vec<u8>, pub freshness_proof: NonMembershipProof,
    pub commitment_nonce: Vec<u8>,
}
pub struct VerifyResult { pub epoch: u64, pub version: u64, pub value: AkdValue }
pub enum VerificationError { LookupProof(String), MembershipProof(String), Other(String) }

pub trait Configuration {
    spec fn spec_leaf_value(value: Seq<u8>, epoch: u64, nonce: Seq<u8>) -> Digest;
    fn hash_leaf_with_value(value: &AkdValue, epoch: u64, nonce: &[u8]) -> (r: AzksValueWithEpoch)
        ensures r.0 == Self::spec_leaf_value(value.0@, epoch, nonce@);
}

pub uninterp spec fn exist_ok(pk: Seq<u8>, root: Digest, label: Seq<u8>, f: VersionFreshness, version: u64, vrf: Seq<u8>, mp: MembershipProof) -> bool;
pub uninterp spec fn nonexist_ok(pk: Seq<u8>, root: Digest, label: Seq<u8>, f: VersionFreshness, version: u64, vrf: Seq<u8>, nm: NonMembershipProof) -> bool;

#[verifier::external_body]
pub(crate) fn verify_existence<TC: Configuration>(vrf_public_key: &[u8], root_hash: Digest, akd_label: &AkdLabel, freshness: VersionFreshness, version: u64, vrf_proof: &[u8], membership_proof: &MembershipProof) -> (r: Result<(), VerificationError>)
    ensures r is Ok <==> exist_ok(vrf_public_key@, root_hash, akd_label.0@, freshness, version, vrf_proof@, *membership_proof)
{ unimplemented!() }

#[verifier::external_body]
pub(crate) fn verify_nonexistence<TC: Configuration>(vrf_public_key: &[u8], root_hash: Digest, akd_label: &AkdLabel, freshness: VersionFreshness, version: u64, vrf_proof: &[u8], nonmembership_proof: &NonMembershipProof) -> (r: Result<(), VerificationError>)
    ensures r is Ok <==> nonexist_ok(vrf_public_key@, root_hash, akd_label.0@, freshness, version, vrf_proof@, *nonmembership_proof)
{ unimplemented!() }

pub(crate) fn verify_existence_with_val<TC: Configuration>(
    vrf_public_key: &[u8],
    root_hash: Digest,
    akd_label: &AkdLabel,
    akd_value: &AkdValue,
    epoch: u64,
    commitment_nonce: &[u8],
    freshness: VersionFreshness,
    version: u64,
    vrf_proof: &[u8],
    membership_proof: &MembershipProof,
) -> (r: Result<(), VerificationError>)
    ensures r is Ok <==> (TC::spec_leaf_value(akd_value.0@, epoch, commitment_nonce@) == membership_proof.hash_val.0
        && exist_ok(vrf_public_key@, root_hash, akd_label.0@, freshness, version, vrf_proof@, *membership_proof))
{
    if TC::hash_leaf_with_value(akd_value, epoch, commitment_nonce).0 != membership_proof.hash_val.0
    {
        return Err(VerificationError::MembershipProof(
            "Hash of plaintext value did not match existence proof hash".to_string(),
        ));
    }
    verify_existence::<TC>(
        vrf_public_key,
        root_hash,
        akd_label,
        freshness,
        version,
        vrf_proof,
        membership_proof,
    )?;

    Ok(())
}

pub(crate) fn get_marker_version_log2(version: u64) -> (r: u64)
    requires version != 0
    ensures r < 64, r == 63 - u64_leading_zeros(version)
{
    assert!(
        version != 0,
        "get_marker_version_log2 called with version = 0"
    );
    64 - (version.leading_zeros() as u64) - 1
}

pub open spec fn plog(v: u64) -> u64 { 1u64 << ((63 - u64_leading_zeros(v)) as u64) }

pub fn lookup_verify<TC: Configuration>(
    vrf_public_key: &[u8],
    root_hash: Digest,
    current_epoch: u64,
    akd_label: AkdLabel,
    proof: LookupProof,
) -> (r: Result<VerifyResult, VerificationError>)
    requires proof.version >= 1
    ensures r is Ok ==> proof.version <= current_epoch
        && r->Ok_0.epoch == proof.epoch && r->Ok_0.version == proof.version && r->Ok_0.value.0@ == proof.value.0@
        && TC::spec_leaf_value(proof.value.0@, proof.epoch, proof.commitment_nonce@) == proof.existence_proof.hash_val.0
        && exist_ok(vrf_public_key@, root_hash, akd_label.0@, VersionFreshness::Fresh, proof.version, proof.existence_vrf_proof@, proof.existence_proof)
        && exist_ok(vrf_public_key@, root_hash, akd_label.0@, VersionFreshness::Fresh, plog(proof.version), proof.marker_vrf_proof@, proof.marker_proof)
        && nonexist_ok(vrf_public_key@, root_hash, akd_label.0@, VersionFreshness::Stale, proof.version, proof.freshness_vrf_proof@, proof.freshness_proof)
{
    if proof.version > current_epoch {
        return Err(VerificationError::LookupProof(alloc::format!(
            "Proof version {} is greater than current epoch {}",
            proof.version,
            current_epoch
        )));
    }

    verify_existence_with_val::<TC>(
        vrf_public_key,
        root_hash,
        &akd_label,
        &proof.value,
        proof.epoch,
        &proof.commitment_nonce,
        VersionFreshness::Fresh,
        proof.version,
        &proof.existence_vrf_proof,
        &proof.existence_proof,
    )?;

    let marker_version = 1 << get_marker_version_log2(proof.version);
    verify_existence::<TC>(
        vrf_public_key,
        root_hash,
        &akd_label,
        VersionFreshness::Fresh,
        marker_version,
        &proof.marker_vrf_proof,
        &proof.marker_proof,
    )?;

    verify_nonexistence::<TC>(
        vrf_public_key,
        root_hash,
        &akd_label,
        VersionFreshness::Stale,
        proof.version,
        &proof.freshness_vrf_proof,
        &proof.freshness_proof,
    )?;

    Ok(VerifyResult {
        epoch: proof.epoch,
        version: proof.version,
        value: proof.value,
    })
}
}
extern crate alloc;
fn main() {}
