use vstd::prelude::*;
verus! {
pub struct AkdLabel(pub Vec<u8>);
pub struct UpdateProof { pub epoch: u64, pub version: u64 }
pub struct HistoryProof {
    pub update_proofs: Vec<UpdateProof>,
    pub past_marker_vrf_proofs: Vec<Vec<u8>>,
    pub existence_of_past_marker_proofs: Vec<u64>,
    pub future_marker_vrf_proofs: Vec<Vec<u8>>,
    pub non_existence_of_future_marker_proofs: Vec<u64>,
}
#[derive(Copy, Clone)]
pub enum HistoryParams { Complete, MostRecent(usize) }
pub enum VerificationError { HistoryProof(String) }

#[verifier::external_body]
fn vx_msg() -> String { String::new() }

pub uninterp spec fn gmv_spec(s: u64, e: u64, ep: u64) -> (Seq<u64>, Seq<u64>);
#[verifier::external_body]
pub fn get_marker_versions(start_version: u64, end_version: u64, epoch: u64) -> (r: (Vec<u64>, Vec<u64>))
    requires 1 <= start_version <= end_version <= epoch
    ensures r.0@ == gmv_spec(start_version, end_version, epoch).0, r.1@ == gmv_spec(start_version, end_version, epoch).1
{ unimplemented!() }

pub open spec fn ver(p: &HistoryProof, k: int) -> u64 { p.update_proofs@[k].version }
pub open spec fn consecutive(p: &HistoryProof, upto: int) -> bool {
    forall|k: int| 1 <= k < upto ==> #[trigger] ver(p, k) + 1 == ver(p, k - 1)
}
pub proof fn lemma_consecutive(p: &HistoryProof, n: int, k: int)
    requires consecutive(p, n), 0 <= k < n
    ensures ver(p, k) + k == ver(p, 0)
    decreases k
{
    if k > 0 { lemma_consecutive(p, n, k - 1); assert(ver(p, k) + 1 == ver(p, k - 1)); }
}

fn verify_with_history_params(
    current_epoch: u64,
    akd_label: &AkdLabel,
    proof: &HistoryProof,
    params: HistoryParams,
) -> (r: Result<(Vec<u64>, Vec<u64>), VerificationError>)
    requires forall|k: int| 0 <= k < proof.update_proofs@.len() ==> #[trigger] ver(proof, k) < u64::MAX   // D8: overflow guard
    ensures r is Ok ==> ({
        let n = proof.update_proofs@.len() as int;
        &&& n >= 1                                                                       // E_nonempty
        &&& consecutive(proof, n)                                                        // E_consecutive
        &&& 1 <= ver(proof, n - 1)                                                       // E_start
        &&& ver(proof, 0) <= current_epoch                                               // E_end
        &&& (params is Complete ==> ver(proof, n - 1) == 1)                              // E_complete
        &&& (params is MostRecent ==> n <= params->MostRecent_0 && (n < params->MostRecent_0 ==> ver(proof, n - 1) == 1))   // E_recent
        &&& r->Ok_0.0@ == gmv_spec(ver(proof, n - 1), ver(proof, 0), current_epoch).0   // E_markers
        &&& r->Ok_0.1@ == gmv_spec(ver(proof, n - 1), ver(proof, 0), current_epoch).1
        &&& proof.past_marker_vrf_proofs@.len() == r->Ok_0.0@.len()                     // E_counts
        &&& proof.existence_of_past_marker_proofs@.len() == r->Ok_0.0@.len()
        &&& proof.future_marker_vrf_proofs@.len() == r->Ok_0.1@.len()
        &&& proof.non_existence_of_future_marker_proofs@.len() == r->Ok_0.1@.len()
    })
{
    let num_proofs = proof.update_proofs.len();

    // Make sure the update proofs are non-empty
    if num_proofs == 0 {
        return Err(VerificationError::HistoryProof(vx_msg()));
    }

    // Check that the sent proofs are for a contiguous sequence of decreasing versions
    for count in 1..num_proofs
        invariant
            num_proofs == proof.update_proofs@.len(), num_proofs >= 1,
            forall|k: int| 0 <= k < proof.update_proofs@.len() ==> #[trigger] ver(proof, k) < u64::MAX,
            consecutive(proof, count as int),
    {
        proof { assert(ver(proof, count as int) < u64::MAX); }
        // Make sure this proof is for a version 1 more than the previous one.
        let prev_version = proof.update_proofs[count - 1].version;
        let curr_version = proof.update_proofs[count].version;
        if curr_version + 1 != prev_version {
            return Err(VerificationError::HistoryProof(vx_msg()));
        }
    }

    let mut start_version = proof.update_proofs[0].version;
    let mut end_version = proof.update_proofs[0].version;
    proof { assert(consecutive(proof, num_proofs as int)); }
    for update_proof in it: proof.update_proofs.iter()
        invariant
            num_proofs == proof.update_proofs@.len(), num_proofs >= 1,
            consecutive(proof, num_proofs as int),
            it.index@ <= num_proofs,
            it.history@.len() == it.index@,
            forall|j: int| 0 <= j < it.index@ ==> *it.history@[j] == proof.update_proofs@[j],
            end_version == ver(proof, 0),
            start_version == (if it.index@ == 0 { ver(proof, 0) } else { ver(proof, it.index@ - 1) }),
    {
        proof {
            let k = it.index@;
            lemma_consecutive(proof, num_proofs as int, k);
            if k > 0 { lemma_consecutive(proof, num_proofs as int, k - 1); }
        }
        if update_proof.version < start_version {
            start_version = update_proof.version;
        }
        if update_proof.version > end_version {
            end_version = update_proof.version;
        }
    }

    proof {
        // AFTER-LOOP2 splice
        lemma_consecutive(proof, num_proofs as int, num_proofs as int - 1);
        assert(start_version == ver(proof, num_proofs as int - 1));
        assert(start_version <= end_version);
    }
    if start_version == 0 {
        return Err(VerificationError::HistoryProof(
            "Computed start version for the key history should be non-zero".to_string(),
        ));
    }

    if end_version > current_epoch {
        return Err(VerificationError::HistoryProof(
            "Computed end version for the key history should not exceed current epoch".to_string(),
        ));
    }

    match params {
        HistoryParams::Complete => {
            // Make sure the start version is 1
            if start_version != 1 {
                return Err(VerificationError::HistoryProof(vx_msg()));
            }
        }
        HistoryParams::MostRecent(recency) => {
            use core::cmp::Ordering;
            match num_proofs.cmp(&recency) {
                Ordering::Greater => {
                    return Err(VerificationError::HistoryProof(vx_msg()))
                }
                Ordering::Less => {
                    if start_version != 1 {
                        return Err(VerificationError::HistoryProof(vx_msg()));
                    }
                }
                Ordering::Equal => {}
            }
        }
    }

    let (past_marker_versions, future_marker_versions) =
        get_marker_versions(start_version, end_version, current_epoch);

    // Perform checks for expected number of past marker proofs
    if past_marker_versions.len() != proof.past_marker_vrf_proofs.len() {
        return Err(VerificationError::HistoryProof(vx_msg()));
    }
    if proof.past_marker_vrf_proofs.len() != proof.existence_of_past_marker_proofs.len() {
        return Err(VerificationError::HistoryProof(vx_msg()));
    }
    if future_marker_versions.len() != proof.future_marker_vrf_proofs.len() {
        return Err(VerificationError::HistoryProof(vx_msg()));
    }
    if proof.future_marker_vrf_proofs.len() != proof.non_existence_of_future_marker_proofs.len() {
        return Err(VerificationError::HistoryProof(vx_msg()));
    }

    Ok((past_marker_versions, future_marker_versions))
}
}
fn main() {}
