use vstd::prelude::*;
verus! {

#[derive(Clone, Copy, PartialEq, Eq, Debug)]
pub struct NodeLabel { pub label_val: [u8; 32], pub label_len: u32 }

#[derive(Clone, PartialEq, Eq, Debug)]
pub struct TreeNode { pub label: NodeLabel, pub last_epoch: u64, pub min_descendant_epoch: u64 }

#[derive(Clone, PartialEq, Eq, Debug)]
pub struct TreeNodeWithPreviousValue { pub label: NodeLabel, pub latest_node: TreeNode, pub previous_node: Option<TreeNode> }

pub struct NodeKey(pub NodeLabel);

pub enum StorageError { NotFound(String), Other(String) }

pub trait Database {}
pub struct StorageManager<S: Database> { pub s: S }

pub enum DbRecord { TreeNode(TreeNodeWithPreviousValue) }

impl<S: Database> StorageManager<S> {
    #[verifier::external_body]
    pub async fn set(&self, record: DbRecord) -> Result<(), StorageError> { unimplemented!() }
}

impl TreeNodeWithPreviousValue {
    #[verifier::external_body]
    pub(crate) async fn get_appropriate_tree_node_from_storage<S: Database>(
        storage: &StorageManager<S>,
        key: &NodeKey,
        target_epoch: u64,
    ) -> (r: Result<TreeNode, StorageError>)
        ensures r is Ok ==> r->Ok_0.last_epoch <= target_epoch
    { unimplemented!() }

    pub(crate) async fn write_to_storage<S: Database>(
        &self,
        storage: &StorageManager<S>,
    ) -> Result<(), StorageError> {
        storage.set(DbRecord::TreeNode(self.clone())).await
    }
}

impl TreeNode {
    pub(crate) async fn write_to_storage<S: Database>(
        &self,
        storage: &StorageManager<S>,
        is_new: bool,
    ) -> Result<(), StorageError> {
        let target_epoch = match self.last_epoch {
            e if e > 0 => e - 1,
            other => other,
        };

        // previous value of a new node is None
        let previous = if is_new {
            None
        } else {
            match TreeNodeWithPreviousValue::get_appropriate_tree_node_from_storage(
                storage,
                &NodeKey(self.label),
                target_epoch,
            )
            .await
            {
                Ok(p) => Some(p),
                Err(StorageError::NotFound(_)) => None,
                Err(other) => return Err(other),
            }
        };

        // construct the "new" record, shifting the most recent stored value into the "previous" field
        let left_shifted = TreeNodeWithPreviousValue {
            label: self.label,
            latest_node: self.clone(),
            previous_node: previous,
        };
        assert(left_shifted.previous_node is Some ==> left_shifted.previous_node->Some_0.last_epoch <= self.last_epoch);

        // write this updated tuple record back to storage
        left_shifted.write_to_storage(storage).await
    }
}

}
fn main() {}
