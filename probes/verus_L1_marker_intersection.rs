// Feasibility probe for DESIGN.md §5 C08, lemma L1 (history vs history), at spec level.
// Everything is phrased over power-of-two masks p = 2^i instead of bit indices so that
// every arithmetic fact is a quantifier-free 64-bit bit-vector formula.
//   verus verus_L1_marker_intersection.rs
use vstd::prelude::*;
verus! {

pub open spec fn pow2(p: u64) -> bool { p != 0 && p & sub(p, 1) == 0 }
pub open spec fn mask_le(p: u64) -> u64 { sub(p, 1) | p }          // bits at or below p
pub open spec fn above(x: u64, p: u64) -> u64 { x & !mask_le(p) }   // bits strictly above p

// highest set bit of d (0 for d == 0): clear the lowest set bit until one remains
pub open spec fn hb(d: u64) -> u64
    decreases d
{
    if d == 0 { 0 } else if d & sub(d, 1) == 0 { d } else {
        if (d & sub(d, 1)) < d { hb(d & sub(d, 1)) } else { 0 }
    }
}

pub open spec fn is_sk(x: u64) -> bool {
    x == 1 || x == 2 || x == 4 || x == 16 || x == 256 || x == 65536 || x == 0x1_0000_0000
}
// smallest skiplist element > n (0 if none)
pub open spec fn kmin(n: u64) -> u64 {
    if n < 1 { 1 } else if n < 2 { 2 } else if n < 4 { 4 } else if n < 16 { 16 }
    else if n < 256 { 256 } else if n < 65536 { 65536 } else if n < 0x1_0000_0000 { 0x1_0000_0000 } else { 0 }
}
// largest skiplist element <= s (s >= 1)
pub open spec fn lmax(s: u64) -> u64 {
    if s >= 0x1_0000_0000 { 0x1_0000_0000 } else if s >= 65536 { 65536 } else if s >= 256 { 256 }
    else if s >= 16 { 16 } else if s >= 4 { 4 } else if s >= 2 { 2 } else { 1 }
}

pub open spec fn fut_a(x: u64, n: u64, p: u64) -> bool {
    pow2(p) && n & p == 0 && p <= n && x == (n | p) & !sub(p, 1)
}
pub open spec fn in_fut(x: u64, n: u64, e: u64) -> bool {
    n < x && x <= e && (
        (exists|p: u64| fut_a(x, n, p))
        || (pow2(x) && !(kmin(n) != 0 && kmin(n) <= e && x >= kmin(n)))
        || is_sk(x))
}
pub open spec fn past_c(x: u64, s: u64, p: u64) -> bool {
    pow2(p) && s & p != 0 && x == above(s, p) && x != 0
}
pub open spec fn in_past(x: u64, s: u64) -> bool {
    (x == lmax(s) && x != s) || (x == hb(s) && x != s) || (exists|p: u64| past_c(x, s, p))
}

// ---- facts about hb ---------------------------------------------------------------------
pub proof fn lemma_hb(d: u64)
    requires d != 0
    ensures pow2(hb(d)), d & hb(d) != 0, above(d, hb(d)) == 0, hb(d) <= d
    decreases d
{
    let e = d & sub(d, 1);
    if e == 0 {
        assert(hb(d) == d);
        assert(d & d != 0 && (d & !(sub(d, 1) | d)) == 0) by(bit_vector) requires d != 0;
    } else {
        assert(e < d && e != 0) by(bit_vector) requires e == d & sub(d, 1), e != 0;
        lemma_hb(e);
        let p = hb(e);
        assert(hb(d) == p);
        assert(d & p != 0 && (d & !(sub(p, 1) | p)) == 0 && p <= d) by(bit_vector)
            requires e == d & sub(d, 1), e != 0, p != 0, p & sub(p, 1) == 0, e & p != 0,
                     (e & !(sub(p, 1) | p)) == 0, p <= e;
    }
}

// ---- L1 -----------------------------------------------------------------------------------
pub proof fn lemma_l1(n: u64, m: u64, sp: u64, e: u64)
    requires 1 <= n, n < m, m <= e, 1 <= sp, sp <= m
    ensures exists|x: u64| #[trigger] in_fut(x, n, e) && ((sp <= x && x <= m) || in_past(x, sp))
{
    if sp <= n {
        // witness n + 1
        let x = add(n, 1);
        let p = !n & x;   // lowest zero bit of n
        assert(x == n + 1 && pow2(p) && n & p == 0 && x == (n | p) & !sub(p, 1)
               && (p > n ==> pow2(x))) by(bit_vector)
            requires n < 0xffff_ffff_ffff_ffffu64, x == add(n, 1), p == !n & x;
        if p <= n {
            assert(fut_a(x, n, p));
        } else {
            // n is all ones: n + 1 is a power of two, either below kmin(n) or equal to it
            assert(pow2(x));
            if kmin(n) != 0 && kmin(n) <= e && x >= kmin(n) {
                assert(x == kmin(n));
                assert(is_sk(x));
            }
        }
        assert(in_fut(x, n, e));
        assert(sp <= x && x <= m);
    } else {
        // n < sp: p = highest bit in which they differ
        let d = n ^ sp;
        assert(d != 0) by(bit_vector) requires d == n ^ sp, n < sp;
        lemma_hb(d);
        let p = hb(d);
        assert(sp & p != 0 && n & p == 0 && above(n, p) == above(sp, p)) by(bit_vector)
            requires d == n ^ sp, n < sp, p != 0, p & sub(p, 1) == 0, d & p != 0,
                     (d & !(sub(p, 1) | p)) == 0;
        if p <= n {
            // round n up at its zero bit p: lands on sp with the bits below p cleared
            let x = (n | p) & !sub(p, 1);
            assert(fut_a(x, n, p));
            assert(x == sp & !sub(p, 1) && n < x && x <= sp) by(bit_vector)
                requires x == (n | p) & !sub(p, 1), p != 0, p & sub(p, 1) == 0, sp & p != 0,
                         n & p == 0, (n & !(sub(p, 1) | p)) == (sp & !(sub(p, 1) | p));
            assert(in_fut(x, n, e));
            let low = sp & sub(p, 1);
            if low == 0 {
                assert(x == sp) by(bit_vector) requires x == sp & !sub(p, 1), low == sp & sub(p, 1), low == 0;
            } else {
                lemma_hb(low);
                let q = hb(low);
                assert(sp & q != 0 && above(sp, q) == x && x != 0) by(bit_vector)
                    requires x == sp & !sub(p, 1), low == sp & sub(p, 1), p != 0, p & sub(p, 1) == 0,
                             sp & p != 0, q != 0, q & sub(q, 1) == 0, low & q != 0,
                             (low & !(sub(q, 1) | q)) == 0;
                assert(past_c(x, sp, q));
                assert(in_past(x, sp));
            }
        } else {
            // sp has more bits than n: p is the top bit of sp
            assert(above(sp, p) == 0 && p <= sp) by(bit_vector)
                requires p > n, p != 0, p & sub(p, 1) == 0, sp & p != 0,
                         (n & !(sub(p, 1) | p)) == (sp & !(sub(p, 1) | p));
            lemma_hb(sp);
            let h = hb(sp);
            assert(h == p) by(bit_vector)
                requires p != 0, p & sub(p, 1) == 0, sp & p != 0, (sp & !(sub(p, 1) | p)) == 0,
                         h != 0, h & sub(h, 1) == 0, sp & h != 0,
                         (sp & !(sub(h, 1) | h)) == 0;
            let k = kmin(n);
            if k != 0 && k <= e && p >= k {
                let x = lmax(sp);
                assert(is_sk(x) && n < x && x <= sp);
                assert(in_fut(x, n, e));
                if x != sp { assert(in_past(x, sp)); }
            } else {
                let x = p;
                assert(in_fut(x, n, e));
                if x != sp { assert(in_past(x, sp)); }
            }
        }
    }
}

} // verus!
fn main() {}
