use vstd::prelude::*;
use vstd::std_specs::cmp::*;
use std::cmp::{max, min};
verus! {
pub assume_specification<T: core::cmp::Ord>[ core::cmp::max::<T> ](a: T, b: T) -> (r: T)
    ensures T::obeys_cmp_spec() ==> r == (if b.cmp_spec(&a) == core::cmp::Ordering::Less { a } else { b });
pub assume_specification<T: core::cmp::Ord>[ core::cmp::min::<T> ](a: T, b: T) -> (r: T)
    ensures T::obeys_cmp_spec() ==> r == (if b.cmp_spec(&a) == core::cmp::Ordering::Less { b } else { a });
fn f(a: u64, b: u64) -> (r: (u64, u64))
    ensures r.0 == (if a >= b { a } else { b }), r.1 == (if a <= b { a } else { b })
{ (max(a, b), min(a, b)) }
}
fn main() {}
