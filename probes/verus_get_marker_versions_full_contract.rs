use vstd::prelude::*;
use vstd::std_specs::bits::*;
verus! {

// ------------------------------------------------------------------ spec vocabulary (as in the L1 probe)
pub open spec fn pow2(p: u64) -> bool { p != 0 && p & sub(p, 1) == 0 }
pub open spec fn mask_le(p: u64) -> u64 { sub(p, 1) | p }
pub open spec fn above(x: u64, p: u64) -> u64 { x & !mask_le(p) }
pub open spec fn rnd(n: u64, p: u64) -> u64 { (n | p) & !sub(p, 1) }
pub open spec fn is_sk(x: u64) -> bool {
    x == 1 || x == 2 || x == 4 || x == 16 || x == 256 || x == 65536 || x == 0x1_0000_0000
}
pub open spec fn kmin(n: u64) -> u64 {
    if n < 1 { 1 } else if n < 2 { 2 } else if n < 4 { 4 } else if n < 16 { 16 }
    else if n < 256 { 256 } else if n < 65536 { 65536 } else if n < 0x1_0000_0000 { 0x1_0000_0000 } else { 0 }
}
pub open spec fn fut_a(x: u64, n: u64, p: u64) -> bool {
    pow2(p) && n & p == 0 && p <= n && x == rnd(n, p)
}
pub open spec fn in_fut(x: u64, n: u64, e: u64) -> bool {
    n < x && x <= e && (
        (exists|p: u64| fut_a(x, n, p))
        || (pow2(x) && !(kmin(n) != 0 && kmin(n) <= e && x >= kmin(n)))
        || is_sk(x))
}
pub open spec fn sk(i: int) -> u64 {
    if i == 0 { 1 } else if i == 1 { 2 } else if i == 2 { 4 } else if i == 3 { 16 }
    else if i == 4 { 256 } else if i == 5 { 65536 } else { 0x1_0000_0000 }
}

// ------------------------------------------------------------------ bridge lemmas
pub proof fn lemma_lz_pow2(n: u64, j: u64)
    requires n >= 1, j < 64
    ensures u64_leading_zeros(n) <= 63,
            ((1u64 << j) <= n) <==> (j + u64_leading_zeros(n) < 64)
    decreases n
{
    reveal(u64_leading_zeros);
    if n == 1 {
        assert(u64_leading_zeros(0) == 64);
        assert(1u64 / 2 == 0);
        assert(u64_leading_zeros(1) == 63);
        assert(((1u64 << j) <= 1u64) <==> j == 0) by(bit_vector) requires j < 64;
    } else {
        let h = n / 2;
        lemma_lz_pow2(h, 0);
        if j == 0 {
            assert((1u64 << 0u64) <= n) by(bit_vector) requires n >= 1;
        } else {
            let j1 = (j - 1) as u64;
            lemma_lz_pow2(h, j1);
            assert(((1u64 << j) <= n) <==> ((1u64 << j1) <= h)) by(bit_vector)
                requires j >= 1, j < 64, j1 == sub(j, 1), h == n / 2;
        }
    }
}

// every power of two is 1 << j for some j < 64
pub proof fn lemma_pow2_index(p: u64) -> (j: u64)
    requires pow2(p)
    ensures j < 64, p == 1u64 << j
{
    let j = choose|j: u64| j < 64 && p == 1u64 << j;
    assert(exists|j: u64| j < 64 && p == 1u64 << j) by {
        assert(p != 0 && p & sub(p, 1) == 0 ==>
            p == 1u64 << 0u64 || p == 1u64 << 1u64 || p == 1u64 << 2u64 || p == 1u64 << 3u64 || p == 1u64 << 4u64 || p == 1u64 << 5u64 || p == 1u64 << 6u64 || p == 1u64 << 7u64
         || p == 1u64 << 8u64 || p == 1u64 << 9u64 || p == 1u64 << 10u64 || p == 1u64 << 11u64 || p == 1u64 << 12u64 || p == 1u64 << 13u64 || p == 1u64 << 14u64 || p == 1u64 << 15u64
         || p == 1u64 << 16u64 || p == 1u64 << 17u64 || p == 1u64 << 18u64 || p == 1u64 << 19u64 || p == 1u64 << 20u64 || p == 1u64 << 21u64 || p == 1u64 << 22u64 || p == 1u64 << 23u64
         || p == 1u64 << 24u64 || p == 1u64 << 25u64 || p == 1u64 << 26u64 || p == 1u64 << 27u64 || p == 1u64 << 28u64 || p == 1u64 << 29u64 || p == 1u64 << 30u64 || p == 1u64 << 31u64
         || p == 1u64 << 32u64 || p == 1u64 << 33u64 || p == 1u64 << 34u64 || p == 1u64 << 35u64 || p == 1u64 << 36u64 || p == 1u64 << 37u64 || p == 1u64 << 38u64 || p == 1u64 << 39u64
         || p == 1u64 << 40u64 || p == 1u64 << 41u64 || p == 1u64 << 42u64 || p == 1u64 << 43u64 || p == 1u64 << 44u64 || p == 1u64 << 45u64 || p == 1u64 << 46u64 || p == 1u64 << 47u64
         || p == 1u64 << 48u64 || p == 1u64 << 49u64 || p == 1u64 << 50u64 || p == 1u64 << 51u64 || p == 1u64 << 52u64 || p == 1u64 << 53u64 || p == 1u64 << 54u64 || p == 1u64 << 55u64
         || p == 1u64 << 56u64 || p == 1u64 << 57u64 || p == 1u64 << 58u64 || p == 1u64 << 59u64 || p == 1u64 << 60u64 || p == 1u64 << 61u64 || p == 1u64 << 62u64 || p == 1u64 << 63u64)
            by(bit_vector);
        let w = if p == 1u64 << 0u64 { 0u64 } else { 64u64 };
        // pick the disjunct
        assert(exists|j: u64| j < 64 && p == 1u64 << j) by {
            if p == 1u64 << 0u64 { assert(0u64 < 64 && p == 1u64 << 0u64); }
            else if p == 1u64 << 1u64 { assert(1u64 < 64 && p == 1u64 << 1u64); }
            else if p == 1u64 << 2u64 { assert(2u64 < 64 && p == 1u64 << 2u64); }
            else if p == 1u64 << 3u64 { assert(3u64 < 64 && p == 1u64 << 3u64); }
            else if p == 1u64 << 4u64 { assert(4u64 < 64 && p == 1u64 << 4u64); }
            else if p == 1u64 << 5u64 { assert(5u64 < 64 && p == 1u64 << 5u64); }
            else if p == 1u64 << 6u64 { assert(6u64 < 64 && p == 1u64 << 6u64); }
            else if p == 1u64 << 7u64 { assert(7u64 < 64 && p == 1u64 << 7u64); }
            else if p == 1u64 << 8u64 { assert(8u64 < 64 && p == 1u64 << 8u64); }
            else if p == 1u64 << 9u64 { assert(9u64 < 64 && p == 1u64 << 9u64); }
            else if p == 1u64 << 10u64 { assert(10u64 < 64 && p == 1u64 << 10u64); }
            else if p == 1u64 << 11u64 { assert(11u64 < 64 && p == 1u64 << 11u64); }
            else if p == 1u64 << 12u64 { assert(12u64 < 64 && p == 1u64 << 12u64); }
            else if p == 1u64 << 13u64 { assert(13u64 < 64 && p == 1u64 << 13u64); }
            else if p == 1u64 << 14u64 { assert(14u64 < 64 && p == 1u64 << 14u64); }
            else if p == 1u64 << 15u64 { assert(15u64 < 64 && p == 1u64 << 15u64); }
            else if p == 1u64 << 16u64 { assert(16u64 < 64 && p == 1u64 << 16u64); }
            else if p == 1u64 << 17u64 { assert(17u64 < 64 && p == 1u64 << 17u64); }
            else if p == 1u64 << 18u64 { assert(18u64 < 64 && p == 1u64 << 18u64); }
            else if p == 1u64 << 19u64 { assert(19u64 < 64 && p == 1u64 << 19u64); }
            else if p == 1u64 << 20u64 { assert(20u64 < 64 && p == 1u64 << 20u64); }
            else if p == 1u64 << 21u64 { assert(21u64 < 64 && p == 1u64 << 21u64); }
            else if p == 1u64 << 22u64 { assert(22u64 < 64 && p == 1u64 << 22u64); }
            else if p == 1u64 << 23u64 { assert(23u64 < 64 && p == 1u64 << 23u64); }
            else if p == 1u64 << 24u64 { assert(24u64 < 64 && p == 1u64 << 24u64); }
            else if p == 1u64 << 25u64 { assert(25u64 < 64 && p == 1u64 << 25u64); }
            else if p == 1u64 << 26u64 { assert(26u64 < 64 && p == 1u64 << 26u64); }
            else if p == 1u64 << 27u64 { assert(27u64 < 64 && p == 1u64 << 27u64); }
            else if p == 1u64 << 28u64 { assert(28u64 < 64 && p == 1u64 << 28u64); }
            else if p == 1u64 << 29u64 { assert(29u64 < 64 && p == 1u64 << 29u64); }
            else if p == 1u64 << 30u64 { assert(30u64 < 64 && p == 1u64 << 30u64); }
            else if p == 1u64 << 31u64 { assert(31u64 < 64 && p == 1u64 << 31u64); }
            else if p == 1u64 << 32u64 { assert(32u64 < 64 && p == 1u64 << 32u64); }
            else if p == 1u64 << 33u64 { assert(33u64 < 64 && p == 1u64 << 33u64); }
            else if p == 1u64 << 34u64 { assert(34u64 < 64 && p == 1u64 << 34u64); }
            else if p == 1u64 << 35u64 { assert(35u64 < 64 && p == 1u64 << 35u64); }
            else if p == 1u64 << 36u64 { assert(36u64 < 64 && p == 1u64 << 36u64); }
            else if p == 1u64 << 37u64 { assert(37u64 < 64 && p == 1u64 << 37u64); }
            else if p == 1u64 << 38u64 { assert(38u64 < 64 && p == 1u64 << 38u64); }
            else if p == 1u64 << 39u64 { assert(39u64 < 64 && p == 1u64 << 39u64); }
            else if p == 1u64 << 40u64 { assert(40u64 < 64 && p == 1u64 << 40u64); }
            else if p == 1u64 << 41u64 { assert(41u64 < 64 && p == 1u64 << 41u64); }
            else if p == 1u64 << 42u64 { assert(42u64 < 64 && p == 1u64 << 42u64); }
            else if p == 1u64 << 43u64 { assert(43u64 < 64 && p == 1u64 << 43u64); }
            else if p == 1u64 << 44u64 { assert(44u64 < 64 && p == 1u64 << 44u64); }
            else if p == 1u64 << 45u64 { assert(45u64 < 64 && p == 1u64 << 45u64); }
            else if p == 1u64 << 46u64 { assert(46u64 < 64 && p == 1u64 << 46u64); }
            else if p == 1u64 << 47u64 { assert(47u64 < 64 && p == 1u64 << 47u64); }
            else if p == 1u64 << 48u64 { assert(48u64 < 64 && p == 1u64 << 48u64); }
            else if p == 1u64 << 49u64 { assert(49u64 < 64 && p == 1u64 << 49u64); }
            else if p == 1u64 << 50u64 { assert(50u64 < 64 && p == 1u64 << 50u64); }
            else if p == 1u64 << 51u64 { assert(51u64 < 64 && p == 1u64 << 51u64); }
            else if p == 1u64 << 52u64 { assert(52u64 < 64 && p == 1u64 << 52u64); }
            else if p == 1u64 << 53u64 { assert(53u64 < 64 && p == 1u64 << 53u64); }
            else if p == 1u64 << 54u64 { assert(54u64 < 64 && p == 1u64 << 54u64); }
            else if p == 1u64 << 55u64 { assert(55u64 < 64 && p == 1u64 << 55u64); }
            else if p == 1u64 << 56u64 { assert(56u64 < 64 && p == 1u64 << 56u64); }
            else if p == 1u64 << 57u64 { assert(57u64 < 64 && p == 1u64 << 57u64); }
            else if p == 1u64 << 58u64 { assert(58u64 < 64 && p == 1u64 << 58u64); }
            else if p == 1u64 << 59u64 { assert(59u64 < 64 && p == 1u64 << 59u64); }
            else if p == 1u64 << 60u64 { assert(60u64 < 64 && p == 1u64 << 60u64); }
            else if p == 1u64 << 61u64 { assert(61u64 < 64 && p == 1u64 << 61u64); }
            else if p == 1u64 << 62u64 { assert(62u64 < 64 && p == 1u64 << 62u64); }
            else { assert(63u64 < 64 && p == 1u64 << 63u64); }
        }
    }
    j
}



pub open spec fn hb(d: u64) -> u64
    decreases d
{
    if d == 0 { 0 } else if d & sub(d, 1) == 0 { d } else {
        if (d & sub(d, 1)) < d { hb(d & sub(d, 1)) } else { 0 }
    }
}
pub open spec fn lmax(s: u64) -> u64 {
    if s >= 0x1_0000_0000 { 0x1_0000_0000 } else if s >= 65536 { 65536 } else if s >= 256 { 256 }
    else if s >= 16 { 16 } else if s >= 4 { 4 } else if s >= 2 { 2 } else { 1 }
}
pub open spec fn past_c(x: u64, s: u64, p: u64) -> bool {
    pow2(p) && s & p != 0 && x == above(s, p) && x != 0
}
pub open spec fn in_past(x: u64, s: u64) -> bool {
    (x == lmax(s) && x != s) || (x == hb(s) && x != s) || (exists|p: u64| past_c(x, s, p))
}
pub proof fn lemma_hb(d: u64)
    requires d != 0
    ensures pow2(hb(d)), d & hb(d) != 0, above(d, hb(d)) == 0, hb(d) <= d
    decreases d
{
    let e = d & sub(d, 1);
    if e == 0 {
        assert(hb(d) == d);
        assert(d & d != 0 && (d & !(sub(d, 1) | d)) == 0) by(bit_vector) requires d != 0;
    } else {
        assert(e < d && e != 0) by(bit_vector) requires e == d & sub(d, 1), e != 0;
        lemma_hb(e);
        let p = hb(e);
        assert(hb(d) == p);
        assert(d & p != 0 && (d & !(sub(p, 1) | p)) == 0 && p <= d) by(bit_vector)
            requires e == d & sub(d, 1), e != 0, p != 0, p & sub(p, 1) == 0, e & p != 0,
                     (e & !(sub(p, 1) | p)) == 0, p <= e;
    }
}
// hb(s) is the power of two the code computes as 1 << (63 - leading_zeros(s))
pub proof fn lemma_hb_log2(s: u64)
    requires s >= 1
    ensures u64_leading_zeros(s) <= 63, hb(s) == 1u64 << ((63 - u64_leading_zeros(s)) as u64)
{
    lemma_hb(s);
    let p = hb(s);
    let j = lemma_pow2_index(p);
    lemma_lz_pow2(s, j);
    let l = (63 - u64_leading_zeros(s)) as u64;
    lemma_lz_pow2(s, l);
    assert((1u64 << l) <= s);
    if j < l {
        assert(s < (1u64 << l)) by(bit_vector)
            requires p == 1u64 << j, j < l, l < 64u64, (s & !(sub(p, 1) | p)) == 0;
    }
    assert(j == l);
}

// ------------------------------------------------------------------ exec code (verbatim bodies, spliced contracts)
const MARKER_VERSION_SKIPLIST: [u64; 7] = [1, 1 << 1, 1 << 2, 1 << 4, 1 << 8, 1 << 16, 1 << 32];

proof fn lemma_sk_const()
    ensures forall|i: int| 0 <= i < 7 ==> #[trigger] MARKER_VERSION_SKIPLIST[i] == sk(i)
{
    assert(MARKER_VERSION_SKIPLIST[0] == 1 && MARKER_VERSION_SKIPLIST[1] == 2 && MARKER_VERSION_SKIPLIST[2] == 4
        && MARKER_VERSION_SKIPLIST[3] == 16 && MARKER_VERSION_SKIPLIST[4] == 256 && MARKER_VERSION_SKIPLIST[5] == 65536
        && MARKER_VERSION_SKIPLIST[6] == 0x1_0000_0000) by(compute_only);
}

pub(crate) fn get_marker_version_log2(version: u64) -> (r: u64)
    requires version != 0
    ensures r < 64, r == 63 - u64_leading_zeros(version)
{
    assert!(
        version != 0,
        "get_marker_version_log2 called with version = 0"
    );
    64 - (version.leading_zeros() as u64) - 1
}

fn get_bit_length(input: u64) -> (r: u64)
    ensures r == 64 - u64_leading_zeros(input), r <= 64
{
    let leading_zeros = input.leading_zeros() as u64;
    if leading_zeros > 64 {
        panic!("get_bit_length input has more than 64 leading zeros");
    }
    64 - leading_zeros
}

fn find_max_index_in_skiplist(input: u64) -> (r: usize)
    requires input >= 1
    ensures r < 7, sk(r as int) <= input, r < 6 ==> input < sk(r as int + 1)
{
    proof { lemma_sk_const(); }
    if input < MARKER_VERSION_SKIPLIST[0] {
        panic!("find_max_index_in_skiplist called with input less than smallest element of MARKER_VERSION_SKIPLIST");
    }
    let mut i = 0;
    while i < MARKER_VERSION_SKIPLIST.len()
        invariant
            0 <= i <= 7,
            forall|k: int| 0 <= k < 7 ==> #[trigger] MARKER_VERSION_SKIPLIST[k] == sk(k),
            forall|k: int| 0 <= k < i ==> sk(k) <= input,
            input >= 1,
        ensures
            0 <= i <= 7, i >= 1,
            forall|k: int| 0 <= k < i ==> sk(k) <= input,
            i < 7 ==> input < sk(i as int),
        decreases 7 - i
    {
        if input < MARKER_VERSION_SKIPLIST[i] {
            assert(i >= 1) by { if i == 0 { assert(sk(0) == 1); } }
            break;
        }
        i += 1;
    }
    i - 1
}


pub open spec fn contains_all(v: Seq<u64>, w: Seq<u64>) -> bool { forall|x: u64| #[trigger] v.contains(x) ==> w.contains(x) }

pub fn get_marker_versions(
    start_version: u64,
    end_version: u64,
    epoch: u64,
) -> (r: (Vec<u64>, Vec<u64>))
    requires 1 <= start_version <= end_version <= epoch
    ensures forall|x: u64| in_fut(x, end_version, epoch) ==> r.1@.contains(x),      // E_future  [C08]
            forall|x: u64| in_past(x, start_version) ==> r.0@.contains(x),            // E_past    [C08]
{
    proof { lemma_sk_const(); }
    // Compute past marker versions
    let mut past_marker_versions: Vec<u64> = Vec::new();

    let skiplist_past_index: usize = find_max_index_in_skiplist(start_version);
    if MARKER_VERSION_SKIPLIST[skiplist_past_index] != start_version {
        past_marker_versions.push(MARKER_VERSION_SKIPLIST[skiplist_past_index]);
    }
    let start_version_log2 = 1 << get_marker_version_log2(start_version);
    if start_version_log2 != start_version
        && (past_marker_versions.is_empty()
            || start_version_log2 != past_marker_versions[past_marker_versions.len() - 1])
    {
        past_marker_versions.push(start_version_log2);
    }

    let ghost p0 = past_marker_versions@;
    proof {
        // AFTER-IF2 splice: the two leading markers are in place
        lemma_hb_log2(start_version);
        assert(sk(skiplist_past_index as int) == lmax(start_version));
        assert(lmax(start_version) != start_version ==> p0.contains(lmax(start_version))) by {
            if lmax(start_version) != start_version { assert(p0[0] == lmax(start_version)); }
        }
        assert(hb(start_version) != start_version ==> p0.contains(hb(start_version))) by {
            if hb(start_version) != start_version {
                assert(p0[p0.len() - 1] == hb(start_version));
            }
        }
    }
    let start_version_length = get_bit_length(start_version);
    for i in it: (0..start_version_length).rev()
        invariant
            start_version_length <= 64,
            start_version_length == 64 - u64_leading_zeros(start_version),
            it.index@ <= start_version_length,
            contains_all(p0, past_marker_versions@),
            forall|j: u64| start_version_length - it.index@ <= j < start_version_length
                && (start_version & (1u64 << j)) != 0 && above(start_version, 1u64 << j) != 0
                ==> past_marker_versions@.contains(#[trigger] above(start_version, 1u64 << j)),
    {
        proof {
            assert(i < 64);
            assert(i == start_version_length - 1 - it.index@);
            assert((1u64 << i) >= 1u64) by(bit_vector) requires i < 64u64;
        }
        let ghost before = past_marker_versions@;
        let shift = 1 << i;
        // Check if the bit of start_version at position i is 1
        if start_version & shift != 0 {
            let shift_mask = (shift - 1) | shift;
            let past_version = start_version & !shift_mask;
            if past_version != 0
                && (past_marker_versions.is_empty()
                    || past_version != past_marker_versions[past_marker_versions.len() - 1])
            {
                past_marker_versions.push(past_version);
            }
        }
        proof {
            // BODY-END splice
            let now = past_marker_versions@;
            assert(now == before || now == before.push(above(start_version, 1u64 << i)));
            assert forall|x: u64| #[trigger] before.contains(x) implies now.contains(x) by {
                let k = choose|k: int| 0 <= k < before.len() && before[k] == x;
                assert(now[k] == x);
            }
            assert forall|j: u64| start_version_length - (it.index@ + 1) <= j < start_version_length
                && (start_version & (1u64 << j)) != 0 && above(start_version, 1u64 << j) != 0
                implies now.contains(#[trigger] above(start_version, 1u64 << j)) by {
                if j == i {
                    if now == before {
                        // not pushed: it equals the last element
                        assert(before.len() > 0 && before[before.len() - 1] == above(start_version, 1u64 << i));
                    } else {
                        assert(now[before.len() as int] == above(start_version, 1u64 << i));
                    }
                } else {
                    assert(before.contains(above(start_version, 1u64 << j)));
                }
            }
        }
    }
    let ghost p1 = past_marker_versions@;

    // Compute future marker versions
    let mut future_marker_versions: Vec<u64> = Vec::new();

    let end_version_length = get_bit_length(end_version);
    let mut future_version: u64 = end_version;
    for i in 0..end_version_length
        invariant
            end_version_length == 64 - u64_leading_zeros(end_version),
            end_version_length <= 64,
            i < 64 ==> future_version >> i == end_version >> i,
            // completeness so far
            forall|j: u64| j < i && (end_version & (1u64 << j)) == 0 && rnd(end_version, 1u64 << j) <= epoch
                ==> future_marker_versions@.contains(#[trigger] rnd(end_version, 1u64 << j)),
    {
        proof {
            assert(i < 64);
            assert((1u64 << i) >= 1u64) by(bit_vector) requires i < 64u64;
            let n = end_version; let fv = future_version;
            assert((fv >> i == n >> i) && (n & (1u64 << i)) == 0u64 ==>
                   ((fv | (1u64 << i)) & !(sub(1u64 << i, 1u64))) == (n | (1u64 << i)) & !(sub(1u64 << i, 1u64))
                   && (((fv | (1u64 << i)) & !(sub(1u64 << i, 1u64))) >> add(i, 1u64)) == n >> add(i, 1u64)) by(bit_vector) requires i < 64u64;
            assert((fv >> i == n >> i) && (n & (1u64 << i)) != 0u64 ==> (fv >> add(i,1u64)) == n >> add(i,1u64)) by(bit_vector) requires i < 64u64;
        }
        let ghost before = future_marker_versions@;
        let shift = 1 << i;
        // Check if the bit of end_version at position i is 0
        if end_version & shift == 0 {
            future_version |= shift;
            future_version &= !(shift - 1);
            if future_version <= epoch {
                future_marker_versions.push(future_version);
            }
        }
        proof {
            // BODY-END splice: everything contained before is still contained; the new element (if required) is contained
            assert forall|j: u64| j < i + 1 && (end_version & (1u64 << j)) == 0 && rnd(end_version, 1u64 << j) <= epoch
                implies future_marker_versions@.contains(#[trigger] rnd(end_version, 1u64 << j)) by {
                if j < i {
                    assert(before.contains(rnd(end_version, 1u64 << j)));
                    if future_marker_versions@ != before {
                        assert(future_marker_versions@ == before.push(future_version));
                        let k = choose|k: int| 0 <= k < before.len() && before[k] == rnd(end_version, 1u64 << j);
                        assert(future_marker_versions@[k] == rnd(end_version, 1u64 << j));
                    }
                } else {
                    assert(j == i);
                    assert(future_marker_versions@ == before.push(future_version));
                    assert(future_marker_versions@[before.len() as int] == future_version);
                }
            }
        }
    }
    let ghost f1 = future_marker_versions@;

    let endv_index: usize = find_max_index_in_skiplist(end_version);
    let epoch_index: usize = find_max_index_in_skiplist(epoch);
    let skiplist_slice = &MARKER_VERSION_SKIPLIST[endv_index + 1_usize..epoch_index + 1_usize];

    let next_marker_log2 = get_marker_version_log2(end_version) + 1;
    let final_marker_log2 = get_marker_version_log2(epoch);
    proof {
        // AFTER-LOOP2 splice: log2 is monotone, so the range below is not inverted
        let l = (next_marker_log2 - 1) as u64;
        lemma_lz_pow2(end_version, l);
        lemma_lz_pow2(epoch, l);
        assert(next_marker_log2 <= final_marker_log2 + 1);
    }
    for i in next_marker_log2..(final_marker_log2 + 1)
        invariant_except_break
            forall|j: u64| next_marker_log2 <= j < i ==> future_marker_versions@.contains(#[trigger] (1u64 << j)),
        invariant
            contains_all(f1, future_marker_versions@),
            final_marker_log2 < 64,
            next_marker_log2 <= i,
        ensures
            contains_all(f1, future_marker_versions@),
            forall|j: u64| next_marker_log2 <= j <= final_marker_log2 && (skiplist_slice@.len() == 0 || (1u64 << j) < skiplist_slice@[0])
                ==> future_marker_versions@.contains(#[trigger] (1u64 << j)),
    {
        proof {
            // BODY-START splice: powers of two are monotone in the exponent
            assert forall|j: u64| i <= j && j < 64 implies (1u64 << j) >= (1u64 << i) by {
                assert((1u64 << j) >= (1u64 << i)) by(bit_vector) requires i <= j, j < 64u64;
            }
        }
        let ghost before = future_marker_versions@;
        let val = 1 << i;
        if !skiplist_slice.is_empty() && val >= skiplist_slice[0] {
            // Don't need to add any more powers of 2, can just append the skiplist slice
            break;
        }
        future_marker_versions.push(1 << i);
        proof {
            assert(future_marker_versions@ == before.push(1u64 << i));
            assert forall|x: u64| #[trigger] before.contains(x) implies future_marker_versions@.contains(x) by {
                let k = choose|k: int| 0 <= k < before.len() && before[k] == x;
                assert(future_marker_versions@[k] == x);
            }
            assert(future_marker_versions@[before.len() as int] == 1u64 << i);
        }
    }
    let ghost f2 = future_marker_versions@;
    future_marker_versions.extend_from_slice(skiplist_slice);

    proof {
        // FN-TAIL splice: assemble E_future from the three pieces
        let fut = future_marker_versions@;
        let n = end_version; let e = epoch;
        let sl = skiplist_slice@;
        assert(fut == f2 + sl);
        assert(sl.len() == epoch_index - endv_index || (epoch_index < endv_index && sl.len() == 0)) ;
        assert forall|t: int| 0 <= t < sl.len() implies sl[t] == sk(endv_index + 1 + t) by {
            assert(sl[t] == MARKER_VERSION_SKIPLIST[endv_index + 1 + t]);
        }
        assert forall|x: u64| in_fut(x, n, e) implies fut.contains(x) by {
            if exists|p: u64| fut_a(x, n, p) {
                let p = choose|p: u64| fut_a(x, n, p);
                let j = lemma_pow2_index(p);
                lemma_lz_pow2(n, j);
                assert(j < end_version_length);
                assert(f1.contains(rnd(n, 1u64 << j)));
                assert(f2.contains(x));
                let k = choose|k: int| 0 <= k < f2.len() && f2[k] == x;
                assert(fut[k] == x);
            } else if pow2(x) && !(kmin(n) != 0 && kmin(n) <= e && x >= kmin(n)) {
                let j = lemma_pow2_index(x);
                lemma_lz_pow2(n, j);
                lemma_lz_pow2(e, j);
                assert(next_marker_log2 <= j && j <= final_marker_log2);
                if sl.len() > 0 {
                    assert(sl[0] == sk(endv_index + 1));
                    assert(kmin(n) == sk(endv_index + 1));
                    assert(kmin(n) <= e);
                }
                assert(f2.contains(1u64 << j));
                let k = choose|k: int| 0 <= k < f2.len() && f2[k] == x;
                assert(fut[k] == x);
            } else {
                assert(is_sk(x));
                let t: int = if x == 1 { 0 } else if x == 2 { 1 } else if x == 4 { 2 } else if x == 16 { 3 } else if x == 256 { 4 } else if x == 65536 { 5 } else { 6 };
                assert(sk(t) == x);
                assert(t > endv_index && t <= epoch_index);
                assert(sl[t - endv_index - 1] == x);
                assert(fut[f2.len() + (t - endv_index - 1)] == x);
            }
        }
    }
    proof {
        // FN-TAIL splice (past)
        let s_ = start_version;
        assert forall|x: u64| in_past(x, s_) implies p1.contains(x) by {
            if x == lmax(s_) && x != s_ { assert(p0.contains(x)); }
            else if x == hb(s_) && x != s_ { assert(p0.contains(x)); }
            else {
                let p = choose|p: u64| past_c(x, s_, p);
                let j = lemma_pow2_index(p);
                assert(p <= s_) by(bit_vector) requires s_ & p != 0, p != 0, p & sub(p, 1) == 0;
                lemma_lz_pow2(s_, j);
                assert(j < start_version_length);
            }
        }
    }
    (past_marker_versions, future_marker_versions)
}

} // verus!
fn main() {}
