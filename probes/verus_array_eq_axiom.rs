use vstd::prelude::*;
use vstd::std_specs::cmp::*;
verus! {
#[verifier::external_body]
pub proof fn axiom_digest_eq()
    ensures forall|a: [u8; 32], b: [u8; 32]| #[trigger] PartialEqSpec::eq_spec(&a, &b) == (a == b)
{}
fn h(a: [u8; 32], b: [u8; 32]) -> (r: bool) ensures r == (a == b) {
    proof { axiom_digest_eq(); }
    a == b
}
fn g(a: [u8; 32], b: [u8; 32]) -> (r: bool) ensures r == (a != b) {
    proof { axiom_digest_eq(); }
    a != b
}
}
fn main() {}
