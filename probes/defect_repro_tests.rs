//! scratch probes: do the defects named in DESIGN.md reproduce on the real code?
use crate::append_only_zks::{Azks, AzksParallelismConfig, InsertMode};
use crate::auditor::verify_consecutive_append_only;
use crate::client::{key_history_verify, lookup_verify, verify_nonmembership_for_tests_only};
use crate::directory::{Directory, ReadOnlyDirectory};
use crate::ecvrf::{HardCodedAkdVRF, VRFKeyStorage};
use crate::errors::AkdError;
use crate::storage::manager::StorageManager;
use crate::storage::memory::AsyncInMemoryDatabase;
use crate::storage::types::DbRecord;
use crate::storage::Database;
use crate::test_config;
use crate::tree_node::{node_to_azks_value, NodeHashingMode, NodeKey, TreeNode};
use crate::{
    AkdLabel, AkdValue, AzksElement, AzksValue, HistoryProof, LookupProof, NodeLabel,
    SingleAppendOnlyProof, UpdateProof, VersionFreshness,
};
use akd_core::configuration::Configuration;
use akd_core::verify::history::{HistoryParams, HistoryVerificationParams};

fn lbl(first: u8) -> NodeLabel {
    let mut v = [0u8; 32];
    v[0] = first;
    NodeLabel::new(v, 256)
}
fn el(first: u8, tag: u8) -> AzksElement {
    AzksElement { label: lbl(first), value: AzksValue([tag; 32]) }
}

// D1: shallow-anchored non-membership proof for a MEMBER verifies
test_config!(d1_shallow_anchor);
async fn d1_shallow_anchor<TC: Configuration>() -> Result<(), AkdError> {
    let db = StorageManager::new_no_cache(AsyncInMemoryDatabase::new());
    let mut azks = Azks::new::<TC, _>(&db).await?;
    // A=000.., B=001.., C=1...
    azks.batch_insert_nodes::<TC, _>(&db, vec![el(0x00, 1), el(0x20, 2), el(0x80, 3)], InsertMode::Directory, AzksParallelismConfig::disabled()).await?;
    let root_hash = azks.get_root_hash::<TC, _>(&db).await?;
    // honest proof for the non-member Y = 01...
    let mut proof = azks.get_non_membership_proof::<TC, _>(&db, lbl(0x40)).await?;
    verify_nonmembership_for_tests_only::<TC>(root_hash, &proof).expect("honest proof verifies");
    assert_eq!(proof.longest_prefix.label_len, 0, "anchored at root");
    // now claim the MEMBER A is absent, reusing the same (shallow for A) anchor
    proof.label = lbl(0x00);
    let r = verify_nonmembership_for_tests_only::<TC>(root_hash, &proof);
    println!("D1 result for member label: {:?}", r.is_ok());
    assert!(r.is_ok(), "D1 does NOT reproduce: verifier rejected the shallow anchor");
    Ok(())
}

// D2: auditor accepts a transition that deletes a subtree
test_config!(d2_auditor_overlap);
async fn d2_auditor_overlap<TC: Configuration>() -> Result<(), AkdError> {
    let db = StorageManager::new_no_cache(AsyncInMemoryDatabase::new());
    let mut azks = Azks::new::<TC, _>(&db).await?;
    azks.batch_insert_nodes::<TC, _>(&db, vec![el(0x00, 1), el(0x20, 2), el(0x80, 3)], InsertMode::Directory, AzksParallelismConfig::disabled()).await?;
    let start_hash = azks.get_root_hash::<TC, _>(&db).await?;
    let root = TreeNode::get_from_storage(&db, &NodeKey(NodeLabel::root()), 1).await?;
    let left = root.get_child_node(&db, crate::Direction::Left, 1).await?.unwrap();
    let right = root.get_child_node(&db, crate::Direction::Right, 1).await?.unwrap();
    assert_eq!(left.label.label_len, 2);
    let unchanged = vec![
        AzksElement { label: left.label, value: node_to_azks_value::<TC>(&Some(left.clone()), NodeHashingMode::WithLeafEpoch) },
        AzksElement { label: right.label, value: node_to_azks_value::<TC>(&Some(right.clone()), NodeHashingMode::WithLeafEpoch) },
    ];
    // new leaf x = 0001 0000.. extends the label "00" of the 'unchanged' subtree root
    let x = el(0x10, 9);
    let proof = SingleAppendOnlyProof { inserted: vec![x], unchanged_nodes: unchanged.clone() };
    // the server picks the end hash: whatever the auditor's reconstruction gives
    let m2 = StorageManager::new_no_cache(AsyncInMemoryDatabase::new());
    let mut a2 = Azks::new::<TC, _>(&m2).await?;
    a2.latest_epoch = 1;
    let mut set = unchanged.clone();
    set.push(AzksElement { label: x.label, value: AzksValue(TC::hash_leaf_with_commitment(x.value, 2).0) });
    a2.batch_insert_nodes::<TC, _>(&m2, set, InsertMode::Auditor, AzksParallelismConfig::disabled()).await?;
    let end_hash = a2.get_root_hash::<TC, _>(&m2).await?;
    // what does the reconstructed end tree contain under "00"?
    let r2 = TreeNode::get_from_storage(&m2, &NodeKey(NodeLabel::root()), 2).await?;
    let l2 = r2.get_child_node(&m2, crate::Direction::Left, 2).await?.unwrap();
    println!("D2 end tree left child: len={} type={:?} left={:?} right={:?}", l2.label.label_len, l2.node_type, l2.left_child.map(|l| l.label_len), l2.right_child.map(|l| l.label_len));
    let r = verify_consecutive_append_only::<TC>(&proof, start_hash, end_hash, 2).await;
    println!("D2 auditor result: {:?}", r.is_ok());
    assert!(r.is_ok(), "D2 does NOT reproduce");
    assert_ne!(start_hash, end_hash);
    Ok(())
}

// D3: reader two epochs behind gets the wrong root hash for its epoch
test_config!(d3_lag_two);
async fn d3_lag_two<TC: Configuration>() -> Result<(), AkdError> {
    let db = AsyncInMemoryDatabase::new();
    let storage = StorageManager::new_no_cache(db.clone());
    let akd = Directory::<TC, _, _>::new(storage, HardCodedAkdVRF {}, AzksParallelismConfig::disabled()).await?;
    akd.publish(vec![(AkdLabel::from("a"), AkdValue::from("1"))]).await?;
    let h1 = akd.get_epoch_hash().await?;
    let checkpoint = akd.retrieve_azks().await?;
    akd.publish(vec![(AkdLabel::from("a"), AkdValue::from("2"))]).await?;
    let h2 = akd.get_epoch_hash().await?;
    akd.publish(vec![(AkdLabel::from("a"), AkdValue::from("3"))]).await?;
    db.set(DbRecord::Azks(checkpoint)).await.unwrap();
    let ro = ReadOnlyDirectory::<TC, _, _>::new(StorageManager::new_no_cache(db.clone()), HardCodedAkdVRF {}, AzksParallelismConfig::disabled()).await?;
    let got = ro.get_epoch_hash().await;
    println!("D3 epoch-1 reader got: {:?}; h1={:?} h2={:?}", got.as_ref().map(|e| (e.0, e.1 == h1.1, e.1 == h2.1)), h1.0, h2.0);
    match got {
        Err(_) => panic!("D3 does NOT reproduce: reader got an error (acceptable behaviour)"),
        Ok(e) => {
            assert_eq!(e.0, 1);
            assert!(e.1 != h1.1, "D3 does NOT reproduce: correct hash served");
        }
    }
    Ok(())
}

// D4: complete history for latest=5 and lookup for version 7 both verify under one root
test_config!(d4_lookup_vs_history);
async fn d4_lookup_vs_history<TC: Configuration>() -> Result<(), AkdError> {
    let vrf = HardCodedAkdVRF {};
    let pk = vrf.get_vrf_public_key().await?;
    let ck = TC::hash(&vrf.retrieve().await?);
    let user = AkdLabel::from("u");
    let val = |v: u64| AkdValue(format!("value{v}").into_bytes());
    let mut set = vec![];
    for v in [1u64, 2, 3, 4, 5, 7] {
        let l = vrf.get_node_label::<TC>(&user, VersionFreshness::Fresh, v).await?;
        set.push(AzksElement { label: l, value: TC::compute_fresh_azks_value(&ck, &l, v, &val(v)) });
    }
    for v in [1u64, 2, 3, 4] {
        let l = vrf.get_node_label::<TC>(&user, VersionFreshness::Stale, v).await?;
        set.push(AzksElement { label: l, value: TC::stale_azks_value() });
    }
    let db = StorageManager::new_no_cache(AsyncInMemoryDatabase::new());
    let mut azks = Azks::new::<TC, _>(&db).await?;
    azks.batch_insert_nodes::<TC, _>(&db, set, InsertMode::Directory, AzksParallelismConfig::disabled()).await?;
    let root_hash = azks.get_root_hash::<TC, _>(&db).await?;
    let current_epoch = 8u64; // the epoch label the server attaches to this root
    let fresh = |v: u64| vrf.get_node_label::<TC>(&user, VersionFreshness::Fresh, v);
    let stale = |v: u64| vrf.get_node_label::<TC>(&user, VersionFreshness::Stale, v);
    let pf = |f: VersionFreshness, v: u64| vrf.get_label_proof::<TC>(&user, f, v);

    // lookup proof claiming version 7
    let l7 = fresh(7).await?;
    let lookup = LookupProof {
        epoch: 1,
        value: val(7),
        version: 7,
        existence_vrf_proof: pf(VersionFreshness::Fresh, 7).await?.to_bytes().to_vec(),
        existence_proof: azks.get_membership_proof::<TC, _>(&db, l7).await?,
        marker_vrf_proof: pf(VersionFreshness::Fresh, 4).await?.to_bytes().to_vec(),
        marker_proof: azks.get_membership_proof::<TC, _>(&db, fresh(4).await?).await?,
        freshness_vrf_proof: pf(VersionFreshness::Stale, 7).await?.to_bytes().to_vec(),
        freshness_proof: azks.get_non_membership_proof::<TC, _>(&db, stale(7).await?).await?,
        commitment_nonce: TC::get_commitment_nonce(&ck, &l7, 7, &val(7)).to_vec(),
    };
    let lr = lookup_verify::<TC>(pk.as_bytes(), root_hash, current_epoch, user.clone(), lookup);
    println!("D4 lookup(7): {:?}", lr.as_ref().map(|r| r.version));

    // complete history proof claiming latest = 5
    let mut update_proofs = vec![];
    for v in [5u64, 4, 3, 2, 1] {
        let lv = fresh(v).await?;
        let (pvp, pp) = if v > 1 {
            (Some(pf(VersionFreshness::Stale, v - 1).await?.to_bytes().to_vec()),
             Some(azks.get_membership_proof::<TC, _>(&db, stale(v - 1).await?).await?))
        } else { (None, None) };
        update_proofs.push(UpdateProof {
            epoch: 1, value: val(v), version: v,
            existence_vrf_proof: pf(VersionFreshness::Fresh, v).await?.to_bytes().to_vec(),
            existence_proof: azks.get_membership_proof::<TC, _>(&db, lv).await?,
            previous_version_vrf_proof: pvp, previous_version_proof: pp,
            commitment_nonce: TC::get_commitment_nonce(&ck, &lv, v, &val(v)).to_vec(),
        });
    }
    let (past, future) = akd_core::utils::get_marker_versions(1, 5, current_epoch);
    println!("D4 markers past={past:?} future={future:?}");
    let mut fv = vec![]; let mut fp = vec![];
    for v in future { fv.push(pf(VersionFreshness::Fresh, v).await?.to_bytes().to_vec()); fp.push(azks.get_non_membership_proof::<TC, _>(&db, fresh(v).await?).await?); }
    assert!(past.is_empty());
    let history = HistoryProof { update_proofs, past_marker_vrf_proofs: vec![], existence_of_past_marker_proofs: vec![], future_marker_vrf_proofs: fv, non_existence_of_future_marker_proofs: fp };
    let hr = key_history_verify::<TC>(pk.as_bytes(), root_hash, current_epoch, user.clone(), history, HistoryVerificationParams::Default { history_params: HistoryParams::Complete });
    println!("D4 history: {:?}", hr.as_ref().map(|r| r[0].version));
    assert!(lr.is_ok() && hr.is_ok(), "D4 does NOT reproduce");
    assert_eq!(lr.unwrap().version, 7);
    assert_eq!(hr.unwrap()[0].version, 5);
    Ok(())
}
