use vstd::prelude::*;
use vstd::std_specs::cmp::*;
verus! {

pub type Digest = [u8; 32];
pub const ARITY: usize = 2;

#[derive(Debug, Clone, Copy, PartialEq, Eq)]
pub struct NodeLabel { pub label_val: [u8; 32], pub label_len: u32 }
#[derive(Debug, Clone, Copy, PartialEq, Eq)]
pub struct AzksValue(pub Digest);
#[derive(Debug, Clone, Copy, PartialEq, Eq)]
pub struct AzksElement { pub label: NodeLabel, pub value: AzksValue }
#[derive(Debug, Clone, Copy, Eq, PartialEq)]
pub enum Direction { Left = 0, Right = 1 }
#[derive(Debug, Clone, PartialEq, Eq)]
pub struct SiblingProof { pub label: NodeLabel, pub siblings: [AzksElement; 1], pub direction: Direction }
#[derive(Debug, Clone, PartialEq, Eq)]
pub struct MembershipProof { pub label: NodeLabel, pub hash_val: AzksValue, pub sibling_proofs: Vec<SiblingProof> }
#[derive(Debug, Clone, PartialEq, Eq)]
pub struct NonMembershipProof {
    pub label: NodeLabel,
    pub longest_prefix: NodeLabel,
    pub longest_prefix_children: [AzksElement; ARITY],
    pub longest_prefix_membership_proof: MembershipProof,
}
impl PartialEqSpecImpl for NodeLabel {
    open spec fn obeys_eq_spec() -> bool { true }
    open spec fn eq_spec(&self, other: &NodeLabel) -> bool { *self == *other }
}
impl PartialEqSpecImpl for AzksElement {
    open spec fn obeys_eq_spec() -> bool { true }
    open spec fn eq_spec(&self, other: &AzksElement) -> bool { *self == *other }
}
impl PartialEqSpecImpl for AzksValue {
    open spec fn obeys_eq_spec() -> bool { true }
    open spec fn eq_spec(&self, other: &AzksValue) -> bool { *self == *other }
}
#[verifier::external_body]
fn vx_msg() -> String { String::new() }

pub uninterp spec fn pfx(a: NodeLabel, b: NodeLabel) -> bool;
pub open spec fn fold_mp<TC: Configuration>(hash_val: AzksValue, label: NodeLabel, sibs: Seq<SiblingProof>, k: int) -> (AzksValue, NodeLabel)
    decreases k
{
    if k <= 0 { (hash_val, label) } else {
        let (v, l) = fold_mp::<TC>(hash_val, label, sibs, k - 1);
        let sp = sibs[sibs.len() - k];
        let sib = sp.siblings[0];
        match sp.direction {
            Direction::Left => (TC::spec_parent(v, TC::spec_label_value(l), sib.value, TC::spec_label_value(sib.label)), sp.label),
            Direction::Right => (TC::spec_parent(sib.value, TC::spec_label_value(sib.label), v, TC::spec_label_value(l)), sp.label),
        }
    }
}
pub open spec fn mem_ok<TC: Configuration>(root: Digest, mp: MembershipProof) -> bool {
    TC::spec_root(fold_mp::<TC>(mp.hash_val, mp.label, mp.sibling_proofs@, mp.sibling_proofs@.len() as int).0) == root
}
#[verifier::external_body]
pub proof fn axiom_digest_eq()
    ensures forall|a: [u8; 32], b: [u8; 32]| #[trigger] PartialEqSpec::eq_spec(&a, &b) == (a == b)
{}

pub enum VerificationError { MembershipProof(String), NonMembershipProof(String) }

pub trait Configuration {
    spec fn spec_parent(l: AzksValue, ll: Seq<u8>, r: AzksValue, rl: Seq<u8>) -> AzksValue;
    spec fn spec_root(v: AzksValue) -> Digest;
    spec fn spec_label_value(l: NodeLabel) -> Seq<u8>;
    fn compute_parent_hash_from_children(left_val: &AzksValue, left_label: &[u8], right_val: &AzksValue, right_label: &[u8]) -> (r: AzksValue)
        ensures r == Self::spec_parent(*left_val, left_label@, *right_val, right_label@);
    fn compute_root_hash_from_val(root_val: &AzksValue) -> (r: Digest)
        ensures r == Self::spec_root(*root_val);
    fn empty_label() -> NodeLabel;
}

impl NodeLabel {
    #[verifier::external_body]
    pub fn value<TC: Configuration>(&self) -> (r: Vec<u8>) ensures r@ == TC::spec_label_value(*self) { unimplemented!() }
    #[verifier::external_body]
    pub fn is_prefix_of(&self, other: &Self) -> (r: bool) ensures r == pfx(*self, *other) { unimplemented!() }
    #[verifier::external_body]
    pub fn get_longest_common_prefix<TC: Configuration>(&self, other: NodeLabel) -> Self { unimplemented!() }
    pub fn root() -> Self { Self::new([0u8; 32], 0) }
    pub fn new(val: [u8; 32], len: u32) -> Self { NodeLabel { label_val: val, label_len: len } }
}

pub(crate) fn verify_membership<TC: Configuration>(
    root_hash: Digest,
    proof: &MembershipProof,
) -> (r: Result<(), VerificationError>)
    ensures r is Ok <==> mem_ok::<TC>(root_hash, *proof)
{
    proof { axiom_digest_eq(); }
    let mut curr_val = proof.hash_val;
    let mut curr_label = proof.label;

    for sibling_proof in it: proof.sibling_proofs.iter().rev()
        invariant
            it.history@.len() == it.index@,
            it.index@ <= proof.sibling_proofs@.len(),
            forall|j: int| 0 <= j < it.index@ ==> *it.history@[j] == proof.sibling_proofs@[proof.sibling_proofs@.len() - 1 - j],
            (curr_val, curr_label) == fold_mp::<TC>(proof.hash_val, proof.label, proof.sibling_proofs@, it.index@ as int),
    {
        let sibling = sibling_proof.siblings[0];
        let (left_val, left_label, right_val, right_label) = match sibling_proof.direction {
            Direction::Left => (
                curr_val,
                curr_label.value::<TC>(),
                sibling.value,
                sibling.label.value::<TC>(),
            ),
            Direction::Right => (
                sibling.value,
                sibling.label.value::<TC>(),
                curr_val,
                curr_label.value::<TC>(),
            ),
        };
        curr_val =
            TC::compute_parent_hash_from_children(&left_val, &left_label, &right_val, &right_label);
        curr_label = sibling_proof.label;
    }

    if TC::compute_root_hash_from_val(&curr_val) == root_hash {
        Ok(())
    } else {
        Err(VerificationError::MembershipProof(vx_msg()))
    }
}

pub(crate) fn verify_nonmembership<TC: Configuration>(
    root_hash: Digest,
    proof: &NonMembershipProof,
) -> (r: Result<(), VerificationError>)
    ensures r is Ok ==> (
        pfx(proof.longest_prefix, proof.label)
        && (forall|j: int| 0 <= j < 2 ==> !(proof.longest_prefix_children[j].label.label_len > 0 && pfx(proof.longest_prefix_children[j].label, proof.label)))
        && proof.longest_prefix_membership_proof.label == proof.longest_prefix
        && proof.longest_prefix_membership_proof.hash_val == TC::spec_parent(
              proof.longest_prefix_children[0].value, TC::spec_label_value(proof.longest_prefix_children[0].label),
              proof.longest_prefix_children[1].value, TC::spec_label_value(proof.longest_prefix_children[1].label))
        && mem_ok::<TC>(root_hash, proof.longest_prefix_membership_proof))
{
    proof { axiom_digest_eq(); }
    // Verify that the proof's label is not equal to either of the children's labels
    if proof.label == proof.longest_prefix_children[0].label
        || proof.label == proof.longest_prefix_children[1].label
    {
        return Err(VerificationError::NonMembershipProof(
            "Proof's label is equal to one of the children's labels".to_string(),
        ));
    }

    for child in it: proof.longest_prefix_children.iter()
        invariant
            it.index@ <= 2,
            it.history@.len() == it.index@,
            forall|j: int| 0 <= j < it.index@ ==> *it.history@[j] == proof.longest_prefix_children[j],
            forall|j: int| 0 <= j < it.index@ ==> !(proof.longest_prefix_children[j].label.label_len > 0 && pfx(proof.longest_prefix_children[j].label, proof.label)),
    {
        if child.label.label_len > 0 && child.label.is_prefix_of(&proof.label) {
            return Err(VerificationError::NonMembershipProof(
                "One of the children's labels is a prefix of the proof's label".to_string(),
            ));
        }
    }

    // Verify that proof.longest_prefix is a prefix of the proof's label
    if !proof.longest_prefix.is_prefix_of(&proof.label) {
        return Err(VerificationError::NonMembershipProof(
            "Proof's longest prefix is not a prefix of the proof's label".to_string(),
        ));
    }

    // Verify that proof.longest_prefix is the longest common prefix of the children
    let mut lcp_children = proof.longest_prefix_children[0]
        .label
        .get_longest_common_prefix::<TC>(proof.longest_prefix_children[1].label);
    if lcp_children == TC::empty_label() {
        lcp_children = NodeLabel::root();
    }
    if proof.longest_prefix != lcp_children {
        return Err(VerificationError::NonMembershipProof(
            "longest_prefix != computed lcp".to_string(),
        ));
    }

    let lcp_hash = TC::compute_parent_hash_from_children(
        &proof.longest_prefix_children[0].value,
        &proof.longest_prefix_children[0].label.value::<TC>(),
        &proof.longest_prefix_children[1].value,
        &proof.longest_prefix_children[1].label.value::<TC>(),
    );
    if lcp_children != proof.longest_prefix_membership_proof.label
        || lcp_hash != proof.longest_prefix_membership_proof.hash_val
    {
        return Err(VerificationError::NonMembershipProof(
            "lcp_hash != longest_prefix_hash".to_string(),
        ));
    }
    verify_membership::<TC>(root_hash, &proof.longest_prefix_membership_proof)?;

    Ok(())
}
}
fn main() {}
