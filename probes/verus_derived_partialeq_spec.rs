use vstd::prelude::*;
use vstd::std_specs::cmp::PartialEqSpecImpl;
verus! {
#[derive(Debug, Clone, Copy, PartialEq, Eq)]
pub struct NodeLabel { pub label_val: [u8; 32], pub label_len: u32 }

impl PartialEqSpecImpl for NodeLabel {
    open spec fn obeys_eq_spec() -> bool { true }
    open spec fn eq_spec(&self, other: &NodeLabel) -> bool { *self == *other }
}
fn f(a: NodeLabel, b: NodeLabel) -> (r: bool) ensures r == (a == b) { a == b }
}
fn main() {}
