use vstd::prelude::*;
use vstd::std_specs::bits::u64_leading_zeros;
verus! {

fn get_bit_length(input: u64) -> (r: u64)
    ensures r == 64 - u64_leading_zeros(input), r <= 64
{
    let leading_zeros = input.leading_zeros() as u64;
    if leading_zeros > 64 {
        panic!("get_bit_length input has more than 64 leading zeros");
    }
    64 - leading_zeros
}

// round n up at bit i (bit i of n is zero): set bit i, clear lower bits
pub open spec fn round_up_at(n: u64, i: u64) -> u64 { ((n >> i) | 1u64) << i }

pub open spec fn in_f1(x: u64, n: u64, len: u64, epoch: u64) -> bool {
    exists|i: u64| i < len && #[trigger] ((n >> i) & 1u64) == 0u64 && x == round_up_at(n, i) && x <= epoch
}

// first loop of the future part, verbatim
fn future_part1(end_version: u64, epoch: u64) -> (future_marker_versions: Vec<u64>)
    requires 1 <= end_version <= epoch
    ensures forall|k: int| 0 <= k < future_marker_versions.len() ==> in_f1(#[trigger] future_marker_versions[k], end_version, (64 - u64_leading_zeros(end_version)) as u64, epoch),
{
    let mut future_marker_versions: Vec<u64> = Vec::new();

    let end_version_length = get_bit_length(end_version);
    let mut future_version: u64 = end_version;
    for i in 0..end_version_length
        invariant
            end_version_length == 64 - u64_leading_zeros(end_version),
            end_version_length <= 64,
            forall|k: int| 0 <= k < future_marker_versions.len() ==> in_f1(#[trigger] future_marker_versions[k], end_version, end_version_length, epoch),
            // high bits of future_version (>= i) agree with end_version
            i < 64 ==> future_version >> i == end_version >> i,
    {
        proof {
            // BODY-START splice
            assert(i < 64);
            assert((1u64 << i) >= 1u64) by(bit_vector) requires i < 64u64;
            let n = end_version; let fv = future_version;
            assert((fv >> i == n >> i) && (n & (1u64 << i)) == 0u64 ==>
                   ((fv | (1u64 << i)) & !(sub(1u64 << i, 1u64))) == ((n >> i) | 1u64) << i
                   && (((fv | (1u64 << i)) & !(sub(1u64 << i, 1u64))) >> add(i, 1u64)) == n >> add(i, 1u64)
                   && ((n >> i) & 1u64) == 0u64) by(bit_vector) requires i < 64u64;
            assert((fv >> i == n >> i) && (n & (1u64 << i)) != 0u64 ==> (fv >> add(i,1u64)) == n >> add(i,1u64)) by(bit_vector) requires i < 64u64;
        }
        let shift = 1 << i;
        // Check if the bit of end_version at position i is 0
        if end_version & shift == 0 {
            future_version |= shift;
            future_version &= !(shift - 1);
            if future_version <= epoch {
                future_marker_versions.push(future_version);
            }
        }
    }
    future_marker_versions
}

} // verus!
fn main() {}
