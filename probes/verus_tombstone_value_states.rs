use vstd::prelude::*;
verus! {
pub struct AkdLabel(pub Vec<u8>);
pub struct AkdValue(pub Vec<u8>);
#[derive(Clone, Copy, PartialEq, Eq)]
pub struct NodeLabel { pub label_val: [u8; 32], pub label_len: u32 }
pub struct ValueState { pub value: AkdValue, pub version: u64, pub label: NodeLabel, pub epoch: u64, pub username: AkdLabel }
pub struct KeyData { pub states: Vec<ValueState> }
pub enum DbRecord { Azks(u8), TreeNode(u8), ValueState(ValueState) }
pub enum StorageError { NotFound(String), Other(String) }
#[verifier::external_body]
pub exec const TOMBSTONE: &'static [u8] ensures TOMBSTONE@.len() == 0 { &[] }
type Metric = usize;
const METRIC_TOMBSTONE: Metric = 6;

pub assume_specification<T: Clone>[ <[T]>::to_vec ](s: &[T]) -> (r: Vec<T>)
    ensures r@.len() == s@.len();
pub open spec fn is_tombstone_of(r: DbRecord, olds: Seq<ValueState>, epoch: u64) -> bool {
    r is ValueState && r->ValueState_0.value.0@.len() == 0 &&
    exists|i: int| 0 <= i < olds.len() && #[trigger] olds[i].epoch == r->ValueState_0.epoch && olds[i].epoch <= epoch
        && olds[i].version == r->ValueState_0.version && olds[i].label == r->ValueState_0.label
        && olds[i].username.0@ == r->ValueState_0.username.0@
}

pub struct StorageManager {}
impl StorageManager {
    pub uninterp spec fn states_of(&self, username: Seq<u8>) -> Seq<ValueState>;
    #[verifier::external_body]
    pub async fn get_user_data(&self, username: &AkdLabel) -> (r: Result<KeyData, StorageError>)
        ensures r is Ok ==> r->Ok_0.states@ == self.states_of(username.0@)
    { unimplemented!() }
    #[verifier::external_body]
    pub async fn batch_set(&self, records: Vec<DbRecord>) -> Result<(), StorageError>
    { unimplemented!() }
    #[verifier::external_body]
    fn increment_metric(&self, _metric: Metric) {}

    pub async fn tombstone_value_states(
        &self,
        username: &AkdLabel,
        epoch: u64,
    ) -> Result<(), StorageError> {
        let key_data = self.get_user_data(username).await?;
        let mut new_data = vec![];
        for value_state in key_data.states.into_iter() {
            if value_state.epoch <= epoch && value_state.value.0 != TOMBSTONE {
                new_data.push(DbRecord::ValueState(ValueState {
                    epoch: value_state.epoch,
                    label: value_state.label,
                    value: AkdValue(TOMBSTONE.to_vec()),
                    username: value_state.username,
                    version: value_state.version,
                }));
            }
        }
        if !new_data.is_empty() {
            self.batch_set(new_data).await?;
            self.increment_metric(METRIC_TOMBSTONE);
        }

        Ok(())
    }
}
}
fn main() {}
