// ---- verify_history: shape vocabulary and per-update acceptance predicate
pub mod utils { pub use super::get_marker_versions; }

// get_marker_versions as a function (its determinism is assumed; what its result CONTAINS is proved in unit markers)
pub uninterp spec fn gmv_spec(s: u64, e: u64, ep: u64) -> (Seq<u64>, Seq<u64>);

pub open spec fn ver(p: &HistoryProof, k: int) -> u64 { p.update_proofs@[k].version }
pub open spec fn consecutive(p: &HistoryProof, upto: int) -> bool {
    forall|k: int| 1 <= k < upto ==> #[trigger] ver(p, k) + 1 == ver(p, k - 1)
}
pub proof fn lemma_consecutive(p: &HistoryProof, n: int, k: int)
    requires consecutive(p, n), 0 <= k < n
    ensures ver(p, k) + k == ver(p, 0)
    decreases k
{
    if k > 0 { lemma_consecutive(p, n, k - 1); assert(ver(p, k) + 1 == ver(p, k - 1)); }
}
// the shape verify_with_history_params must establish (C07: no gaps, no truncation, parameter rules, marker counts)
pub open spec fn shape_ok(current_epoch: u64, proof: &HistoryProof, params: HistoryParams, past: Seq<u64>, fut: Seq<u64>) -> bool {
    let n = proof.update_proofs@.len() as int;
    &&& n >= 1
    &&& consecutive(proof, n)
    &&& 1 <= ver(proof, n - 1)
    &&& ver(proof, 0) <= current_epoch
    &&& (params is Complete ==> ver(proof, n - 1) == 1)
    &&& (params is MostRecent ==> n <= params->MostRecent_0 && (n < params->MostRecent_0 ==> ver(proof, n - 1) == 1))
    &&& past == gmv_spec(ver(proof, n - 1), ver(proof, 0), current_epoch).0
    &&& fut == gmv_spec(ver(proof, n - 1), ver(proof, 0), current_epoch).1
    &&& proof.past_marker_vrf_proofs@.len() == past.len()
    &&& proof.existence_of_past_marker_proofs@.len() == past.len()
    &&& proof.future_marker_vrf_proofs@.len() == fut.len()
    &&& proof.non_existence_of_future_marker_proofs@.len() == fut.len()
}

pub open spec fn allows_missing(params: HistoryVerificationParams) -> bool { params is AllowMissingValues }

// what accepting ONE update proof means (C07 per-update soundness, C20 tombstone clause)
pub open spec fn update_ok<TC: Configuration>(pk: Seq<u8>, root: Digest, label: Seq<u8>, up: UpdateProof, params: HistoryVerificationParams) -> bool {
    // fresh leaf of this version: with the value/epoch commitment, unless the verifier opted in to missing values AND the value is the tombstone
    &&& (if allows_missing(params) && up.value.0@.len() == 0 {
            exist_ok::<TC>(pk, root, label, VersionFreshness::Fresh, up.version, up.existence_vrf_proof@, up.existence_proof)
         } else {
            TC::spec_leaf_value(up.value.0@, up.epoch, up.commitment_nonce@) == up.existence_proof.hash_val.0
            && exist_ok::<TC>(pk, root, label, VersionFreshness::Fresh, up.version, up.existence_vrf_proof@, up.existence_proof)
         })
    // the previous version was retired in the very epoch of this update: its stale leaf carries THIS update's epoch
    &&& (up.version > 1 ==> up.previous_version_proof is Some && up.previous_version_vrf_proof is Some
            && TC::spec_leaf_commit(TC::spec_stale(), up.epoch) == up.previous_version_proof->Some_0.hash_val.0
            && exist_ok::<TC>(pk, root, label, VersionFreshness::Stale, (up.version - 1) as u64, up.previous_version_vrf_proof->Some_0@, up.previous_version_proof->Some_0))
}
pub open spec fn params_of(vp: HistoryVerificationParams) -> HistoryParams {
    match vp {
        HistoryVerificationParams::Default { history_params } => history_params,
        HistoryVerificationParams::AllowMissingValues { history_params } => history_params,
    }
}
// typed view (drives type inference for `let mut results = Vec::new()`)
pub open spec fn rseq(v: Vec<VerifyResult>) -> Seq<VerifyResult> { v@ }

// L2 (C08, lookup m < n vs complete history n): an accepted COMPLETE history with latest version n shows the stale leaf of EVERY
// version m < n present (it is part of the accepted update proof for m+1) - which is exactly the leaf an accepted lookup proof for m shows absent.
// alarm: C08, C07
pub proof fn lemma_l2<TC: Configuration>(pk: Seq<u8>, root: Digest, label: Seq<u8>, proof: &HistoryProof, vp: HistoryVerificationParams, m: u64)
    requires
        proof.update_proofs@.len() >= 1,
        consecutive(proof, proof.update_proofs@.len() as int),
        ver(proof, proof.update_proofs@.len() - 1) == 1,
        forall|k: int| 0 <= k < proof.update_proofs@.len() ==> update_ok::<TC>(pk, root, label, #[trigger] proof.update_proofs@[k], vp),
        1 <= m < ver(proof, 0),
    ensures
        exists|k: int| 0 <= k < proof.update_proofs@.len() && (#[trigger] proof.update_proofs@[k]).version == m + 1
            && proof.update_proofs@[k].previous_version_proof is Some && proof.update_proofs@[k].previous_version_vrf_proof is Some
            && exist_ok::<TC>(pk, root, label, VersionFreshness::Stale, m, proof.update_proofs@[k].previous_version_vrf_proof->Some_0@, proof.update_proofs@[k].previous_version_proof->Some_0)
{
    let n = proof.update_proofs@.len() as int;
    lemma_consecutive(proof, n, n - 1);
    // versions are ver(0), ver(0) - 1, .., 1: the update for version m + 1 sits at index ver(0) - (m + 1)
    let k = ver(proof, 0) - (m + 1);
    assert(0 <= k < n);
    lemma_consecutive(proof, n, k);
    assert(proof.update_proofs@[k].version == m + 1);
    assert(update_ok::<TC>(pk, root, label, proof.update_proofs@[k], vp));
}
