// ---- vrf_labels unit (C18): the node labels a publish places in the tree - VRFKeyStorage::get_node_labels (parallel_vrf branch)
use vstd::future::FutureAdditionalSpecFns;
pub trait Configuration {}
// the implementor of the VRF key storage trait (its other methods are the stubs below)
pub trait VRFKeyStorage {}
#[verifier::external_body]
pub struct VRFPrivateKey { _p: () }
#[verifier::external_body]
pub struct VRFExpandedPrivateKey { _p: () }
#[verifier::external_body]
pub struct VRFPublicKey { _p: () }
pub uninterp spec fn priv_key_of<V>(vrf: &V) -> Result<VRFPrivateKey, VrfError>;
pub uninterp spec fn exp_of(k: VRFPrivateKey) -> VRFExpandedPrivateKey;
pub uninterp spec fn pk_of(k: VRFPrivateKey) -> VRFPublicKey;
impl Clone for VRFExpandedPrivateKey { #[verifier::external_body] fn clone(&self) -> (r: Self) ensures r == *self { unimplemented!() } }
impl Clone for VRFPublicKey { #[verifier::external_body] fn clone(&self) -> (r: Self) ensures r == *self { unimplemented!() } }
impl vstd::std_specs::convert::FromSpecImpl<&VRFPrivateKey> for VRFExpandedPrivateKey {
    closed spec fn obeys_from_spec() -> bool { true }
    closed spec fn from_spec(k: &VRFPrivateKey) -> Self { exp_of(*k) }
}
impl From<&VRFPrivateKey> for VRFExpandedPrivateKey { #[verifier::external_body] fn from(k: &VRFPrivateKey) -> (r: Self) ensures r == exp_of(*k) { unimplemented!() } }
impl vstd::std_specs::convert::FromSpecImpl<&VRFPrivateKey> for VRFPublicKey {
    closed spec fn obeys_from_spec() -> bool { true }
    closed spec fn from_spec(k: &VRFPrivateKey) -> Self { pk_of(*k) }
}
impl From<&VRFPrivateKey> for VRFPublicKey { #[verifier::external_body] fn from(k: &VRFPrivateKey) -> (r: Self) ensures r == pk_of(*k) { unimplemented!() } }
// the VRF node label of (label, freshness, version) under a key pair (T4: evaluate + truncate, in ecvrf_impl.rs)
pub uninterp spec fn key_label(exp: VRFExpandedPrivateKey, pk: VRFPublicKey, label: Seq<u8>, f: VersionFreshness, version: u64) -> NodeLabel;
#[verifier::external_body]
pub async fn vx_self_get_vrf_private_key<V: VRFKeyStorage>(vx_self: &V) -> (r: Result<VRFPrivateKey, VrfError>)
    ensures r == priv_key_of(vx_self)
{ unimplemented!() }
#[verifier::external_body]
pub fn vx_self_get_node_label_with_expanded_key<TC: Configuration, V: VRFKeyStorage>(expanded_private_key: &VRFExpandedPrivateKey, pk: &VRFPublicKey, label: &AkdLabel, freshness: VersionFreshness, version: u64) -> (r: NodeLabel)
    ensures r == key_label(*expanded_private_key, *pk, label.0@, freshness, version)
{ unimplemented!() }
pub type LabelInput = (AkdLabel, VersionFreshness, u64, AkdValue);
pub open spec fn rv(v: Vec<(LabelInput, NodeLabel)>) -> Seq<(LabelInput, NodeLabel)> { v@ }
