// ---- the two remaining checks of verify_nonmembership (label differs from both reported children; the anchor is what the verifier
// computes as longest common prefix of the two reported child labels), stated over the CONTRACT of get_longest_common_prefix
// (unit node_label: E_empty / E_lcp), so that the prover side (unit azks_proofs) and the verifier side (unit verify_base) meet in one predicate
pub open spec fn lcp_rel<TC: Configuration>(a: NodeLabel, b: NodeLabel, r: NodeLabel) -> bool {
    if a == TC::spec_empty_label() || b == TC::spec_empty_label() { r == TC::spec_empty_label() }
    else { exists|k: int| #[trigger] is_lcplen(a, b, k) && is_prefix_n(r, a, k) }
}
pub open spec fn nm_extra<TC: Configuration>(p: NonMembershipProof) -> bool {
    p.label != p.longest_prefix_children[0].label && p.label != p.longest_prefix_children[1].label
    && forall|r: NodeLabel| #[trigger] lcp_rel::<TC>(p.longest_prefix_children[0].label, p.longest_prefix_children[1].label, r) ==>
         (if r == TC::spec_empty_label() { is_root(p.longest_prefix) } else { r == p.longest_prefix })
}
