// ---- ECVRF (akd_core/src/ecvrf/ecvrf_impl.rs): external, assumed (T4). Three opaque notions:
//   parsing of key / proof bytes, acceptance of (pk, proof, alpha), and the 32-byte truncated output of a proof.
#[verifier::external_body]
pub struct VRFPublicKey { _p: [u8; 32] }
#[verifier::external_body]
pub struct Proof { _p: [u8; 80] }
#[verifier::external_body]
pub struct Output { _p: [u8; 64] }
pub uninterp spec fn vrf_pk_parse(b: Seq<u8>) -> Result<VRFPublicKey, VrfError>;
pub uninterp spec fn vrf_proof_parse(b: Seq<u8>) -> Result<Proof, VrfError>;
pub uninterp spec fn vrf_accepts(pk: VRFPublicKey, p: Proof, alpha: Seq<u8>) -> bool;
pub uninterp spec fn vrf_output(p: Proof) -> Output;
pub uninterp spec fn vrf_trunc(o: Output) -> [u8; 32];

impl vstd::std_specs::convert::TryFromSpecImpl<&[u8]> for VRFPublicKey {
    open spec fn obeys_try_from_spec() -> bool { true }
    open spec fn try_from_spec(b: &[u8]) -> Result<Self, VrfError> { vrf_pk_parse(b@) }
}
impl core::convert::TryFrom<&[u8]> for VRFPublicKey {
    type Error = VrfError;
    #[verifier::external_body]
    fn try_from(bytes: &[u8]) -> (r: Result<VRFPublicKey, VrfError>) { unimplemented!() }
}
impl vstd::std_specs::convert::TryFromSpecImpl<&[u8]> for Proof {
    open spec fn obeys_try_from_spec() -> bool { true }
    open spec fn try_from_spec(b: &[u8]) -> Result<Self, VrfError> { vrf_proof_parse(b@) }
}
impl core::convert::TryFrom<&[u8]> for Proof {
    type Error = VrfError;
    #[verifier::external_body]
    fn try_from(bytes: &[u8]) -> (r: Result<Proof, VrfError>) { unimplemented!() }
}
impl VRFPublicKey {
    #[verifier::external_body]
    pub fn verify(&self, proof: &Proof, alpha: &[u8]) -> (r: Result<(), VrfError>)
        ensures r is Ok <==> vrf_accepts(*self, *proof, alpha@)
    { unimplemented!() }
}
impl<'a> vstd::std_specs::convert::FromSpecImpl<&'a Proof> for Output {
    open spec fn obeys_from_spec() -> bool { true }
    open spec fn from_spec(p: &'a Proof) -> Self { vrf_output(*p) }
}
impl<'a> From<&'a Proof> for Output {
    #[verifier::external_body]
    fn from(p: &'a Proof) -> (r: Output) { unimplemented!() }
}
impl Output {
    #[verifier::external_body]
    pub fn to_truncated_bytes(&self) -> (r: [u8; 32])
        ensures r == vrf_trunc(*self)
    { unimplemented!() }
}
pub mod ecvrf { pub use super::{VRFPublicKey, Proof, Output, VrfError}; }
impl vstd::std_specs::convert::FromSpecImpl<VrfError> for VerificationError {
    open spec fn obeys_from_spec() -> bool { true }
    open spec fn from_spec(e: VrfError) -> Self { VerificationError::Vrf(e) }
}
