// ---- assumed std contracts for the Vec adapters used by the history head (closures get their ensures through R-CLOSPEC)
pub open spec fn mask_filter<T>(s: Seq<T>, keep: Seq<bool>) -> Seq<T>
    decreases s.len()
{
    if s.len() == 0 || keep.len() != s.len() { Seq::empty() } else {
        let r = mask_filter(s.drop_last(), keep.drop_last());
        if keep.last() { r.push(s.last()) } else { r }
    }
}
pub proof fn lemma_mask_is_filter<T>(s: Seq<T>, keep: Seq<bool>, pred: spec_fn(T) -> bool)
    requires keep.len() == s.len(), forall|i: int| 0 <= i < s.len() ==> keep[i] == pred(#[trigger] s[i])
    ensures mask_filter(s, keep) == s.filter(pred)
    decreases s.len()
{
    reveal(Seq::filter);
    if s.len() > 0 {
        lemma_mask_is_filter(s.drop_last(), keep.drop_last(), pred);
    }
}
// Vec::retain keeps, in their original order, exactly the elements the predicate answered `true` for
pub assume_specification<T, A: core::alloc::Allocator, F: FnMut(&T) -> bool>[ Vec::<T, A>::retain ](v: &mut Vec<T, A>, f: F)
    ensures
        exists|keep: Seq<bool>| keep.len() == old(v)@.len() && (forall|i: int| 0 <= i < keep.len() ==> f.ensures((&old(v)@[i],), #[trigger] keep[i]))
            && final(v)@ == mask_filter(old(v)@, keep),
;
// <[T]>::sort_by: a rearrangement of the same elements in which no earlier element compares Greater than a later one
pub assume_specification<T, F: FnMut(&T, &T) -> core::cmp::Ordering>[ <[T]>::sort_by ](v: &mut [T], f: F)
    ensures
        final(v)@.to_multiset() == old(v)@.to_multiset(),
        forall|i: int, j: int| #![trigger final(v)@[i], final(v)@[j]] 0 <= i < j < final(v)@.len() ==>
            exists|o: core::cmp::Ordering| #[trigger] f.ensures((&final(v)@[i], &final(v)@[j]), o) && !(o is Greater),
;
// R-TAKE: v.into_iter().take(n).collect::<Vec<_>>()
#[verifier::external_body]
pub fn vx_take<T>(v: Vec<T>, n: usize) -> (r: Vec<T>)
    ensures r@ == v@.take(if n <= v@.len() { n as int } else { v@.len() as int })
{ unimplemented!() }

// <[T]>::reverse
pub assume_specification<T>[ <[T]>::reverse ](v: &mut [T])
    ensures final(v)@ == old(v)@.reverse();
