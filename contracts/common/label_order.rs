// ---- order vocabulary for labels: the bit-lexicographic order of the 256-bit padded values, then the length
// (the sort order of the auditor's node-set validation; also the order behind Ord for equal-length labels)
pub open spec fn bits_lt_at(a: NodeLabel, b: NodeLabel, t: int) -> bool {
    0 <= t < 256 && agree(a, b, t) && !bit(a, t) && bit(b, t)
}
pub open spec fn bits_lt(a: NodeLabel, b: NodeLabel) -> bool { exists|t: int| bits_lt_at(a, b, t) }
pub open spec fn bits_eq(a: NodeLabel, b: NodeLabel) -> bool { agree(a, b, 256) }
pub open spec fn ord_le(a: NodeLabel, b: NodeLabel) -> bool {
    bits_lt(a, b) || (bits_eq(a, b) && a.label_len <= b.label_len)
}
pub open spec fn first_diff(a: NodeLabel, b: NodeLabel, t: int) -> bool { 0 <= t < 256 && agree(a, b, t) && bit(a, t) != bit(b, t) }

// if two labels differ at bit d there is a FIRST differing position t <= d
pub proof fn lemma_first_diff(a: NodeLabel, b: NodeLabel, d: int)
    requires 0 <= d < 256, bit(a, d) != bit(b, d)
    ensures exists|t: int| t <= d && #[trigger] first_diff(a, b, t)
    decreases d
{
    if agree(a, b, d) {
        assert(first_diff(a, b, d));
    } else {
        let e = choose|i: int| 0 <= i < d && bit(a, i) != bit(b, i);
        lemma_first_diff(a, b, e);
        let t = choose|t: int| t <= e && #[trigger] first_diff(a, b, t);
        assert(t <= d && first_diff(a, b, t));
    }
}

// interval lemma: a <= b <= c (bitwise lexicographic) and a, c agree on the first k bits ==> b agrees with a on them
pub proof fn lemma_interval(a: NodeLabel, b: NodeLabel, c: NodeLabel, k: int)
    requires 0 <= k <= 256, bits_lt(a, b) || bits_eq(a, b), bits_lt(b, c) || bits_eq(b, c), agree(a, c, k)
    ensures agree(a, b, k)
{
    if bits_eq(a, b) {
    } else {
        let t = choose|t: int| bits_lt_at(a, b, t);
        if t < k {
            assert(bit(a, t) == bit(c, t));
            if bits_eq(b, c) {
                assert(bit(b, t) == bit(c, t));
            } else {
                let u = choose|u: int| bits_lt_at(b, c, u);
                if u > t { assert(bit(b, t) == bit(c, t)); }
                else if u == t { }
                else { assert(bit(a, u) == bit(b, u)); assert(bit(a, u) == bit(c, u)); }
            }
            assert(false);
        }
        assert forall|i: int| 0 <= i < k implies bit(a, i) == bit(b, i) by { }
    }
}

// a canonical prefix is below (or equal to) the longer label in the sort order
pub proof fn lemma_pfx_le(a: NodeLabel, b: NodeLabel)
    requires canon(a), canon(b), pfx(a, b)
    ensures ord_le(a, b)
{
    if bits_eq(a, b) {
    } else {
        let d = choose|i: int| 0 <= i < 256 && bit(a, i) != bit(b, i);
        lemma_first_diff(a, b, d);
        let t = choose|t: int| t <= d && #[trigger] first_diff(a, b, t);
        assert(t >= a.label_len) by { if t < a.label_len { assert(bit(a, t) == bit(b, t)); } }
        assert(!bit(a, t));
        assert(bits_lt_at(a, b, t));
    }
}

// the order is antisymmetric up to (bits, length): a <= b and b <= a force equal padded bits and equal lengths
pub proof fn lemma_ord_antisym(a: NodeLabel, b: NodeLabel)
    requires ord_le(a, b), ord_le(b, a)
    ensures bits_eq(a, b), a.label_len == b.label_len
{
    if bits_lt(a, b) {
        let t = choose|t: int| bits_lt_at(a, b, t);
        if bits_lt(b, a) {
            let u = choose|u: int| bits_lt_at(b, a, u);
            if u < t { assert(bit(a, u) == bit(b, u)); } else if t < u { assert(bit(b, t) == bit(a, t)); } else { }
        } else { assert(bit(b, t) == bit(a, t)); }
        assert(false);
    }
    if bits_lt(b, a) {
        let u = choose|u: int| bits_lt_at(b, a, u);
        assert(bit(a, u) == bit(b, u));
        assert(false);
    }
}

// L-ADJ: in a sequence sorted by ord_le, a prefix pair (i < j) forces the adjacent pair (i, i+1) to be a prefix pair
pub proof fn lemma_adjacent(s: Seq<NodeLabel>, i: int, j: int)
    requires
        forall|k: int| 0 <= k < s.len() ==> canon(#[trigger] s[k]),
        forall|x: int, y: int| 0 <= x < y < s.len() ==> ord_le(#[trigger] s[x], #[trigger] s[y]),
        0 <= i < j < s.len(), pfx(s[i], s[j]),
    ensures pfx(s[i], s[i + 1])
{
    let a = s[i]; let b = s[i + 1]; let c = s[j];
    let k = a.label_len as int;
    if i + 1 == j { } else {
        assert(ord_le(a, b) && ord_le(b, c));
        lemma_interval(a, b, c, k);
        if bits_eq(a, b) {
            assert(a.label_len <= b.label_len);
        } else {
            let t = choose|t: int| bits_lt_at(a, b, t);
            assert(t >= k) by { if t < k { assert(bit(a, t) == bit(b, t)); } }
            assert(b.label_len > t) by { if b.label_len <= t { assert(!bit(b, t)); } }
        }
    }
}

// L-SORTED-PREFIX-FREE: a sorted sequence of canonical labels without an adjacent prefix pair has no prefix pair at all
pub proof fn lemma_sorted_prefix_free(s: Seq<NodeLabel>)
    requires
        forall|k: int| 0 <= k < s.len() ==> canon(#[trigger] s[k]),
        forall|x: int, y: int| 0 <= x < y < s.len() ==> ord_le(#[trigger] s[x], #[trigger] s[y]),
        forall|k: int| 1 <= k < s.len() ==> !pfx(#[trigger] s[k - 1], s[k]),
    ensures forall|i: int, j: int| 0 <= i < s.len() && 0 <= j < s.len() && i != j ==> !pfx(#[trigger] s[i], #[trigger] s[j])
{
    assert forall|i: int, j: int| 0 <= i < s.len() && 0 <= j < s.len() && i != j implies !pfx(#[trigger] s[i], #[trigger] s[j]) by {
        if pfx(s[i], s[j]) {
            if i < j {
                lemma_adjacent(s, i, j);
                assert(!pfx(s[(i + 1) - 1], s[i + 1]));
            } else {
                // j < i: sorted gives s[j] <= s[i]; the prefix gives s[i] <= s[j]; so they have equal bits and lengths: s[j] is a prefix of s[i] too
                lemma_pfx_le(s[i], s[j]);
                assert(ord_le(s[j], s[i]));
                lemma_ord_antisym(s[i], s[j]);
                assert(pfx(s[j], s[i])) by {
                    assert forall|q: int| 0 <= q < s[j].label_len implies bit(s[j], q) == bit(s[i], q) by { }
                }
                lemma_adjacent(s, j, i);
                assert(!pfx(s[(j + 1) - 1], s[j + 1]));
            }
        }
    }
}

// ---- bytes vs bits: the byte-wise lexicographic order of [u8; 32] (what `<[u8; 32] as Ord>::cmp` computes) is the bit-lexicographic order
pub open spec fn bytes_lt_at(x: [u8; 32], y: [u8; 32], j: int) -> bool {
    0 <= j < 32 && (forall|i: int| 0 <= i < j ==> x[i] == y[i]) && x[j] < y[j]
}
pub open spec fn bytes_lt(x: [u8; 32], y: [u8; 32]) -> bool { exists|j: int| bytes_lt_at(x, y, j) }

// for bytes x < y the first differing bit (MSB first) is 0 in x and 1 in y
pub proof fn lemma_byte_lt(x: u8, y: u8) -> (r: int)
    requires x < y
    ensures 0 <= r < 8, !byte_bit(x, r), byte_bit(y, r), forall|q: int| 0 <= q < r ==> byte_bit(x, q) == byte_bit(y, q)
{
    // r = number of equal leading bits
    assert(x < y ==>
        (((x >> 7u8) & 1u8) == 0u8 && ((y >> 7u8) & 1u8) == 1u8)
     || ((x >> 7u8) == (y >> 7u8) && ((x >> 6u8) & 1u8) == 0u8 && ((y >> 6u8) & 1u8) == 1u8)
     || ((x >> 6u8) == (y >> 6u8) && ((x >> 5u8) & 1u8) == 0u8 && ((y >> 5u8) & 1u8) == 1u8)
     || ((x >> 5u8) == (y >> 5u8) && ((x >> 4u8) & 1u8) == 0u8 && ((y >> 4u8) & 1u8) == 1u8)
     || ((x >> 4u8) == (y >> 4u8) && ((x >> 3u8) & 1u8) == 0u8 && ((y >> 3u8) & 1u8) == 1u8)
     || ((x >> 3u8) == (y >> 3u8) && ((x >> 2u8) & 1u8) == 0u8 && ((y >> 2u8) & 1u8) == 1u8)
     || ((x >> 2u8) == (y >> 2u8) && ((x >> 1u8) & 1u8) == 0u8 && ((y >> 1u8) & 1u8) == 1u8)
     || ((x >> 1u8) == (y >> 1u8) && ((x >> 0u8) & 1u8) == 0u8 && ((y >> 0u8) & 1u8) == 1u8)) by(bit_vector);
    // equal shifted prefixes give equal individual bits
    assert(((x >> 7u8) == (y >> 7u8) ==> ((x >> 7u8) & 1u8) == ((y >> 7u8) & 1u8))
        && ((x >> 6u8) == (y >> 6u8) ==> ((x >> 7u8) & 1u8) == ((y >> 7u8) & 1u8) && ((x >> 6u8) & 1u8) == ((y >> 6u8) & 1u8))
        && ((x >> 5u8) == (y >> 5u8) ==> ((x >> 7u8) & 1u8) == ((y >> 7u8) & 1u8) && ((x >> 6u8) & 1u8) == ((y >> 6u8) & 1u8) && ((x >> 5u8) & 1u8) == ((y >> 5u8) & 1u8))
        && ((x >> 4u8) == (y >> 4u8) ==> ((x >> 7u8) & 1u8) == ((y >> 7u8) & 1u8) && ((x >> 6u8) & 1u8) == ((y >> 6u8) & 1u8) && ((x >> 5u8) & 1u8) == ((y >> 5u8) & 1u8) && ((x >> 4u8) & 1u8) == ((y >> 4u8) & 1u8))
        && ((x >> 3u8) == (y >> 3u8) ==> ((x >> 7u8) & 1u8) == ((y >> 7u8) & 1u8) && ((x >> 6u8) & 1u8) == ((y >> 6u8) & 1u8) && ((x >> 5u8) & 1u8) == ((y >> 5u8) & 1u8) && ((x >> 4u8) & 1u8) == ((y >> 4u8) & 1u8) && ((x >> 3u8) & 1u8) == ((y >> 3u8) & 1u8))
        && ((x >> 2u8) == (y >> 2u8) ==> ((x >> 7u8) & 1u8) == ((y >> 7u8) & 1u8) && ((x >> 6u8) & 1u8) == ((y >> 6u8) & 1u8) && ((x >> 5u8) & 1u8) == ((y >> 5u8) & 1u8) && ((x >> 4u8) & 1u8) == ((y >> 4u8) & 1u8) && ((x >> 3u8) & 1u8) == ((y >> 3u8) & 1u8) && ((x >> 2u8) & 1u8) == ((y >> 2u8) & 1u8))
        && ((x >> 1u8) == (y >> 1u8) ==> ((x >> 7u8) & 1u8) == ((y >> 7u8) & 1u8) && ((x >> 6u8) & 1u8) == ((y >> 6u8) & 1u8) && ((x >> 5u8) & 1u8) == ((y >> 5u8) & 1u8) && ((x >> 4u8) & 1u8) == ((y >> 4u8) & 1u8) && ((x >> 3u8) & 1u8) == ((y >> 3u8) & 1u8) && ((x >> 2u8) & 1u8) == ((y >> 2u8) & 1u8) && ((x >> 1u8) & 1u8) == ((y >> 1u8) & 1u8))) by(bit_vector);
    let r: int =
        if ((x >> 7u8) & 1u8) == 0u8 && ((y >> 7u8) & 1u8) == 1u8 { 0 }
        else if (x >> 7u8) == (y >> 7u8) && ((x >> 6u8) & 1u8) == 0u8 && ((y >> 6u8) & 1u8) == 1u8 { 1 }
        else if (x >> 6u8) == (y >> 6u8) && ((x >> 5u8) & 1u8) == 0u8 && ((y >> 5u8) & 1u8) == 1u8 { 2 }
        else if (x >> 5u8) == (y >> 5u8) && ((x >> 4u8) & 1u8) == 0u8 && ((y >> 4u8) & 1u8) == 1u8 { 3 }
        else if (x >> 4u8) == (y >> 4u8) && ((x >> 3u8) & 1u8) == 0u8 && ((y >> 3u8) & 1u8) == 1u8 { 4 }
        else if (x >> 3u8) == (y >> 3u8) && ((x >> 2u8) & 1u8) == 0u8 && ((y >> 2u8) & 1u8) == 1u8 { 5 }
        else if (x >> 2u8) == (y >> 2u8) && ((x >> 1u8) & 1u8) == 0u8 && ((y >> 1u8) & 1u8) == 1u8 { 6 }
        else { 7 };
    assert forall|q: int| 0 <= q < r implies byte_bit(x, q) == byte_bit(y, q) by {
        if q == 0 {} else if q == 1 {} else if q == 2 {} else if q == 3 {} else if q == 4 {} else if q == 5 {} else {}
    }
    r
}

// bytes_lt ==> bits_lt, and equal arrays ==> bits_eq
pub proof fn lemma_bytes_lt_bits(a: NodeLabel, b: NodeLabel)
    requires bytes_lt(a.label_val, b.label_val)
    ensures bits_lt(a, b)
{
    let j = choose|j: int| bytes_lt_at(a.label_val, b.label_val, j);
    let r = lemma_byte_lt(a.label_val[j], b.label_val[j]);
    let t = 8 * j + r;
    assert(t / 8 == j && t % 8 == r);
    assert forall|i: int| 0 <= i < t implies bit(a, i) == bit(b, i) by {
        if i / 8 < j { assert(a.label_val[i / 8] == b.label_val[i / 8]); }
        else { assert(i / 8 == j && i % 8 < r); }
    }
    assert(bits_lt_at(a, b, t));
}
