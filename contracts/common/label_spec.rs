// ---- bit-string vocabulary for node labels (DESIGN section 4)
pub open spec fn byte_bit(b: u8, r: int) -> bool { (b >> ((7 - r) as u8)) & 1u8 == 1u8 }
pub open spec fn bit(l: NodeLabel, i: int) -> bool { byte_bit(l.label_val[i / 8], i % 8) }
pub open spec fn wf(l: NodeLabel) -> bool { l.label_len <= 256 }
pub open spec fn canon(l: NodeLabel) -> bool {
    wf(l) && forall|i: int| l.label_len <= i < 256 ==> !#[trigger] bit(l, i)
}
// the root label: length 0, canonical (all bits clear) - the only such label (lemma_root_unique)
pub open spec fn is_root(l: NodeLabel) -> bool { l.label_len == 0 && canon(l) }
// the first n bits agree
pub open spec fn agree(a: NodeLabel, b: NodeLabel, n: int) -> bool {
    forall|i: int| #![trigger bit(a, i)] #![trigger bit(b, i)] 0 <= i < n ==> bit(a, i) == bit(b, i)
}
// a is a prefix of b as bit strings
pub open spec fn pfx(a: NodeLabel, b: NodeLabel) -> bool {
    a.label_len <= b.label_len && agree(a, b, a.label_len as int)
}

// a byte is determined by its eight bits
pub proof fn lemma_byte_ext(x: u8, y: u8)
    requires forall|r: int| 0 <= r < 8 ==> #[trigger] byte_bit(x, r) == byte_bit(y, r)
    ensures x == y
{
    assert(byte_bit(x, 0) == byte_bit(y, 0)); assert(byte_bit(x, 1) == byte_bit(y, 1));
    assert(byte_bit(x, 2) == byte_bit(y, 2)); assert(byte_bit(x, 3) == byte_bit(y, 3));
    assert(byte_bit(x, 4) == byte_bit(y, 4)); assert(byte_bit(x, 5) == byte_bit(y, 5));
    assert(byte_bit(x, 6) == byte_bit(y, 6)); assert(byte_bit(x, 7) == byte_bit(y, 7));
    assert(((x >> 7u8) & 1u8 == 1u8) == ((y >> 7u8) & 1u8 == 1u8) && ((x >> 6u8) & 1u8 == 1u8) == ((y >> 6u8) & 1u8 == 1u8)
        && ((x >> 5u8) & 1u8 == 1u8) == ((y >> 5u8) & 1u8 == 1u8) && ((x >> 4u8) & 1u8 == 1u8) == ((y >> 4u8) & 1u8 == 1u8)
        && ((x >> 3u8) & 1u8 == 1u8) == ((y >> 3u8) & 1u8 == 1u8) && ((x >> 2u8) & 1u8 == 1u8) == ((y >> 2u8) & 1u8 == 1u8)
        && ((x >> 1u8) & 1u8 == 1u8) == ((y >> 1u8) & 1u8 == 1u8) && ((x >> 0u8) & 1u8 == 1u8) == ((y >> 0u8) & 1u8 == 1u8)
        ==> x == y) by(bit_vector);
}

// two canonical labels of the same length are equal iff their bits agree
pub proof fn lemma_label_ext(a: NodeLabel, b: NodeLabel)
    requires canon(a), canon(b), a.label_len == b.label_len, agree(a, b, a.label_len as int)
    ensures a == b
{
    assert forall|k: int| 0 <= k < 32 implies a.label_val[k] == b.label_val[k] by {
        assert forall|r: int| 0 <= r < 8 implies #[trigger] byte_bit(a.label_val[k], r) == byte_bit(b.label_val[k], r) by {
            let i = 8 * k + r;
            assert(i / 8 == k && i % 8 == r);
            assert(bit(a, i) == byte_bit(a.label_val[k], r));
            assert(bit(b, i) == byte_bit(b.label_val[k], r));
            if i < a.label_len { assert(bit(a, i) == bit(b, i)); } else { assert(!bit(a, i) && !bit(b, i)); }
        }
        lemma_byte_ext(a.label_val[k], b.label_val[k]);
    }
    assert(a.label_val =~= b.label_val);
}

// the length of the longest common prefix, as the property states it
pub open spec fn is_lcplen(a: NodeLabel, b: NodeLabel, k: int) -> bool {
    0 <= k <= a.label_len && k <= b.label_len && agree(a, b, k)
    && (k < a.label_len && k < b.label_len ==> bit(a, k) != bit(b, k))
}
// r is the prefix of l of length n (meaning of get_prefix for n <= len)
pub open spec fn is_prefix_n(r: NodeLabel, l: NodeLabel, n: int) -> bool {
    if n >= 256 { r == l } else { r.label_len == n && canon(r) && agree(r, l, n) }
}


// all bits of a zero byte are zero
pub proof fn lemma_root_unique(a: NodeLabel, b: NodeLabel)
    requires is_root(a), is_root(b)
    ensures a == b
{
    lemma_label_ext(a, b);
}
pub proof fn lemma_zero_byte()
    ensures forall|r: int| 0 <= r < 8 ==> !#[trigger] byte_bit(0u8, r)
{
    assert((0u8 >> 7u8) & 1u8 == 0u8 && (0u8 >> 6u8) & 1u8 == 0u8 && (0u8 >> 5u8) & 1u8 == 0u8 && (0u8 >> 4u8) & 1u8 == 0u8
        && (0u8 >> 3u8) & 1u8 == 0u8 && (0u8 >> 2u8) & 1u8 == 0u8 && (0u8 >> 1u8) & 1u8 == 0u8 && (0u8 >> 0u8) & 1u8 == 0u8) by(bit_vector);
    assert forall|r: int| 0 <= r < 8 implies !#[trigger] byte_bit(0u8, r) by {
        if r == 0 {} else if r == 1 {} else if r == 2 {} else if r == 3 {} else if r == 4 {} else if r == 5 {} else if r == 6 {} else {}
    }
}
