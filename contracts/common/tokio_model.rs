use core::future::Future;
// ---- tokio task model: a spawned future runs to completion or the join reports an error; a joined value is the future's value
pub mod tokio {
    use super::*;
    pub mod task {
        use super::*;
        #[verifier::external_body]
        #[verifier::reject_recursive_types(T)]
        pub struct JoinHandle<T> { _t: core::marker::PhantomData<T> }
        #[verifier::external_body]
        pub struct JoinError { _p: () }
        impl JoinError {
            #[verifier::external_body]
            pub fn to_string(&self) -> String { unimplemented!() }
        }
        #[verifier::external_body]
        pub fn spawn<F: Future>(f: F) -> (h: JoinHandle<F::Output>)
            ensures h@ is Ok ==> f.awaited() && h@->Ok_0 == f@
        { unimplemented!() }
        // JoinSet: join_next hands out the value of SOME spawned task that ran to completion - completion order is NOT spawn order
        #[verifier::external_body]
        #[verifier::reject_recursive_types(T)]
        pub struct JoinSet<T> { _t: core::marker::PhantomData<T> }
        impl<T> JoinSet<T> {
            pub uninterp spec fn may_yield(&self, v: T) -> bool;
            // completeness side: tasks are numbered by spawn order; ids() = spawned and not yet handed out; yields(id, v) = task `id` ran to
            // completion with value v. join_next answers None only when no task is left (tokio: "returns None if the set is empty")
            pub uninterp spec fn ids(&self) -> Set<int>;
            pub uninterp spec fn count(&self) -> int;
            pub uninterp spec fn yields(&self, id: int, v: T) -> bool;
            #[verifier::external_body]
            pub fn new() -> (r: Self)
                ensures forall|v: T| !r.may_yield(v), r.ids() == Set::<int>::empty(), r.count() == 0, forall|id: int, v: T| !r.yields(id, v)
            { unimplemented!() }
            #[verifier::external_body]
            pub fn spawn<F: Future<Output = T>>(&mut self, f: F)
                ensures forall|v: T| #[trigger] final(self).may_yield(v) ==> old(self).may_yield(v) || (f.awaited() && v == f@),
                        final(self).count() == old(self).count() + 1,
                        final(self).ids() == old(self).ids().insert(old(self).count()),
                        forall|id: int, v: T| #[trigger] final(self).yields(id, v) ==> (if id == old(self).count() { f.awaited() && v == f@ } else { old(self).yields(id, v) }),
            { unimplemented!() }
            #[verifier::external_body]
            pub async fn join_next(&mut self) -> (r: Option<Result<T, JoinError>>)
                ensures (r matches Some(Ok(v)) ==> old(self).may_yield(v)
                            && exists|id: int| old(self).ids().contains(id) && #[trigger] old(self).yields(id, v) && final(self).ids() == old(self).ids().remove(id)),
                        r is None ==> final(self).ids() == old(self).ids() && forall|id: int| !old(self).ids().contains(id),
                        forall|v: T| #[trigger] final(self).may_yield(v) ==> old(self).may_yield(v),
                        final(self).count() == old(self).count(),
                        forall|id: int, v: T| #[trigger] final(self).yields(id, v) ==> old(self).yields(id, v),
            { unimplemented!() }
        }
        #[verifier::external]
        impl<T> core::future::Future for JoinHandle<T> {
            type Output = Result<T, JoinError>;
            fn poll(self: core::pin::Pin<&mut Self>, cx: &mut core::task::Context<'_>) -> core::task::Poll<Self::Output> { unimplemented!() }
        }
    }
    pub use self::task::spawn;
}

