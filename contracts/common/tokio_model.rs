use core::future::Future;
// ---- tokio task model: a spawned future runs to completion or the join reports an error; a joined value is the future's value
pub mod tokio {
    use super::*;
    pub mod task {
        use super::*;
        #[verifier::external_body]
        #[verifier::reject_recursive_types(T)]
        pub struct JoinHandle<T> { _t: core::marker::PhantomData<T> }
        #[verifier::external_body]
        pub struct JoinError { _p: () }
        impl JoinError {
            #[verifier::external_body]
            pub fn to_string(&self) -> String { unimplemented!() }
        }
        #[verifier::external_body]
        pub fn spawn<F: Future>(f: F) -> (h: JoinHandle<F::Output>)
            ensures h@ is Ok ==> f.awaited() && h@->Ok_0 == f@
        { unimplemented!() }
        #[verifier::external]
        impl<T> core::future::Future for JoinHandle<T> {
            type Output = Result<T, JoinError>;
            fn poll(self: core::pin::Pin<&mut Self>, cx: &mut core::task::Context<'_>) -> core::task::Poll<Self::Output> { unimplemented!() }
        }
    }
    pub use self::task::spawn;
}

