// ---- Configuration: the cryptographic configuration as uninterpreted spec functions of its byte inputs
// (DESIGN section 4/7, T4). Every exec method returns exactly its spec function: this is the assumption that the
// hashes are deterministic functions; no other property (e.g. collision resistance) is assumed by the contracts.
pub trait Configuration {
    spec fn spec_hash(item: Seq<u8>) -> Digest;
    spec fn spec_leaf_value(value: Seq<u8>, epoch: u64, nonce: Seq<u8>) -> Digest;
    spec fn spec_leaf_commit(commitment: AzksValue, epoch: u64) -> Digest;
    spec fn spec_label_input(label: Seq<u8>, freshness: VersionFreshness, version: u64) -> Seq<u8>;
    spec fn spec_parent(l: AzksValue, ll: Seq<u8>, r: AzksValue, rl: Seq<u8>) -> AzksValue;
    spec fn spec_root(v: AzksValue) -> Digest;
    spec fn spec_stale() -> AzksValue;
    spec fn spec_node_label_value(bytes: Seq<u8>) -> Seq<u8>;
    spec fn spec_empty_label() -> NodeLabel;

    fn hash(item: &[u8]) -> (r: crate::hash::Digest)
        ensures r == Self::spec_hash(item@);
    fn hash_leaf_with_value(value: &crate::AkdValue, epoch: u64, nonce: &[u8]) -> (r: AzksValueWithEpoch)
        ensures r.0 == Self::spec_leaf_value(value.0@, epoch, nonce@);
    fn hash_leaf_with_commitment(commitment: AzksValue, epoch: u64) -> (r: AzksValueWithEpoch)
        ensures r.0 == Self::spec_leaf_commit(commitment, epoch);
    fn get_hash_from_label_input(label: &AkdLabel, freshness: VersionFreshness, version: u64) -> (r: Vec<u8>)
        ensures r@ == Self::spec_label_input(label.0@, freshness, version);
    fn compute_parent_hash_from_children(left_val: &AzksValue, left_label: &[u8], right_val: &AzksValue, right_label: &[u8]) -> (r: AzksValue)
        ensures r == Self::spec_parent(*left_val, left_label@, *right_val, right_label@);
    fn compute_root_hash_from_val(root_val: &AzksValue) -> (r: Digest)
        ensures r == Self::spec_root(*root_val);
    fn stale_azks_value() -> (r: AzksValue)
        ensures r == Self::spec_stale();
    fn compute_node_label_value(bytes: &[u8]) -> (r: Vec<u8>)
        ensures r@ == Self::spec_node_label_value(bytes@);
    fn empty_label() -> (r: NodeLabel)
        ensures r == Self::spec_empty_label(), r.label_len == 0;
}
// crate paths used by the extracted code
pub mod hash { pub use super::Digest; pub use super::DIGEST_BYTES; }
pub mod configuration { pub use super::Configuration; }

// serialisation of a node label fed to the configuration's label hash (to_bytes = be32(len) || val; checked by Kani under C18)
pub uninterp spec fn label_bytes(l: NodeLabel) -> Seq<u8>;
pub open spec fn spec_label_value<TC: Configuration>(l: NodeLabel) -> Seq<u8> { TC::spec_node_label_value(label_bytes(l)) }

// [u8; 32] == [u8; 32] in exec code is == on the values (vstd's array eq_spec is opaque)
#[verifier::external_body]
pub proof fn axiom_digest_eq()
    ensures forall|a: [u8; 32], b: [u8; 32]| #[trigger] vstd::std_specs::cmp::PartialEqSpec::eq_spec(&a, &b) == (a == b)
{}
