// ---- assumed std specifications shared by the units (T3 of DESIGN section 7)
// Result<T, E> == Result<T, E>: vstd gives it no spec. Assumed: structural on the Ok side, Ok never equals Err.
pub assume_specification<T: PartialEq, E: PartialEq>[ <Result<T, E> as PartialEq>::eq ](a: &Result<T, E>, b: &Result<T, E>) -> (r: bool)
    ensures (a is Ok && b is Ok && T::obeys_eq_spec()) ==> r == a->Ok_0.eq_spec(&b->Ok_0),
            (a is Ok) != (b is Ok) ==> !r;

// R-FMT target: an arbitrary String standing for the text of an error message
#[verifier::external_body]
pub fn vx_msg() -> (r: String) { unimplemented!() }
