// ---- assumed std specifications shared by the units (T3 of DESIGN section 7)
// Result<T, E> == Result<T, E>: vstd gives it no spec. Assumed: structural on the Ok side, Ok never equals Err.
pub assume_specification<T: PartialEq, E: PartialEq>[ <Result<T, E> as PartialEq>::eq ](a: &Result<T, E>, b: &Result<T, E>) -> (r: bool)
    ensures (a is Ok && b is Ok && T::obeys_eq_spec()) ==> r == a->Ok_0.eq_spec(&b->Ok_0),
            (a is Ok) != (b is Ok) ==> !r;

// R-FMT target: an arbitrary String standing for the text of an error message
#[verifier::external_body]
pub fn vx_msg() -> (r: String) { unimplemented!() }

// Vec<T> == &[U] (used for the tombstone test on bytes): element-wise equality; stated for T = U with structural eq
pub assume_specification<'a, T: PartialEq<U>, U, A: core::alloc::Allocator>[ <Vec<T, A> as PartialEq<&'a [U]>>::eq ](a: &Vec<T, A>, b: &&[U]) -> (r: bool)
    ensures a@.len() != (*b)@.len() ==> !r,
            a@.len() == 0 && (*b)@.len() == 0 ==> r;

// core::cmp::{max, min} through cmp_spec
pub assume_specification<T: core::cmp::Ord>[ core::cmp::max::<T> ](a: T, b: T) -> (r: T)
    ensures T::obeys_cmp_spec() ==> r == (if b.cmp_spec(&a) == core::cmp::Ordering::Less { a } else { b });
pub assume_specification<T: core::cmp::Ord>[ core::cmp::min::<T> ](a: T, b: T) -> (r: T)
    ensures T::obeys_cmp_spec() ==> r == (if b.cmp_spec(&a) == core::cmp::Ordering::Less { b } else { a });

// Vec<T> != &[U]
pub assume_specification<'a, T: PartialEq<U>, U, A: core::alloc::Allocator>[ <Vec<T, A> as PartialEq<&'a [U]>>::ne ](a: &Vec<T, A>, b: &&[U]) -> (r: bool)
    ensures a@.len() != (*b)@.len() ==> r,
            a@.len() == 0 && (*b)@.len() == 0 ==> !r;
// <[T]>::to_vec: an element-wise copy (stated for the length and, for Copy element types, the contents)
pub assume_specification<T: Clone>[ <[T]>::to_vec ](s: &[T]) -> (r: Vec<T>)
    ensures r@.len() == s@.len(),
            forall|i: int| 0 <= i < s@.len() ==> vstd::pervasive::cloned::<T>(s@[i], #[trigger] r@[i]);

// Option::filter: Some(x) is kept exactly when the predicate answers true for it
pub assume_specification<T, P: FnOnce(&T) -> bool>[ Option::<T>::filter ](o: Option<T>, predicate: P) -> (r: Option<T>)
    requires o is Some ==> predicate.requires((&o->0,)),
    ensures
        o is None ==> r is None,
        (o is Some && r is Some) ==> r == o && predicate.ensures((&o->0,), true),
        (o is Some && r is None) ==> predicate.ensures((&o->0,), false),
;
