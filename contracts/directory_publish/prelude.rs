// ---- directory_publish unit (C10): the transactional tail of Directory::publish
use vstd::future::FutureAdditionalSpecFns;
pub mod akd_core {
    pub mod ecvrf { pub use crate::VrfError; }
    pub mod verify { pub use crate::VerificationError; }
}
pub enum VrfError { PublicKey(String), SigningKey(String), Verification(String) }
pub enum VerificationError { MembershipProof(String), NonMembershipProof(String), LookupProof(String), HistoryProof(String), Vrf(VrfError) }
pub trait Configuration {
    spec fn spec_stale() -> AzksValue;
    spec fn spec_fresh(commitment_key: Seq<u8>, label: NodeLabel, version: u64, value: Seq<u8>) -> AzksValue;
    fn stale_azks_value() -> (r: AzksValue)
        ensures r == Self::spec_stale();
    fn compute_fresh_azks_value(commitment_key: &[u8], label: &NodeLabel, version: u64, value: &AkdValue) -> (r: AzksValue)
        ensures r == Self::spec_fresh(commitment_key@, *label, version, value.0@);
}
pub trait Database {}
pub trait VRFKeyStorage {}
#[verifier::external_body]
#[verifier::reject_recursive_types(Db)]
pub struct StorageManager<Db: Database> { _s: core::marker::PhantomData<Db> }

// MODEL of akd/src/directory.rs::Directory: the fields the verified segments touch (the cache lock is taken before the segment starts)
#[verifier::reject_recursive_types(S)]
#[verifier::reject_recursive_types(TC)]
#[verifier::reject_recursive_types(V)]
pub struct Directory<TC, S: Database, V> {
    pub storage: StorageManager<S>,
    pub vrf: V,
    pub parallelism_config: AzksParallelismConfig,
    pub tc: core::marker::PhantomData<TC>,
}

// knowledge gained during ONE publish call (monotone: each fact can only be learnt from the postcondition of the call that makes it true)
// "rollback_transaction has been called on this manager"
pub uninterp spec fn rolled_back<S: Database>(st: &StorageManager<S>) -> bool;
// "commit_transaction has returned Ok on this manager"
pub uninterp spec fn commit_accepted<S: Database>(st: &StorageManager<S>) -> bool;

impl vstd::std_specs::convert::FromSpecImpl<StorageError> for AkdError {
    open spec fn obeys_from_spec() -> bool { true }
    open spec fn from_spec(e: StorageError) -> Self { AkdError::Storage(e) }
}

// ---- C12: a batch prepared against one epoch is applied only if the epoch record, read again once this call's transaction has begun,
// still shows that epoch (knowledge tokens of one call; what the tokens cannot say is the ORDER of begin and re-read - both are inside
// the verified segment, in that order in the text)
pub uninterp spec fn txn_begun<S: Database>(st: &StorageManager<S>) -> bool;
// "the value a came from a read of the epoch record that bypassed the cache, made by a call whose transaction had begun"
pub uninterp spec fn fresh_epoch_read<S: Database>(st: &StorageManager<S>, a: Azks) -> bool;
// permission to start writing the batch prepared for epoch e
pub uninterp spec fn epoch_confirmed(e: u64) -> bool;
#[verifier::external_body]
pub proof fn grant_epoch_confirmed<S: Database>(st: &StorageManager<S>, a: Azks, e: u64)
    requires fresh_epoch_read(st, a), a.latest_epoch == e
    ensures epoch_confirmed(e)
{}
pub mod errors { pub use crate::AkdError; }

// ---- C01 (middle of publish): how the update set is built from the labelled tuples
use std::collections::HashMap;
pub type LabelInput = (AkdLabel, VersionFreshness, u64, AkdValue);
pub uninterp spec fn commitment_key_of<V>(vrf: &V) -> Result<Digest, AkdError>;
// R-MAPITER target: removes and returns an ARBITRARY entry (models every iteration order of a HashMap)
#[verifier::external_body]
pub fn vx_pop_any<K: core::hash::Hash + Eq, V>(m: &mut HashMap<K, V>) -> (r: Option<(K, V)>)
    ensures
        match r {
            Some((k, v)) => old(m)@.contains_key(k) && old(m)@[k] == v && final(m)@ == old(m)@.remove(k),
            None => old(m)@.dom() =~= Set::empty() && final(m)@ == old(m)@,
        }
{ unimplemented!() }
// the tree leaf the statement of C01 prescribes for one labelled tuple: a stale leaf carries the stale constant, a fresh leaf the
// commitment to (key-derived commitment key, node label, version, value)
pub open spec fn leaf_for<TC: Configuration>(ck: Seq<u8>, k: LabelInput, node_label: NodeLabel) -> AzksElement {
    AzksElement { label: node_label, value: if k.1 is Stale { TC::spec_stale() } else { TC::spec_fresh(ck, node_label, k.2, k.3.0@) } }
}
pub open spec fn state_for(k: LabelInput, node_label: NodeLabel, epoch: u64) -> ValueState {
    ValueState { value: k.3, version: k.2, label: node_label, epoch, username: k.0 }
}
pub open spec fn elem_ok<TC: Configuration>(m: Map<LabelInput, NodeLabel>, ck: Seq<u8>, el: AzksElement) -> bool {
    exists|k: LabelInput| m.contains_key(k) && #[trigger] leaf_for::<TC>(ck, k, m[k]) == el
}
pub open spec fn state_ok(m: Map<LabelInput, NodeLabel>, epoch: u64, st: ValueState) -> bool {
    exists|k: LabelInput| m.contains_key(k) && k.1 is Fresh && #[trigger] state_for(k, m[k], epoch) == st
}

impl<TC: Configuration, S: Database + 'static, V: VRFKeyStorage> Directory<TC, S, V> {
    // the ordinary read of the epoch record (through the object cache): it proves nothing about freshness
    #[verifier::external_body]
    pub(crate) async fn retrieve_azks(&self) -> (r: Result<Azks, AkdError>) { unimplemented!() }
}
