// ---- directory_publish unit (C10): the transactional tail of Directory::publish
use vstd::future::FutureAdditionalSpecFns;
pub mod akd_core {
    pub mod ecvrf { pub use crate::VrfError; }
    pub mod verify { pub use crate::VerificationError; }
}
pub enum VrfError { PublicKey(String), SigningKey(String), Verification(String) }
pub enum VerificationError { MembershipProof(String), NonMembershipProof(String), LookupProof(String), HistoryProof(String), Vrf(VrfError) }
pub trait Configuration {
    spec fn spec_stale() -> AzksValue;
    spec fn spec_fresh(commitment_key: Seq<u8>, label: NodeLabel, version: u64, value: Seq<u8>) -> AzksValue;
    fn stale_azks_value() -> (r: AzksValue)
        ensures r == Self::spec_stale();
    fn compute_fresh_azks_value(commitment_key: &[u8], label: &NodeLabel, version: u64, value: &AkdValue) -> (r: AzksValue)
        ensures r == Self::spec_fresh(commitment_key@, *label, version, value.0@);
}
pub trait Database {}
pub trait VRFKeyStorage {}
#[verifier::external_body]
#[verifier::reject_recursive_types(Db)]
pub struct StorageManager<Db: Database> { _s: core::marker::PhantomData<Db> }

// MODEL of akd/src/directory.rs::Directory: the fields the verified segments touch (the cache lock is taken before the segment starts)
#[verifier::reject_recursive_types(S)]
#[verifier::reject_recursive_types(TC)]
#[verifier::reject_recursive_types(V)]
pub struct Directory<TC, S: Database, V> {
    pub storage: StorageManager<S>,
    pub vrf: V,
    pub parallelism_config: AzksParallelismConfig,
    pub tc: core::marker::PhantomData<TC>,
}

// knowledge gained during ONE publish call (monotone: each fact can only be learnt from the postcondition of the call that makes it true)
// "rollback_transaction has been called on this manager"
pub uninterp spec fn rolled_back<S: Database>(st: &StorageManager<S>) -> bool;
// "commit_transaction has returned Ok on this manager"
pub uninterp spec fn commit_accepted<S: Database>(st: &StorageManager<S>) -> bool;

impl vstd::std_specs::convert::FromSpecImpl<StorageError> for AkdError {
    open spec fn obeys_from_spec() -> bool { true }
    open spec fn from_spec(e: StorageError) -> Self { AkdError::Storage(e) }
}

// ---- C12: a batch prepared against one epoch is applied only if the epoch record, read again once this call's transaction has begun,
// still shows that epoch (knowledge tokens of one call; what the tokens cannot say is the ORDER of begin and re-read - both are inside
// the verified segment, in that order in the text)
pub uninterp spec fn txn_begun<S: Database>(st: &StorageManager<S>) -> bool;
// "the value a came from a read of the epoch record that bypassed the cache, made by a call whose transaction had begun"
pub uninterp spec fn fresh_epoch_read<S: Database>(st: &StorageManager<S>, a: Azks) -> bool;
// permission to start writing the batch prepared for epoch e
pub uninterp spec fn epoch_confirmed(e: u64) -> bool;
#[verifier::external_body]
pub proof fn grant_epoch_confirmed<S: Database>(st: &StorageManager<S>, a: Azks, e: u64)
    requires fresh_epoch_read(st, a), a.latest_epoch == e
    ensures epoch_confirmed(e)
{}
pub mod errors { pub use crate::AkdError; }

// ---- C01 (middle of publish): how the update set is built from the labelled tuples
use std::collections::HashMap;
pub type LabelInput = (AkdLabel, VersionFreshness, u64, AkdValue);
pub uninterp spec fn commitment_key_of<V>(vrf: &V) -> Result<Digest, AkdError>;
// R-MAPITER target: removes and returns an ARBITRARY entry (models every iteration order of a HashMap)
#[verifier::external_body]
pub fn vx_pop_any<K: core::hash::Hash + Eq, V>(m: &mut HashMap<K, V>) -> (r: Option<(K, V)>)
    ensures
        match r {
            Some((k, v)) => old(m)@.contains_key(k) && old(m)@[k] == v && final(m)@ == old(m)@.remove(k),
            None => old(m)@.dom() =~= Set::empty() && final(m)@ == old(m)@,
        }
{ unimplemented!() }
// the tree leaf the statement of C01 prescribes for one labelled tuple: a stale leaf carries the stale constant, a fresh leaf the
// commitment to (key-derived commitment key, node label, version, value)
pub open spec fn leaf_for<TC: Configuration>(ck: Seq<u8>, k: LabelInput, node_label: NodeLabel) -> AzksElement {
    AzksElement { label: node_label, value: if k.1 is Stale { TC::spec_stale() } else { TC::spec_fresh(ck, node_label, k.2, k.3.0@) } }
}
pub open spec fn state_for(k: LabelInput, node_label: NodeLabel, epoch: u64) -> ValueState {
    ValueState { value: k.3, version: k.2, label: node_label, epoch, username: k.0 }
}
pub open spec fn elem_ok<TC: Configuration>(m: Map<LabelInput, NodeLabel>, ck: Seq<u8>, el: AzksElement) -> bool {
    exists|k: LabelInput| m.contains_key(k) && #[trigger] leaf_for::<TC>(ck, k, m[k]) == el
}
pub open spec fn state_ok(m: Map<LabelInput, NodeLabel>, epoch: u64, st: ValueState) -> bool {
    exists|k: LabelInput| m.contains_key(k) && k.1 is Fresh && #[trigger] state_for(k, m[k], epoch) == st
}

// ---- C02 / C03 (head of publish): which (label, freshness, version, value) tuples a batch turns into.
// `stored` is the bulk answer of the storage layer: label -> (version, value) of the label's latest state as of the current epoch.
// A label never seen gets version 1; a label re-submitted with the value it already has gets NOTHING (no new version, no new epoch on
// its account - the version counts the DISTINCT successive values); a changed value retires version v (stale marker) and creates v+1.
use vstd::std_specs::hash::*;
#[verifier::external_body]
pub broadcast proof fn axiom_label_key_model()
    ensures #[trigger] obeys_key_model::<AkdLabel>()
{}
pub open spec fn tuples_for(e: (AkdLabel, AkdValue), stored: Map<AkdLabel, (u64, AkdValue)>) -> Seq<LabelInput> {
    if !stored.contains_key(e.0) {
        seq![(e.0, VersionFreshness::Fresh, 1u64, e.1)]
    } else if stored[e.0].1 == e.1 {
        Seq::empty()
    } else {
        seq![(e.0, VersionFreshness::Stale, stored[e.0].0, e.1), (e.0, VersionFreshness::Fresh, (stored[e.0].0 + 1) as u64, e.1)]
    }
}
pub open spec fn all_tuples(batch: Seq<(AkdLabel, AkdValue)>, stored: Map<AkdLabel, (u64, AkdValue)>) -> Seq<LabelInput>
    decreases batch.len()
{
    if batch.len() == 0 { Seq::empty() } else { all_tuples(batch.drop_last(), stored) + tuples_for(batch.last(), stored) }
}
pub proof fn lemma_all_tuples_step(batch: Seq<(AkdLabel, AkdValue)>, stored: Map<AkdLabel, (u64, AkdValue)>, i: int)
    requires 0 <= i < batch.len()
    ensures all_tuples(batch.take(i + 1), stored) == all_tuples(batch.take(i), stored) + tuples_for(batch[i], stored)
{
    assert(batch.take(i + 1).drop_last() =~= batch.take(i));
    assert(batch.take(i + 1).last() == batch[i]);
}
pub open spec fn versions_below_max(stored: Map<AkdLabel, (u64, AkdValue)>) -> bool {
    forall|l: AkdLabel| #[trigger] stored.contains_key(l) ==> stored[l].0 < u64::MAX
}

// ---- C01 / C02 (very first part of publish): a batch that repeats a label is refused before anything is read or written; the stored
// versions are asked for exactly the labels of the batch, as of the epoch of the one epoch record read
use std::collections::HashSet;
pub open spec fn labels_of(s: Seq<(AkdLabel, AkdValue)>) -> Seq<AkdLabel> { s.map_values(|e: (AkdLabel, AkdValue)| e.0) }
pub proof fn lemma_labels_step(s: Seq<(AkdLabel, AkdValue)>, i: int)
    requires 0 <= i < s.len()
    ensures
        labels_of(s.take(i + 1)) == labels_of(s.take(i)).push(s[i].0),
        labels_of(s.take(i + 1)).to_set() == labels_of(s.take(i)).to_set().insert(s[i].0),
{
    let a = labels_of(s.take(i));
    let b = labels_of(s.take(i + 1));
    assert(b =~= a.push(s[i].0));
    assert forall|x: AkdLabel| #[trigger] b.to_set().contains(x) <==> a.to_set().insert(s[i].0).contains(x) by {
        if b.contains(x) { let j = choose|j: int| 0 <= j < b.len() && b[j] == x; if j < a.len() { assert(a[j] == x); } }
        if a.contains(x) { let j = choose|j: int| 0 <= j < a.len() && a[j] == x; assert(b[j] == x); }
        if x == s[i].0 { assert(b[a.len() as int] == x); }
    }
    assert(b.to_set() =~= a.to_set().insert(s[i].0));
}
pub proof fn lemma_distinct_iff(s: Seq<AkdLabel>)
    ensures s.no_duplicates() <==> s.to_set().len() == s.len()
{
    if s.no_duplicates() { s.unique_seq_to_set(); }
    if s.to_set().len() == s.len() { s.lemma_no_dup_set_cardinality(); }
}
pub proof fn lemma_multiset_same_set(a: Seq<AkdLabel>, b: Seq<AkdLabel>)
    requires a.to_multiset() == b.to_multiset()
    ensures a.to_set() == b.to_set()
{
    broadcast use vstd::seq_lib::group_to_multiset_ensures;
    assert forall|x: AkdLabel| a.to_set().contains(x) <==> b.to_set().contains(x) by {
        assert(a.contains(x) <==> a.to_multiset().count(x) > 0);
        assert(b.contains(x) <==> b.to_multiset().count(x) > 0);
    }
    assert(a.to_set() =~= b.to_set());
}
// <[T]>::sort: a rearrangement of the same elements (the order is not used by any contract here)
pub assume_specification<T: Ord>[ <[T]>::sort ](v: &mut [T])
    ensures final(v)@.to_multiset() == old(v)@.to_multiset();
// what the storage layer's bulk query answers for a SET of labels and a retrieval flag (its per-label meaning is proved in unit manager, C15)
pub uninterp spec fn stored_versions<S: Database>(st: &StorageManager<S>, labels: Set<AkdLabel>, flag: ValueStateRetrievalFlag) -> Map<AkdLabel, (u64, AkdValue)>;

// ---- C01 / C18 (between the tuples and the update set): the map from tuple to node label holds, for every tuple in it, the VRF label of
// that very tuple under this directory's key storage
pub uninterp spec fn vrf_label_of<TC: Configuration, V>(vrf: &V, k: LabelInput) -> NodeLabel;
// R-UFCS target: the batch call of the VRF trait (its body is verified in unit vrf_labels: every returned pair carries the label of ITS tuple)
#[verifier::external_body]
pub async fn vx_vrf_get_node_labels<TC: Configuration, V: VRFKeyStorage>(vrf: &V, labels: &[LabelInput]) -> (r: Result<Vec<(LabelInput, NodeLabel)>, VrfError>)
    ensures r is Ok ==> forall|i: int| 0 <= i < r->Ok_0@.len() ==> (#[trigger] r->Ok_0@[i]).1 == vrf_label_of::<TC, V>(vrf, r->Ok_0@[i].0),
            // ... and a pair for EVERY tuple asked (unit vrf_labels: get_node_labels#E_complete)
            r is Ok ==> forall|j: int| 0 <= j < labels@.len() ==> has_key_of(r->Ok_0@, #[trigger] labels@[j]),
{ unimplemented!() }
pub open spec fn has_key_of(pairs: Seq<(LabelInput, NodeLabel)>, t: LabelInput) -> bool {
    exists|k: int| 0 <= k < pairs.len() && (#[trigger] pairs[k]).0 == t
}
// R-COLLECT target: Vec<(K, V)>::into_iter().collect::<HashMap<K, V>>()
#[verifier::external_body]
pub fn vx_pairs_into_map<K: core::hash::Hash + Eq, W>(v: Vec<(K, W)>) -> (r: HashMap<K, W>)
    ensures
        forall|k: K| #[trigger] r@.contains_key(k) ==> exists|i: int| 0 <= i < v@.len() && #[trigger] v@[i] == (k, r@[k]),
        forall|i: int| 0 <= i < v@.len() ==> r@.contains_key((#[trigger] v@[i]).0),
{ unimplemented!() }
impl vstd::std_specs::convert::FromSpecImpl<VrfError> for AkdError {
    open spec fn obeys_from_spec() -> bool { true }
    open spec fn from_spec(e: VrfError) -> Self { AkdError::Vrf(e) }
}

impl<TC: Configuration, S: Database + 'static, V: VRFKeyStorage> Directory<TC, S, V> {
    // the ordinary read of the epoch record (through the object cache): it proves nothing about freshness
    #[verifier::external_body]
    // ASSUMED: a stored epoch is below u64::MAX (`current_epoch + 1` in publish)
    pub(crate) async fn retrieve_azks(&self) -> (r: Result<Azks, AkdError>)
        ensures r is Ok ==> r->Ok_0.latest_epoch < u64::MAX
    { unimplemented!() }
}
