// ---- auditor_complete unit (C04): audit_verify adds no rejection of its own
pub trait Configuration {}
pub mod akd_core {
    pub mod ecvrf { pub use crate::VrfError; }
    pub mod verify { pub use crate::VerificationError; }
}
// akd_core error types referenced by AkdError (payloads only)
pub enum VrfError { PublicKey(String), SigningKey(String), Verification(String) }
pub enum VerificationError { MembershipProof(String), NonMembershipProof(String), LookupProof(String), HistoryProof(String), Vrf(VrfError) }
// what verify_consecutive_append_only answers for one step (a function of its arguments: it rebuilds two trees from the node lists)
pub uninterp spec fn step_accepts<TC: Configuration>(p: SingleAppendOnlyProof, start: Digest, end: Digest, end_epoch: u64) -> bool;
