// ---- L-TRIE (C05, meaning of the verifier contracts): what `mem_ok` and `nonmem_ok` say about a well-formed compressed binary trie,
// under explicit cryptographic assumptions (injective hashes, leaf / interior domain separation). Spec level only.
pub enum Trie {
    Leaf { label: NodeLabel, value: AzksValue },
    Node { label: NodeLabel, left: Box<Trie>, right: Box<Trie> },
}
pub open spec fn t_label(t: Trie) -> NodeLabel {
    match t { Trie::Leaf { label, .. } => label, Trie::Node { label, .. } => label }
}
pub open spec fn t_hash<TC: Configuration>(t: Trie) -> AzksValue
    decreases t
{
    match t {
        Trie::Leaf { value, .. } => value,
        Trie::Node { left, right, .. } => TC::spec_parent(t_hash::<TC>(*left), spec_label_value::<TC>(t_label(*left)), t_hash::<TC>(*right), spec_label_value::<TC>(t_label(*right))),
    }
}
// child c hangs below a node labelled p on side `one`
pub open spec fn extends(p: NodeLabel, c: NodeLabel, one: bool) -> bool {
    p.label_len < c.label_len && agree(p, c, p.label_len as int) && bit(c, p.label_len as int) == one
}
// well-formed: leaves are 256-bit labels, interior nodes have two children diverging right after the node's label (full binary compressed trie)
pub open spec fn t_wf(t: Trie) -> bool
    decreases t
{
    match t {
        Trie::Leaf { label, .. } => label.label_len == 256,
        Trie::Node { label, left, right } => wf(label) && wf(t_label(*left)) && wf(t_label(*right))
            && extends(label, t_label(*left), false) && extends(label, t_label(*right), true) && t_wf(*left) && t_wf(*right),
    }
}
pub open spec fn t_sub(t: Trie, s: Trie) -> bool
    decreases t
{
    t == s || match t { Trie::Leaf { .. } => false, Trie::Node { left, right, .. } => t_sub(*left, s) || t_sub(*right, s) }
}
pub open spec fn t_leaf_in(t: Trie, x: NodeLabel) -> bool
    decreases t
{
    match t { Trie::Leaf { label, .. } => label == x, Trie::Node { left, right, .. } => t_leaf_in(*left, x) || t_leaf_in(*right, x) }
}
// cryptographic assumptions, stated as hypotheses of the lemmas (never as axioms)
pub open spec fn parent_injective<TC: Configuration>() -> bool {
    forall|a: AzksValue, al: Seq<u8>, b: AzksValue, bl: Seq<u8>, c: AzksValue, cl: Seq<u8>, d: AzksValue, dl: Seq<u8>|
        #[trigger] TC::spec_parent(a, al, b, bl) == #[trigger] TC::spec_parent(c, cl, d, dl) ==> a == c && al == cl && b == d && bl == dl
}
pub open spec fn label_value_injective<TC: Configuration>() -> bool {
    forall|l1: NodeLabel, l2: NodeLabel| #[trigger] spec_label_value::<TC>(l1) == #[trigger] spec_label_value::<TC>(l2) ==> l1 == l2
}
pub open spec fn is_parent_image<TC: Configuration>(v: AzksValue) -> bool {
    exists|a: AzksValue, al: Seq<u8>, b: AzksValue, bl: Seq<u8>| v == #[trigger] TC::spec_parent(a, al, b, bl)
}
// no leaf hash of the trie is the hash of an interior node (domain separation of leaf and interior hashing)
pub open spec fn leaves_separated<TC: Configuration>(t: Trie) -> bool
    decreases t
{
    match t { Trie::Leaf { value, .. } => !is_parent_image::<TC>(value), Trie::Node { left, right, .. } => leaves_separated::<TC>(*left) && leaves_separated::<TC>(*right) }
}

// every label below a subtree extends the subtree's label
pub proof fn lemma_sub_extends(t: Trie, s: Trie)
    requires t_wf(t), t_sub(t, s)
    ensures t_label(t).label_len <= t_label(s).label_len, agree(t_label(t), t_label(s), t_label(t).label_len as int), t_wf(s)
    decreases t
{
    if t == s { } else {
        match t {
            Trie::Leaf { .. } => { }
            Trie::Node { label, left, right } => {
                let c = if t_sub(*left, s) { *left } else { *right };
                lemma_sub_extends(c, s);
                assert forall|i: int| 0 <= i < label.label_len implies bit(label, i) == bit(t_label(s), i) by {
                    assert(bit(label, i) == bit(t_label(c), i)); assert(bit(t_label(c), i) == bit(t_label(s), i));
                }
            }
        }
    }
}
pub proof fn lemma_leaf_extends(t: Trie, x: NodeLabel)
    requires t_wf(t), t_leaf_in(t, x)
    ensures pfx(t_label(t), x), x.label_len == 256
    decreases t
{
    match t {
        Trie::Leaf { .. } => { }
        Trie::Node { label, left, right } => {
            let c = if t_leaf_in(*left, x) { *left } else { *right };
            lemma_leaf_extends(c, x);
            assert forall|i: int| 0 <= i < label.label_len implies bit(label, i) == bit(x, i) by {
                assert(bit(label, i) == bit(t_label(c), i)); assert(bit(t_label(c), i) == bit(x, i));
            }
        }
    }
}
// a leaf of the whole trie that has the label of subtree s as prefix lies in s (sibling subtrees diverge at the parent's length)
pub proof fn lemma_leaf_under(t: Trie, s: Trie, x: NodeLabel)
    requires t_wf(t), t_sub(t, s), t_leaf_in(t, x), pfx(t_label(s), x)
    ensures t_leaf_in(s, x)
    decreases t
{
    if t == s { } else {
        match t {
            Trie::Leaf { .. } => { }
            Trie::Node { label, left, right } => {
                let n = label.label_len as int;
                let s_left = t_sub(*left, s);
                let cs = if s_left { *left } else { *right };
                lemma_sub_extends(cs, s);
                // bit n of x equals bit n of s's label, which is the side of cs
                assert(bit(t_label(cs), n) == bit(t_label(s), n));
                assert(bit(t_label(s), n) == bit(x, n));
                let x_left = t_leaf_in(*left, x);
                let cx = if x_left { *left } else { *right };
                lemma_leaf_extends(cx, x);
                assert(bit(t_label(cx), n) == bit(x, n));
                assert(s_left == x_left);
                lemma_leaf_under(cs, s, x);
            }
        }
    }
}

// L-MEM: a membership proof whose fold over its last k sibling proofs gives the hash of subtree t proves a node of t:
// some subtree s of t has hash == the proof's hash_val, and (for k >= 1) its label is the proof's label.
// alarm: C05
pub proof fn lemma_membership_sound<TC: Configuration>(t: Trie, hash_val: AzksValue, label: NodeLabel, sibs: Seq<SiblingProof>, k: int)
    requires
        parent_injective::<TC>(), label_value_injective::<TC>(), t_wf(t), leaves_separated::<TC>(t),
        0 <= k <= sibs.len(),
        fold_mp::<TC>(hash_val, label, sibs, k).0 == t_hash::<TC>(t),
    ensures
        exists|s: Trie| #[trigger] t_sub(t, s) && t_hash::<TC>(s) == hash_val && (k >= 1 ==> t_label(s) == label)
    decreases k
{
    if k == 0 {
        assert(t_sub(t, t));
    } else {
        let (v, l) = fold_mp::<TC>(hash_val, label, sibs, k - 1);
        let sp = sibs[sibs.len() - k];
        let sib = sp.siblings[0];
        match t {
            Trie::Leaf { value, .. } => {
                // a leaf hash is not a parent image
                assert(is_parent_image::<TC>(value)) by {
                    match sp.direction {
                        Direction::Left => { assert(value == TC::spec_parent(v, spec_label_value::<TC>(l), sib.value, spec_label_value::<TC>(sib.label))); }
                        Direction::Right => { assert(value == TC::spec_parent(sib.value, spec_label_value::<TC>(sib.label), v, spec_label_value::<TC>(l))); }
                    }
                }
            }
            Trie::Node { left, right, .. } => {
                let c = match sp.direction { Direction::Left => *left, Direction::Right => *right };
                assert(v == t_hash::<TC>(c) && l == t_label(c));
                if k == 1 {
                    // fold over zero sibling proofs is the proof's own (hash_val, label): the node is the child c itself
                    assert(fold_mp::<TC>(hash_val, label, sibs, 0) == (hash_val, label));
                    assert(t_sub(c, c));
                    assert(t_sub(t, c) && t_hash::<TC>(c) == hash_val && t_label(c) == label);
                } else {
                    lemma_membership_sound::<TC>(c, hash_val, label, sibs, k - 1);
                    let s = choose|s: Trie| #[trigger] t_sub(c, s) && t_hash::<TC>(s) == hash_val && (k - 1 >= 1 ==> t_label(s) == label);
                    assert(t_sub(t, s) && t_hash::<TC>(s) == hash_val && t_label(s) == label);
                }
            }
        }
    }
}
// L-MEM-ROOT (after the repair of D15): when the trie's root carries the root label and the fold ends AT the root label - the two facts
// `mem_ok` now demands - the k >= 1 caveat of L-MEM disappears: the proof's label is the label of a node of t for EVERY k, also for a
// proof without sibling proofs (whose label must then be the root label itself).
// alarm: C05
pub proof fn lemma_membership_sound_at_root<TC: Configuration>(t: Trie, hash_val: AzksValue, label: NodeLabel, sibs: Seq<SiblingProof>, k: int)
    requires
        parent_injective::<TC>(), label_value_injective::<TC>(), t_wf(t), leaves_separated::<TC>(t),
        0 <= k <= sibs.len(),
        is_root(t_label(t)),
        is_root(fold_mp::<TC>(hash_val, label, sibs, k).1),
        fold_mp::<TC>(hash_val, label, sibs, k).0 == t_hash::<TC>(t),
    ensures
        exists|s: Trie| #[trigger] t_sub(t, s) && t_hash::<TC>(s) == hash_val && t_label(s) == label
{
    if k == 0 {
        assert(fold_mp::<TC>(hash_val, label, sibs, 0) == (hash_val, label));
        lemma_root_unique(label, t_label(t));
        assert(t_sub(t, t) && t_hash::<TC>(t) == hash_val && t_label(t) == label);
    } else {
        lemma_membership_sound::<TC>(t, hash_val, label, sibs, k);
        let s = choose|s: Trie| #[trigger] t_sub(t, s) && t_hash::<TC>(s) == hash_val && (k >= 1 ==> t_label(s) == label);
        assert(t_sub(t, s) && t_hash::<TC>(s) == hash_val && t_label(s) == label);
    }
}
// L-NONMEM: a non-membership proof with the structural facts of the verifier's contract (nm_struct) whose anchor is a node of the trie
// (fold of the anchor's membership proof == hash of t) proves that the queried label is NOT a leaf of t.
// alarm: C05
pub proof fn lemma_nonmembership_sound<TC: Configuration>(t: Trie, p: NonMembershipProof)
    requires
        parent_injective::<TC>(), label_value_injective::<TC>(), t_wf(t), leaves_separated::<TC>(t),
        nm_struct::<TC>(p),
        fold_mp::<TC>(p.longest_prefix_membership_proof.hash_val, p.longest_prefix_membership_proof.label,
                      p.longest_prefix_membership_proof.sibling_proofs@, p.longest_prefix_membership_proof.sibling_proofs@.len() as int).0 == t_hash::<TC>(t),
    ensures !t_leaf_in(t, p.label)
{
    let mp = p.longest_prefix_membership_proof;
    let n = mp.sibling_proofs@.len() as int;
    // the anchor as a subtree of t: for an anchor below the root its label is bound by the fold; an anchor without sibling proofs is the
    // root itself (every leaf of t lies below it, whatever label the proof claims for it)
    let s = if n == 0 { t } else {
        lemma_membership_sound::<TC>(t, mp.hash_val, mp.label, mp.sibling_proofs@, n);
        choose|s: Trie| #[trigger] t_sub(t, s) && t_hash::<TC>(s) == mp.hash_val && t_label(s) == mp.label
    };
    assert(t_sub(t, s) && t_hash::<TC>(s) == mp.hash_val);
    lemma_sub_extends(t, s);
    let c0 = p.longest_prefix_children[0];
    let c1 = p.longest_prefix_children[1];
    if t_leaf_in(t, p.label) {
        // the anchor's label is a prefix of the queried label, so the leaf lies below the anchor
        if n > 0 { lemma_leaf_under(t, s, p.label); }
        match s {
            Trie::Leaf { value, .. } => {
                assert(is_parent_image::<TC>(value));
                lemma_sub_separated::<TC>(t, s);
            }
            Trie::Node { left, right, .. } => {
                // by injectivity the two children given in the proof are the real children of the anchor
                assert(t_label(*left) == c0.label && t_label(*right) == c1.label);
                let cx = if t_leaf_in(*left, p.label) { *left } else { *right };
                lemma_leaf_extends(cx, p.label);
                // so one child is a prefix of the queried label: excluded by nm_struct
                if t_leaf_in(*left, p.label) { assert(p.longest_prefix_children[0].label.label_len > 0 && pfx(p.longest_prefix_children[0].label, p.label)); }
                else { assert(p.longest_prefix_children[1].label.label_len > 0 && pfx(p.longest_prefix_children[1].label, p.label)); }
            }
        }
    }
}
pub proof fn lemma_sub_separated<TC: Configuration>(t: Trie, s: Trie)
    requires leaves_separated::<TC>(t), t_sub(t, s)
    ensures leaves_separated::<TC>(s)
    decreases t
{
    if t == s { } else {
        match t { Trie::Leaf { .. } => { }, Trie::Node { left, right, .. } => { if t_sub(*left, s) { lemma_sub_separated::<TC>(*left, s); } else { lemma_sub_separated::<TC>(*right, s); } } }
    }
}
