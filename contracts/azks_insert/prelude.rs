// ---- azks_insert unit (C11): the write discipline of the recursive batch insertion
use vstd::future::FutureAdditionalSpecFns;
pub mod akd_core {
    pub mod ecvrf { pub use crate::VrfError; }
    pub mod verify { pub use crate::VerificationError; }
}
pub enum VrfError { PublicKey(String), SigningKey(String), Verification(String) }
pub enum VerificationError { MembershipProof(String), NonMembershipProof(String), LookupProof(String), HistoryProof(String), Vrf(VrfError) }
pub trait Configuration {}
pub trait Database {}
#[verifier::external_body]
#[verifier::reject_recursive_types(S)]
pub struct StorageManager<S: Database> { _s: core::marker::PhantomData<S> }
impl<S: Database> Clone for StorageManager<S> {
    #[verifier::external_body]
    fn clone(&self) -> (r: Self) { unimplemented!() }
}
impl vstd::std_specs::convert::FromSpecImpl<StorageError> for AkdError {
    open spec fn obeys_from_spec() -> bool { true }
    open spec fn from_spec(e: StorageError) -> Self { AkdError::Storage(e) }
}
impl vstd::std_specs::convert::FromSpecImpl<TreeNodeError> for AkdError {
    open spec fn obeys_from_spec() -> bool { true }
    open spec fn from_spec(e: TreeNodeError) -> Self { AkdError::TreeNode(e) }
}
impl vstd::std_specs::convert::FromSpecImpl<InsertMode> for NodeHashingMode {
    open spec fn obeys_from_spec() -> bool { true }
    open spec fn from_spec(m: InsertMode) -> Self { match m { InsertMode::Directory => NodeHashingMode::WithLeafEpoch, InsertMode::Auditor => NodeHashingMode::NoLeafEpoch } }
}
pub open spec fn set_len(s: AzksElementSet) -> int {
    match s { AzksElementSet::BinarySearchable(v) => v@.len() as int, AzksElementSet::Unsorted(v) => v@.len() as int }
}
pub uninterp spec fn ordering(p: NodeLabel, c: NodeLabel) -> PrefixOrdering;
pub open spec fn umax(a: u64, b: u64) -> u64 { if a >= b { a } else { b } }
pub open spec fn umin(a: u64, b: u64) -> u64 { if a <= b { a } else { b } }

// knowledge token (C11): "a node with this label was CONSTRUCTED during this insertion" - handed out only by the node constructors.
// A record may be written as brand new (no previous-epoch state kept) only for such a node: writing an existing node that way
// would destroy the state a reader of the previous epoch still needs.
pub uninterp spec fn created_now(label: NodeLabel) -> bool;
