// ---- directory_lookup unit (C02 partial, C11 reader filter): server-side assembly of a lookup answer
use vstd::future::FutureAdditionalSpecFns;
pub mod akd_core {
    pub mod ecvrf { pub use crate::VrfError; }
    pub mod verify { pub use crate::VerificationError; }
}
pub enum VrfError { PublicKey(String), SigningKey(String), Verification(String) }
pub enum VerificationError { MembershipProof(String), NonMembershipProof(String), LookupProof(String), HistoryProof(String), Vrf(VrfError) }
pub trait Configuration {
    spec fn spec_nonce(key: Seq<u8>, label: NodeLabel, version: u64, value: Seq<u8>) -> Digest;
    spec fn spec_hash(item: Seq<u8>) -> Digest;
    fn get_commitment_nonce(commitment_key: &[u8], label: &NodeLabel, version: u64, value: &AkdValue) -> (r: Digest)
        ensures r == Self::spec_nonce(commitment_key@, *label, version, value.0@);
    fn hash(item: &[u8]) -> (r: Digest)
        ensures r == Self::spec_hash(item@);
}
pub trait Database: Send + Sync {}
pub trait VRFKeyStorage {}
#[verifier::external_body]
#[verifier::reject_recursive_types(Db)]
pub struct StorageManager<Db: Database> { _s: core::marker::PhantomData<Db> }

// MODEL of akd/src/directory.rs::Directory: the fields the verified functions touch (the cache lock guard is taken and held by the
// first statement of `lookup`; lock discipline against the poller is not decided)
#[verifier::reject_recursive_types(S)]
#[verifier::reject_recursive_types(TC)]
#[verifier::reject_recursive_types(V)]
pub struct Directory<TC, S: Database, V> {
    pub storage: StorageManager<S>,
    pub vrf: V,
    pub parallelism_config: AzksParallelismConfig,
    pub cache_lock: VxLock,
    pub tc: core::marker::PhantomData<TC>,
}
#[verifier::external_body]
pub struct VxLock { _p: () }
#[verifier::external_body]
pub struct VxGuard { _p: () }
impl VxLock {
    #[verifier::external_body]
    pub async fn read(&self) -> VxGuard { unimplemented!() }
}

// ---- the VRF, as functions of (key storage, label, freshness, version) - T4
#[verifier::external_body]
pub struct Proof { _p: () }
impl Clone for Proof {
    #[verifier::external_body]
    fn clone(&self) -> (r: Self) ensures r == *self { unimplemented!() }
}
impl Copy for Proof {}
pub uninterp spec fn proof_bytes(p: Proof) -> Seq<u8>;
impl Proof {
    #[verifier::external_body]
    pub fn to_bytes(&self) -> (r: [u8; 80]) ensures r@ == proof_bytes(*self) { unimplemented!() }
}
pub uninterp spec fn vrf_label<V>(vrf: &V, label: Seq<u8>, f: VersionFreshness, version: u64) -> Result<NodeLabel, VrfError>;
pub uninterp spec fn vrf_proof<V>(vrf: &V, label: Seq<u8>, f: VersionFreshness, version: u64) -> Result<Proof, VrfError>;
pub uninterp spec fn proof_label(p: Proof) -> NodeLabel;
pub uninterp spec fn vrf_secret<V>(vrf: &V) -> Result<Vec<u8>, VrfError>;
#[verifier::external_body]
pub async fn vx_vrf_get_node_label<TC: Configuration, V: VRFKeyStorage>(vrf: &V, label: &AkdLabel, freshness: VersionFreshness, version: u64) -> (r: Result<NodeLabel, VrfError>)
    ensures r == vrf_label(vrf, label.0@, freshness, version)
{ unimplemented!() }
#[verifier::external_body]
pub async fn vx_vrf_get_label_proof<TC: Configuration, V: VRFKeyStorage>(vrf: &V, label: &AkdLabel, freshness: VersionFreshness, version: u64) -> (r: Result<Proof, VrfError>)
    ensures r == vrf_proof(vrf, label.0@, freshness, version)
{ unimplemented!() }
#[verifier::external_body]
pub async fn vx_vrf_get_node_label_from_vrf_proof<V: VRFKeyStorage>(vrf: &V, proof: Proof) -> (r: NodeLabel)
    ensures r == proof_label(proof)
{ unimplemented!() }
#[verifier::external_body]
pub async fn vx_vrf_retrieve<V: VRFKeyStorage>(vrf: &V) -> (r: Result<Vec<u8>, VrfError>)
    ensures r == vrf_secret(vrf)
{ unimplemented!() }

// ---- storage and tree, as seen by one request (T6)
pub uninterp spec fn azks_read<S: Database>(storage: &StorageManager<S>) -> Result<Azks, AkdError>;
pub uninterp spec fn user_state<S: Database>(storage: &StorageManager<S>, label: Seq<u8>, flag: ValueStateRetrievalFlag) -> Result<ValueState, StorageError>;
pub uninterp spec fn mem_proof<S: Database>(azks: Azks, storage: &StorageManager<S>, label: NodeLabel) -> Result<MembershipProof, AkdError>;
pub uninterp spec fn nonmem_proof<S: Database>(azks: Azks, storage: &StorageManager<S>, label: NodeLabel) -> Result<NonMembershipProof, AkdError>;
pub uninterp spec fn root_hash_of<S: Database>(azks: Azks, storage: &StorageManager<S>) -> Result<Digest, AkdError>;
impl<TC: Configuration, S: Database + 'static, V: VRFKeyStorage> Directory<TC, S, V> {
    #[verifier::external_body]
    pub(crate) async fn retrieve_azks(&self) -> (r: Result<Azks, AkdError>)
        ensures r == azks_read(&self.storage)
    { unimplemented!() }
}
impl vstd::std_specs::convert::FromSpecImpl<StorageError> for AkdError {
    open spec fn obeys_from_spec() -> bool { true }
    open spec fn from_spec(e: StorageError) -> Self { AkdError::Storage(e) }
}
impl vstd::std_specs::convert::FromSpecImpl<VrfError> for AkdError {
    open spec fn obeys_from_spec() -> bool { true }
    open spec fn from_spec(e: VrfError) -> Self { AkdError::Vrf(e) }
}
// 2^floor(log2 v): the marker version the verifier checks (same definition as in the verify_lookup unit)
pub open spec fn plog(v: u64) -> u64 { 1u64 << ((63 - vstd::std_specs::bits::u64_leading_zeros(v)) as u64) }
#[verifier::external_body]
pub fn vx_from_utf8() -> Result<&'static str, ()> { unimplemented!() }
