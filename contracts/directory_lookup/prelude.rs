// ---- directory_lookup unit (C02 partial, C11 reader filter): server-side assembly of a lookup answer
use vstd::future::FutureAdditionalSpecFns;
pub mod errors { pub use crate::AkdError; }
pub mod akd_core {
    pub mod ecvrf { pub use crate::VrfError; }
    pub mod verify { pub use crate::VerificationError; }
}
pub enum VrfError { PublicKey(String), SigningKey(String), Verification(String) }
pub enum VerificationError { MembershipProof(String), NonMembershipProof(String), LookupProof(String), HistoryProof(String), Vrf(VrfError) }
pub trait Configuration {
    spec fn spec_nonce(key: Seq<u8>, label: NodeLabel, version: u64, value: Seq<u8>) -> Digest;
    spec fn spec_hash(item: Seq<u8>) -> Digest;
    fn get_commitment_nonce(commitment_key: &[u8], label: &NodeLabel, version: u64, value: &AkdValue) -> (r: Digest)
        ensures r == Self::spec_nonce(commitment_key@, *label, version, value.0@);
    fn hash(item: &[u8]) -> (r: Digest)
        ensures r == Self::spec_hash(item@);
}
pub trait Database: Send + Sync {}
pub trait VRFKeyStorage: Clone {}
#[verifier::external_body]
#[verifier::reject_recursive_types(Db)]
pub struct StorageManager<Db: Database> { _s: core::marker::PhantomData<Db> }

// MODEL of akd/src/directory.rs::Directory: the fields the verified functions touch (the cache lock guard is taken and held by the
// first statement of `lookup`; lock discipline against the poller is not decided)
#[verifier::reject_recursive_types(S)]
#[verifier::reject_recursive_types(TC)]
#[verifier::reject_recursive_types(V)]
pub struct Directory<TC, S: Database, V> {
    pub storage: StorageManager<S>,
    pub vrf: V,
    pub parallelism_config: AzksParallelismConfig,
    pub cache_lock: Arc<RwLock<()>>,
    pub tc: core::marker::PhantomData<TC>,
}
// model of std::sync::Arc<tokio::sync::RwLock<()>> as used for the cache lock: what matters is WHICH lock it is (clones of a directory
// must share it, or the poller's exclusive lock on a clone excludes nobody)
#[verifier::external_body]
#[verifier::reject_recursive_types(T)]
pub struct RwLock<T> { _t: core::marker::PhantomData<T> }
#[verifier::external_body]
#[verifier::reject_recursive_types(T)]
pub struct Arc<T> { _t: core::marker::PhantomData<T> }
pub uninterp spec fn lock_id(l: Arc<RwLock<()>>) -> int;
pub uninterp spec fn fresh_lock_id() -> int;
impl<T> RwLock<T> {
    #[verifier::external_body]
    pub fn new(t: T) -> Self { unimplemented!() }
}
impl Arc<RwLock<()>> {
    // a NEW lock: its identity is not that of any lock the caller already holds (uninterpreted: nothing relates it to an existing one)
    #[verifier::external_body]
    pub fn new(l: RwLock<()>) -> (r: Self) ensures lock_id(r) == fresh_lock_id() { unimplemented!() }
    #[verifier::external_body]
    pub async fn read(&self) -> VxGuard { unimplemented!() }
    #[verifier::external_body]
    pub async fn write(&self) -> (g: VxGuard) ensures excl_lock_taken() { unimplemented!() }
}
impl Clone for Arc<RwLock<()>> {
    #[verifier::external_body]
    fn clone(&self) -> (r: Self) ensures lock_id(r) == lock_id(*self) { unimplemented!() }
}
#[verifier::external_body]
pub struct VxGuard { _p: () }
// "this request handler holds the shared side of the cache lock from here to its end" (R-GUARD grants it after a guard bound to a NAME;
// the poller flushes the cache only under the exclusive side, so a handler that holds the shared side never reads across a flush)
pub uninterp spec fn shared_lock_held() -> bool;
#[verifier::external_body]
pub proof fn grant_shared_lock_held(g: &VxGuard)
    ensures shared_lock_held()
{}
// knowledge tokens of ONE poller iteration (loop bodies are verified from the loop invariants only, so nothing learnt in an earlier
// iteration is available): the exclusive lock was taken; the cache was flushed; the epoch record was re-read through the flushed cache
pub uninterp spec fn excl_lock_taken() -> bool;
pub uninterp spec fn cache_flushed<S: Database>(st: &StorageManager<S>) -> bool;
pub uninterp spec fn reloaded_after_flush<S: Database>(st: &StorageManager<S>) -> bool;
// tokio pieces the poller uses (model): sleep, and a channel whose send is the CHANGE SIGNAL - it may be sent only after the flush
// and the reload (C13: once the signal is out, later requests on this instance are answered from an epoch at least that new)
pub mod tokio {
    use super::*;
    pub mod time {
        #[verifier::external_body]
        pub struct Duration { _p: () }
        impl Clone for Duration { #[verifier::external_body] fn clone(&self) -> Self { unimplemented!() } }
        impl Copy for Duration {}
        #[verifier::external_body]
        pub async fn sleep(d: Duration) { unimplemented!() }
    }
    pub mod sync { pub mod mpsc {
        #[verifier::external_body]
        #[verifier::reject_recursive_types(T)]
        pub struct Sender<T> { _t: core::marker::PhantomData<T> }
        #[verifier::external_body]
        pub struct SendError { _p: () }
        impl<T> Sender<T> {
            #[verifier::external_body]
            pub async fn send(&self, value: T) -> Result<(), SendError>
                requires crate::signal_permitted()
            { unimplemented!() }
        }
    } }
}
// the permission to signal: granted by the caller-side protocol below (flush, then reload, both under the exclusive lock)
pub uninterp spec fn signal_permitted() -> bool;
#[verifier::external_body]
pub proof fn grant_signal<S: Database>(st: &StorageManager<S>)
    requires excl_lock_taken(), cache_flushed(st), reloaded_after_flush(st)
    ensures signal_permitted()
{}

// ---- the VRF, as functions of (key storage, label, freshness, version) - T4
#[verifier::external_body]
pub struct Proof { _p: () }
impl Clone for Proof {
    #[verifier::external_body]
    fn clone(&self) -> (r: Self) ensures r == *self { unimplemented!() }
}
impl Copy for Proof {}
pub uninterp spec fn proof_bytes(p: Proof) -> Seq<u8>;
impl Proof {
    #[verifier::external_body]
    pub fn to_bytes(&self) -> (r: [u8; 80]) ensures r@ == proof_bytes(*self) { unimplemented!() }
}
pub uninterp spec fn vrf_label<V>(vrf: &V, label: Seq<u8>, f: VersionFreshness, version: u64) -> Result<NodeLabel, VrfError>;
pub uninterp spec fn vrf_proof<V>(vrf: &V, label: Seq<u8>, f: VersionFreshness, version: u64) -> Result<Proof, VrfError>;
pub uninterp spec fn proof_label(p: Proof) -> NodeLabel;
pub uninterp spec fn vrf_secret<V>(vrf: &V) -> Result<Vec<u8>, VrfError>;
#[verifier::external_body]
pub async fn vx_vrf_get_node_label<TC: Configuration, V: VRFKeyStorage>(vrf: &V, label: &AkdLabel, freshness: VersionFreshness, version: u64) -> (r: Result<NodeLabel, VrfError>)
    ensures r == vrf_label(vrf, label.0@, freshness, version)
{ unimplemented!() }
#[verifier::external_body]
pub async fn vx_vrf_get_label_proof<TC: Configuration, V: VRFKeyStorage>(vrf: &V, label: &AkdLabel, freshness: VersionFreshness, version: u64) -> (r: Result<Proof, VrfError>)
    ensures r == vrf_proof(vrf, label.0@, freshness, version)
{ unimplemented!() }
#[verifier::external_body]
pub async fn vx_vrf_get_node_label_from_vrf_proof<V: VRFKeyStorage>(vrf: &V, proof: Proof) -> (r: NodeLabel)
    ensures r == proof_label(proof)
{ unimplemented!() }
#[verifier::external_body]
pub async fn vx_vrf_retrieve<V: VRFKeyStorage>(vrf: &V) -> (r: Result<Vec<u8>, VrfError>)
    ensures r == vrf_secret(vrf)
{ unimplemented!() }

// ---- storage and tree, as seen by one request (T6)
// The epoch record is the one thing a request must NOT assume stable: a publish (same instance, a clone, or another instance over the
// same storage) can complete between two reads of it. Reads of it are therefore nondeterministic here; `epoch_record_read(st, a)` only
// says "this request obtained the value a from a read of the epoch record". (Everything else a request reads is a function of what it
// sees - T6 - and node reads are as-of the epoch of the record the request holds.)
pub uninterp spec fn manager_id<S: Database>(st: &StorageManager<S>) -> int;
impl<S: Database> Clone for StorageManager<S> {
    #[verifier::external_body]
    fn clone(&self) -> (r: Self) ensures manager_id(&r) == manager_id(self) { unimplemented!() }
}
pub trait VxClone { }
pub uninterp spec fn epoch_record_read<S: Database>(storage: &StorageManager<S>, a: Azks) -> bool;
// `served_read(st, a)`: `a` was returned by a read of the epoch record THROUGH the cache, i.e. it is the epoch this instance serves its
// requests from at that moment. The poller must measure the storage's progress against THIS value: measured against a direct read, an
// instance whose cache was filled before the epoch record arrived never flushes it and keeps serving the old epoch (C11, last sentence).
pub uninterp spec fn served_read<S: Database>(storage: &StorageManager<S>, a: Azks) -> bool;
pub uninterp spec fn user_state<S: Database>(storage: &StorageManager<S>, label: Seq<u8>, flag: ValueStateRetrievalFlag) -> Result<ValueState, StorageError>;
pub uninterp spec fn mem_proof<S: Database>(azks: Azks, storage: &StorageManager<S>, label: NodeLabel) -> Result<MembershipProof, AkdError>;
pub uninterp spec fn nonmem_proof<S: Database>(azks: Azks, storage: &StorageManager<S>, label: NodeLabel) -> Result<NonMembershipProof, AkdError>;
pub uninterp spec fn root_hash_of<S: Database>(azks: Azks, storage: &StorageManager<S>) -> Result<Digest, AkdError>;
// reading the epoch record PAST the object cache is reserved for the change poller (it needs to see storage, not the instance's view);
// request handlers read it through the cache, like the nodes they go on to read (C13 / C14: a cached instance must not take the epoch
// from storage and the tree from its cache)
pub uninterp spec fn direct_epoch_read_permitted() -> bool;
impl vstd::std_specs::convert::FromSpecImpl<StorageError> for AkdError {
    open spec fn obeys_from_spec() -> bool { true }
    open spec fn from_spec(e: StorageError) -> Self { AkdError::Storage(e) }
}
impl vstd::std_specs::convert::FromSpecImpl<VrfError> for AkdError {
    open spec fn obeys_from_spec() -> bool { true }
    open spec fn from_spec(e: VrfError) -> Self { AkdError::Vrf(e) }
}
// 2^floor(log2 v): the marker version the verifier checks (same definition as in the verify_lookup unit)
pub open spec fn plog(v: u64) -> u64 { 1u64 << ((63 - vstd::std_specs::bits::u64_leading_zeros(v)) as u64) }
#[verifier::external_body]
pub fn vx_from_utf8() -> Result<&'static str, ()> { unimplemented!() }

// ---- key history assembly (C03 partial)
pub uninterp spec fn gmv_spec(s: u64, e: u64, ep: u64) -> (Seq<u64>, Seq<u64>);
// what create_single_update_proof must assemble for one stored state (the fields key_history_verify / verify_single_update_proof check)
pub open spec fn update_assembled<TC: Configuration, S: Database, V>(storage: &StorageManager<S>, vrf: &V, azks: Azks, label: Seq<u8>, st: ValueState, up: UpdateProof) -> bool {
    let v = st.version;
    &&& up.epoch == st.epoch && up.version == v && up.value == st.value
    &&& vrf_proof(vrf, label, VersionFreshness::Fresh, v) is Ok && up.existence_vrf_proof@ == proof_bytes(vrf_proof(vrf, label, VersionFreshness::Fresh, v)->Ok_0)
    &&& vrf_label(vrf, label, VersionFreshness::Fresh, v) is Ok
    &&& Ok::<MembershipProof, AkdError>(up.existence_proof) == mem_proof(azks, storage, vrf_label(vrf, label, VersionFreshness::Fresh, v)->Ok_0)
    // the previous version's STALE leaf, for every version after the first; nothing for the first
    &&& (v > 1 ==> {
            &&& up.previous_version_proof is Some && up.previous_version_vrf_proof is Some
            &&& vrf_label(vrf, label, VersionFreshness::Stale, (v - 1) as u64) is Ok
            &&& Ok::<MembershipProof, AkdError>(up.previous_version_proof->Some_0) == mem_proof(azks, storage, vrf_label(vrf, label, VersionFreshness::Stale, (v - 1) as u64)->Ok_0)
            &&& vrf_proof(vrf, label, VersionFreshness::Stale, (v - 1) as u64) is Ok
            &&& up.previous_version_vrf_proof->Some_0@ == proof_bytes(vrf_proof(vrf, label, VersionFreshness::Stale, (v - 1) as u64)->Ok_0)
        })
    &&& (v <= 1 ==> up.previous_version_proof is None && up.previous_version_vrf_proof is None)
    &&& vrf_secret(vrf) is Ok
    &&& up.commitment_nonce@ == TC::spec_nonce(TC::spec_hash(vrf_secret(vrf)->Ok_0@)@, proof_label(vrf_proof(vrf, label, VersionFreshness::Fresh, v)->Ok_0), v, st.value.0@)@
}
pub uninterp spec fn single_update<S: Database, V>(storage: &StorageManager<S>, vrf: &V, label: Seq<u8>, st: ValueState) -> Result<UpdateProof, AkdError>;
pub open spec fn min_ver(s: Seq<ValueState>, upto: int) -> u64
    decreases upto
{
    if upto <= 0 { s[0].version } else { let m = min_ver(s, upto - 1); if s[upto - 1].version <= m { s[upto - 1].version } else { m } }
}
pub open spec fn max_ver(s: Seq<ValueState>, upto: int) -> u64
    decreases upto
{
    if upto <= 0 { s[0].version } else { let m = max_ver(s, upto - 1); if s[upto - 1].version >= m { s[upto - 1].version } else { m } }
}
pub proof fn lemma_min_max(s: Seq<ValueState>, upto: int, b: u64)
    requires 0 <= upto <= s.len(), s.len() >= 1
    ensures min_ver(s, upto) <= max_ver(s, upto),
            forall|k: int| 0 <= k < upto ==> min_ver(s, upto) <= (#[trigger] s[k]).version <= max_ver(s, upto),
            (forall|k: int| 0 <= k < s.len() ==> (#[trigger] s[k]).version >= 1) ==> min_ver(s, upto) >= 1,
            (forall|k: int| 0 <= k < s.len() ==> (#[trigger] s[k]).version <= b) ==> max_ver(s, upto) <= b,
    decreases upto
{
    if upto > 0 { lemma_min_max(s, upto - 1, b); }
}
// typed views (drive type inference for `let mut v = vec![]`)
pub open spec fn bv(v: Vec<Vec<u8>>) -> Seq<Vec<u8>> { v@ }
pub open spec fn mv(v: Vec<MembershipProof>) -> Seq<MembershipProof> { v@ }
pub open spec fn nv(v: Vec<NonMembershipProof>) -> Seq<NonMembershipProof> { v@ }

// ---- the selection a history answer is built from
pub uninterp spec fn user_data_of<S: Database>(storage: &StorageManager<S>, label: Seq<u8>) -> Result<KeyData, StorageError>;
pub open spec fn newest_first(s: Seq<ValueState>) -> bool {
    forall|i: int, j: int| #![trigger s[i], s[j]] 0 <= i < j < s.len() ==> s[i].epoch >= s[j].epoch
}
pub open spec fn cut(s: Seq<ValueState>, params: HistoryParams) -> Seq<ValueState> {
    match params {
        HistoryParams::Complete => s,
        HistoryParams::MostRecent(n) => s.take(if n <= s.len() { n as int } else { s.len() as int }),
    }
}
// out = the stored states of the label that are not newer than the served epoch, newest first, all of them or the newest min(N, total)
pub open spec fn selected(all: Seq<ValueState>, epoch: u64, params: HistoryParams, out: Seq<ValueState>) -> bool {
    exists|sorted: Seq<ValueState>| sorted.to_multiset() == all.filter(|s: ValueState| s.epoch <= epoch).to_multiset()
        && newest_first(sorted) && #[trigger] cut(sorted, params) == out
}

// ---- batch lookup: per label the same answer as a single lookup at the same epoch record
#[verifier::external_body]
pub fn vx_unreachable()
    requires false
{ unimplemented!() }
// what lookup_with_info assembles for (epoch record, lookup info): a function of what one request sees (its fields are pinned by
// lookup_with_info's own contract); the skip_preload flag is not an argument - preloading only warms the cache
pub uninterp spec fn lookup_answer<S: Database, V>(storage: &StorageManager<S>, vrf: &V, azks: Azks, info: LookupInfo) -> Result<LookupProof, AkdError>;
pub uninterp spec fn lookup_info_of<S: Database, V>(storage: &StorageManager<S>, vrf: &V, label: Seq<u8>, epoch: u64) -> Result<LookupInfo, AkdError>;
pub open spec fn iv(v: Vec<LookupInfo>) -> Seq<LookupInfo> { v@ }
pub open spec fn pv(v: Vec<LookupProof>) -> Seq<LookupProof> { v@ }

pub open spec fn info_selected<S: Database, V>(storage: &StorageManager<S>, vrf: &V, label: Seq<u8>, epoch: u64, info: LookupInfo) -> bool {
    &&& user_state(storage, label, ValueStateRetrievalFlag::LeqEpoch(epoch)) is Ok
    &&& info.value_state == user_state(storage, label, ValueStateRetrievalFlag::LeqEpoch(epoch))->Ok_0
    &&& info.marker_version == plog(info.value_state.version)
    &&& Ok::<NodeLabel, VrfError>(info.existent_label) == vrf_label(vrf, info.value_state.username.0@, VersionFreshness::Fresh, info.value_state.version)
    &&& Ok::<NodeLabel, VrfError>(info.marker_label) == vrf_label(vrf, info.value_state.username.0@, VersionFreshness::Fresh, info.marker_version)
    &&& Ok::<NodeLabel, VrfError>(info.non_existent_label) == vrf_label(vrf, info.value_state.username.0@, VersionFreshness::Stale, info.value_state.version)
}
pub open spec fn lookup_assembled<TC: Configuration, S: Database, V>(storage: &StorageManager<S>, vrf: &V, azks: Azks, info: LookupInfo, p: LookupProof) -> bool {
    let l = info.value_state.username.0@; let v = info.value_state.version;
    &&& p.epoch == info.value_state.epoch && p.version == v && p.value == info.value_state.value
    &&& vrf_proof(vrf, l, VersionFreshness::Fresh, v) is Ok && p.existence_vrf_proof@ == proof_bytes(vrf_proof(vrf, l, VersionFreshness::Fresh, v)->Ok_0)
    &&& vrf_proof(vrf, l, VersionFreshness::Fresh, info.marker_version) is Ok && p.marker_vrf_proof@ == proof_bytes(vrf_proof(vrf, l, VersionFreshness::Fresh, info.marker_version)->Ok_0)
    &&& vrf_proof(vrf, l, VersionFreshness::Stale, v) is Ok && p.freshness_vrf_proof@ == proof_bytes(vrf_proof(vrf, l, VersionFreshness::Stale, v)->Ok_0)
    &&& Ok::<MembershipProof, AkdError>(p.existence_proof) == mem_proof(azks, storage, info.existent_label)
    &&& Ok::<MembershipProof, AkdError>(p.marker_proof) == mem_proof(azks, storage, info.marker_label)
    &&& Ok::<NonMembershipProof, AkdError>(p.freshness_proof) == nonmem_proof(azks, storage, info.non_existent_label)
    &&& vrf_secret(vrf) is Ok
    &&& p.commitment_nonce@ == TC::spec_nonce(TC::spec_hash(vrf_secret(vrf)->Ok_0@)@, proof_label(vrf_proof(vrf, l, VersionFreshness::Fresh, v)->Ok_0), v, info.value_state.value.0@)@
}

// info_selected pins every field of a LookupInfo, so "the" lookup info of (label, epoch) is well defined
pub open spec fn the_info<S: Database, V>(storage: &StorageManager<S>, vrf: &V, label: Seq<u8>, epoch: u64) -> LookupInfo {
    choose|info: LookupInfo| info_selected(storage, vrf, label, epoch, info)
}
pub proof fn lemma_the_info<S: Database, V>(storage: &StorageManager<S>, vrf: &V, label: Seq<u8>, epoch: u64, info: LookupInfo)
    requires info_selected(storage, vrf, label, epoch, info)
    ensures the_info(storage, vrf, label, epoch) == info
{
    let t = the_info(storage, vrf, label, epoch);
    assert(info_selected(storage, vrf, label, epoch, t));
    assert(t.existent_label == info.existent_label && t.marker_label == info.marker_label && t.non_existent_label == info.non_existent_label);
}
pub open spec fn per_label_ok<TC: Configuration, S: Database, V>(storage: &StorageManager<S>, vrf: &V, azks: Azks, labels: Seq<AkdLabel>, proofs: Seq<LookupProof>) -> bool {
    &&& proofs.len() == labels.len()
    &&& forall|k: int| #![trigger labels[k]] 0 <= k < labels.len() ==>
            info_selected(storage, vrf, labels[k].0@, azks.latest_epoch, the_info(storage, vrf, labels[k].0@, azks.latest_epoch))
            && lookup_assembled::<TC, S, V>(storage, vrf, azks, the_info(storage, vrf, labels[k].0@, azks.latest_epoch), proofs[k])
}

// ---- audit entry point (C04 range validation at the directory level)
pub uninterp spec fn append_only_of<S: Database>(azks: Azks, storage: &StorageManager<S>, start: u64, end: u64) -> Result<AppendOnlyProof, AkdError>;

// one lookup answer, assembled entirely from ONE value `a` of the epoch record
pub open spec fn lookup_answer_ok<TC: Configuration, S: Database, V>(storage: &StorageManager<S>, vrf: &V, label: Seq<u8>, a: Azks, proof: LookupProof, eh: EpochHash) -> bool {
    &&& eh.0 == a.latest_epoch
    &&& Ok::<Digest, AkdError>(eh.1) == root_hash_of(a, storage)
    &&& info_selected(storage, vrf, label, a.latest_epoch, the_info(storage, vrf, label, a.latest_epoch))
    &&& lookup_assembled::<TC, S, V>(storage, vrf, a, the_info(storage, vrf, label, a.latest_epoch), proof)
}
