// ---- node_label unit: hand-written specification side
// Configuration: only the member this unit calls. The two real implementations of empty_label are
// extracted below and verified against this contract.
pub trait Configuration {
    spec fn spec_empty_label() -> NodeLabel;
    fn empty_label() -> (r: NodeLabel)
        ensures r == Self::spec_empty_label(), r.label_len == 0;
}
pub trait DomainLabel {}

impl vstd::std_specs::convert::FromSpecImpl<Bit> for PrefixOrdering {
    closed spec fn obeys_from_spec() -> bool { true }
    closed spec fn from_spec(bit: Bit) -> Self { match bit { Bit::Zero => PrefixOrdering::WithZero, Bit::One => PrefixOrdering::WithOne } }
}
impl vstd::std_specs::convert::FromSpecImpl<Bit> for Direction {
    closed spec fn obeys_from_spec() -> bool { true }
    closed spec fn from_spec(bit: Bit) -> Self { match bit { Bit::Zero => Direction::Left, Bit::One => Direction::Right } }
}

// ---- lemmas over the contracts (C17: "behave exactly as on the corresponding bit strings")
// pfx is reflexive and transitive; antisymmetric on canonical labels
// alarm: C17
pub proof fn lemma_pfx_order(a: NodeLabel, b: NodeLabel, c: NodeLabel)
    requires wf(a), wf(b), wf(c)
    ensures pfx(a, a),
            pfx(a, b) && pfx(b, c) ==> pfx(a, c),
            pfx(a, b) && pfx(b, a) && canon(a) && canon(b) ==> a == b,
{
    if pfx(a, b) && pfx(b, a) && canon(a) && canon(b) { lemma_label_ext(a, b); }
}
// the lcp length is unique, and the lcp is the greatest lower bound of the prefix order
// alarm: C17
pub proof fn lemma_lcp_glb(a: NodeLabel, b: NodeLabel, k: int, c: NodeLabel)
    requires wf(a), wf(b), wf(c), is_lcplen(a, b, k)
    ensures forall|k2: int| is_lcplen(a, b, k2) ==> k2 == k,
            pfx(c, a) && pfx(c, b) ==> c.label_len <= k,
{
    assert forall|k2: int| is_lcplen(a, b, k2) implies k2 == k by {
        if k2 < k { assert(bit(a, k2) == bit(b, k2)); }
        if k < k2 { assert(bit(a, k) == bit(b, k)); }
    }
    if pfx(c, a) && pfx(c, b) && c.label_len > k {
        assert(bit(c, k) == bit(a, k) && bit(c, k) == bit(b, k));
    }
}
// get_prefix_ordering(p, o) != Invalid  <==>  p is a proper prefix of o; and the direction is the next bit
// alarm: C17
pub proof fn lemma_ordering_meaning(p: NodeLabel, o: NodeLabel)
    requires wf(p), wf(o)
    ensures (p.label_len < o.label_len && agree(p, o, p.label_len as int)) <==> (pfx(p, o) && p.label_len != o.label_len)
{}

// ---- set operations (second sentence of C17): why the binary-searchable path may look only at the ends of a sorted set.
// For equal-length canonical labels the derived order (len, bytes) is the bit-lexicographic order ord_le of label_order.rs.
// L-FIRSTLAST: in a sorted sequence every element shares the common prefix of the first and the last element
// alarm: C17
pub proof fn lemma_first_last(s: Seq<NodeLabel>, k: int, n: int)
    requires
        s.len() > 0, 0 <= k < s.len(), 0 <= n <= 256,
        forall|x: int, y: int| 0 <= x < y < s.len() ==> ord_le(#[trigger] s[x], #[trigger] s[y]),
        agree(s[0], s[s.len() - 1], n),
    ensures agree(s[0], s[k], n)
{
    let a = s[0]; let b = s[k]; let c = s[s.len() - 1];
    if k == 0 { } else if k == s.len() - 1 { } else {
        assert(ord_le(a, b) && ord_le(b, c));
        lemma_interval(a, b, c, n);
    }
}
// L-MONO: in a sorted sequence of labels that all extend a prefix of m bits, "the next bit is 1" is monotone (false..false true..true),
// so the binary search for the partition point finds the same split as a linear scan
// alarm: C17
pub proof fn lemma_partition_monotone(s: Seq<NodeLabel>, m: int, i: int, j: int)
    requires
        0 <= m < 256, 0 <= i < j < s.len(),
        forall|x: int, y: int| 0 <= x < y < s.len() ==> ord_le(#[trigger] s[x], #[trigger] s[y]),
        forall|x: int| 0 <= x < s.len() ==> agree(s[0], #[trigger] s[x], m),
        bit(s[i], m),
    ensures bit(s[j], m)
{
    let a = s[i]; let b = s[j];
    assert(ord_le(a, b));
    assert(agree(a, b, m)) by {
        assert forall|q: int| 0 <= q < m implies bit(a, q) == bit(b, q) by { assert(bit(s[0], q) == bit(a, q)); assert(bit(s[0], q) == bit(b, q)); }
    }
    if bits_lt(a, b) {
        let t = choose|t: int| bits_lt_at(a, b, t);
        if t < m { assert(bit(a, t) == bit(b, t)); }
        if t > m { assert(bit(a, m) == bit(b, m)); }
    } else {
        assert(bit(a, m) == bit(b, m));
    }
}
