// ---- verify_base: acceptance predicates (DESIGN section 4)
// crate-root re-exports the extracted code expects
pub mod proto { #[derive(PartialEq, Eq)] pub struct ConversionError(pub String); }

// bottom-up Merkle fold of a membership proof over its last k sibling proofs
pub open spec fn fold_mp<TC: Configuration>(hash_val: AzksValue, label: NodeLabel, sibs: Seq<SiblingProof>, k: int) -> (AzksValue, NodeLabel)
    decreases k
{
    if k <= 0 { (hash_val, label) } else {
        let (v, l) = fold_mp::<TC>(hash_val, label, sibs, k - 1);
        let sp = sibs[sibs.len() - k];
        let sib = sp.siblings[0];
        match sp.direction {
            Direction::Left => (TC::spec_parent(v, spec_label_value::<TC>(l), sib.value, spec_label_value::<TC>(sib.label)), sp.label),
            Direction::Right => (TC::spec_parent(sib.value, spec_label_value::<TC>(sib.label), v, spec_label_value::<TC>(l)), sp.label),
        }
    }
}
pub open spec fn mem_ok<TC: Configuration>(root: Digest, mp: MembershipProof) -> bool {
    // the fold ends AT THE ROOT LABEL (repair of D15: the root hash commits to a value, not to a label) and in the root hash
    is_root(fold_mp::<TC>(mp.hash_val, mp.label, mp.sibling_proofs@, mp.sibling_proofs@.len() as int).1)
    && TC::spec_root(fold_mp::<TC>(mp.hash_val, mp.label, mp.sibling_proofs@, mp.sibling_proofs@.len() as int).0) == root
}
// structural soundness of a non-membership proof, from the property statement:
// "anchored at the deepest matching node" = the anchor is a prefix of the label and NO child of the anchor is
pub open spec fn nm_struct<TC: Configuration>(p: NonMembershipProof) -> bool {
    pfx(p.longest_prefix, p.label)
    && (forall|j: int| 0 <= j < 2 ==> !(#[trigger] p.longest_prefix_children[j].label.label_len > 0 && pfx(p.longest_prefix_children[j].label, p.label)))
    && p.longest_prefix_membership_proof.label == p.longest_prefix
    && p.longest_prefix_membership_proof.hash_val == TC::spec_parent(
          p.longest_prefix_children[0].value, spec_label_value::<TC>(p.longest_prefix_children[0].label),
          p.longest_prefix_children[1].value, spec_label_value::<TC>(p.longest_prefix_children[1].label))
}
pub open spec fn nonmem_ok<TC: Configuration>(root: Digest, p: NonMembershipProof) -> bool {
    nm_struct::<TC>(p) && mem_ok::<TC>(root, p.longest_prefix_membership_proof)
}
pub open spec fn wf_nm(p: NonMembershipProof) -> bool {
    wf(p.label) && wf(p.longest_prefix) && wf(p.longest_prefix_children[0].label) && wf(p.longest_prefix_children[1].label)
}
// the claimed node label is the VRF output for (label, freshness, version) under pk
pub open spec fn label_ok<TC: Configuration>(pk: Seq<u8>, label: Seq<u8>, f: VersionFreshness, version: u64, vrf_proof: Seq<u8>, nl: NodeLabel) -> bool {
    vrf_pk_parse(pk) is Ok && vrf_proof_parse(vrf_proof) is Ok
    && vrf_accepts(vrf_pk_parse(pk)->Ok_0, vrf_proof_parse(vrf_proof)->Ok_0, TC::spec_label_input(label, f, version))
    && nl == (NodeLabel { label_val: vrf_trunc(vrf_output(vrf_proof_parse(vrf_proof)->Ok_0)), label_len: 256 })
}
pub open spec fn exist_ok<TC: Configuration>(pk: Seq<u8>, root: Digest, label: Seq<u8>, f: VersionFreshness, version: u64, vrf: Seq<u8>, mp: MembershipProof) -> bool {
    label_ok::<TC>(pk, label, f, version, vrf, mp.label) && mem_ok::<TC>(root, mp)
}
pub open spec fn nonexist_ok<TC: Configuration>(pk: Seq<u8>, root: Digest, label: Seq<u8>, f: VersionFreshness, version: u64, vrf: Seq<u8>, nm: NonMembershipProof) -> bool {
    label_ok::<TC>(pk, label, f, version, vrf, nm.label) && nonmem_ok::<TC>(root, nm)
}
