// ---- azks_audit unit (C04): range refusal and shape of the append-only proof for (start, end)
use vstd::future::FutureAdditionalSpecFns;
pub mod akd_core {
    pub mod ecvrf { pub use crate::VrfError; }
    pub mod verify { pub use crate::VerificationError; }
}
pub enum VrfError { PublicKey(String), SigningKey(String), Verification(String) }
pub enum VerificationError { MembershipProof(String), NonMembershipProof(String), LookupProof(String), HistoryProof(String), Vrf(VrfError) }
pub trait Configuration {
    spec fn spec_root(v: AzksValue) -> Digest;
    fn compute_root_hash_from_val(root_val: &AzksValue) -> (r: Digest)
        ensures r == Self::spec_root(*root_val);
}
pub trait Database {}
#[verifier::external_body]
#[verifier::reject_recursive_types(S)]
pub struct StorageManager<S: Database> { _s: core::marker::PhantomData<S> }
impl<S: Database> StorageManager<S> {
    #[verifier::external_body]
    pub async fn log_metrics(&self) {}
}
pub type AppendOnlyHelper = (Vec<AzksElement>, Vec<AzksElement>);

// what the per-epoch walk returns for (latest epoch, root node, ep -> ep+1): left abstract (the walk is async-recursive with task spawning)
pub uninterp spec fn walk_result<TC: Configuration, S: Database>(storage: &StorageManager<S>, latest_epoch: u64, node: TreeNode, start: u64, end: u64) -> AppendOnlyHelper;
pub uninterp spec fn root_asof<S: Database>(storage: &StorageManager<S>, latest_epoch: u64) -> Result<TreeNode, StorageError>;

impl vstd::std_specs::convert::FromSpecImpl<StorageError> for AkdError {
    open spec fn obeys_from_spec() -> bool { true }
    open spec fn from_spec(e: StorageError) -> Self { AkdError::Storage(e) }
}

// ---- batch insertion
impl vstd::std_specs::convert::FromSpecImpl<Vec<AzksElement>> for AzksElementSet {
    closed spec fn obeys_from_spec() -> bool { true }
    closed spec fn from_spec(nodes: Vec<AzksElement>) -> Self { set_from(nodes) }
}
// AzksElementSet::from(nodes): some arrangement of the same elements (sorted when all labels have one length) - only the length matters here
pub uninterp spec fn set_from(nodes: Vec<AzksElement>) -> AzksElementSet;
pub open spec fn set_len(s: AzksElementSet) -> int {
    match s { AzksElementSet::BinarySearchable(v) => v@.len() as int, AzksElementSet::Unsorted(v) => v@.len() as int }
}
#[verifier::external_body]
pub proof fn axiom_set_from_len(nodes: Vec<AzksElement>)
    ensures set_len(set_from(nodes)) == nodes@.len()
{}
impl From<Vec<AzksElement>> for AzksElementSet {
    #[verifier::external_body]
    fn from(nodes: Vec<AzksElement>) -> (r: Self) { unimplemented!() }
}
// permission to (re)write the root record: granted by the caller only for a non-empty batch
pub uninterp spec fn root_write_permitted() -> bool;

// ---- epoch hash (C13: an answer never labels a root hash with the wrong epoch)
pub trait VRFKeyStorage {}
// MODEL of akd/src/directory.rs::Directory: only the field the verified function touches (the VRF storage, the parallelism
// configuration and the cache lock play no role in get_epoch_hash)
#[verifier::reject_recursive_types(S)]
#[verifier::reject_recursive_types(TC)]
#[verifier::reject_recursive_types(V)]
pub struct Directory<TC, S: Database, V> {
    pub storage: StorageManager<S>,
    pub vrf: V,
    pub tc: core::marker::PhantomData<TC>,
}
// what a read of the epoch record returns during this call
pub uninterp spec fn azks_read<S: Database>(storage: &StorageManager<S>) -> Result<Azks, AkdError>;
impl<TC: Configuration, S: Database + 'static, V: VRFKeyStorage> Directory<TC, S, V> {
    #[verifier::external_body]
    pub(crate) async fn retrieve_azks(&self) -> (r: Result<Azks, AkdError>)
        ensures r == azks_read(&self.storage)
    { unimplemented!() }
}
