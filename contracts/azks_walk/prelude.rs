// ---- azks_walk unit (C04): the per-epoch proof walk get_append_only_proof_helper against its mathematical description
use vstd::future::FutureAdditionalSpecFns;
use vstd::multiset::Multiset;
pub mod akd_core {
    pub mod ecvrf { pub use crate::VrfError; }
    pub mod verify { pub use crate::VerificationError; }
}
pub enum VrfError { PublicKey(String), SigningKey(String), Verification(String) }
pub enum VerificationError { MembershipProof(String), NonMembershipProof(String), LookupProof(String), HistoryProof(String), Vrf(VrfError) }
pub struct AzksValueWithEpoch(pub Digest);
pub trait Configuration {
    spec fn spec_leaf_with_epoch(commitment: AzksValue, epoch: u64) -> AzksValueWithEpoch;
    spec fn spec_empty_node() -> AzksValue;
    fn hash_leaf_with_commitment(commitment: AzksValue, epoch: u64) -> (r: AzksValueWithEpoch)
        ensures r == Self::spec_leaf_with_epoch(commitment, epoch);
    fn empty_node_hash() -> (r: AzksValue)
        ensures r == Self::spec_empty_node();
    spec fn spec_empty_label() -> NodeLabel;
    spec fn spec_parent(lv: AzksValue, ll: Seq<u8>, rv: AzksValue, rl: Seq<u8>) -> AzksValue;
    spec fn spec_label_value(l: NodeLabel) -> Seq<u8>;
    fn empty_label() -> (r: NodeLabel)
        ensures r == Self::spec_empty_label();
    fn compute_parent_hash_from_children(left_val: &AzksValue, left_label: &[u8], right_val: &AzksValue, right_label: &[u8]) -> (r: AzksValue)
        ensures r == Self::spec_parent(*left_val, left_label@, *right_val, right_label@);
}
pub trait Database {}
#[verifier::external_body]
#[verifier::reject_recursive_types(S)]
pub struct StorageManager<S: Database> { _s: core::marker::PhantomData<S> }
pub type AppendOnlyHelper = (Vec<AzksElement>, Vec<AzksElement>);

// what a read of the node record `label` returns to a reader whose epoch is `epoch` (a function of the manager and the key for the
// duration of one proof generation, T6); clones of a manager read the same storage
pub uninterp spec fn db_of<S: Database>(storage: &StorageManager<S>) -> int;
pub uninterp spec fn stored(db: int, label: NodeLabel, epoch: u64) -> Result<TreeNode, StorageError>;
impl<S: Database> Clone for StorageManager<S> {
    #[verifier::external_body]
    fn clone(&self) -> (r: Self)
        ensures db_of(&r) == db_of(self)
    { unimplemented!() }
}

impl vstd::std_specs::convert::FromSpecImpl<StorageError> for AkdError {
    open spec fn obeys_from_spec() -> bool { true }
    open spec fn from_spec(e: StorageError) -> Self { AkdError::Storage(e) }
}

// ---- the values the walk reports
pub open spec fn node_value<TC: Configuration>(input: Option<TreeNode>, mode: NodeHashingMode) -> AzksValue {
    match input {
        Some(n) => if n.node_type is Leaf && mode is WithLeafEpoch { AzksValue(TC::spec_leaf_with_epoch(n.hash, n.last_epoch).0) } else { n.hash },
        None => TC::spec_empty_node(),
    }
}
// an unchanged subtree is reported by its root: label and the value its parent hashes (leaf values carry their epoch)
pub open spec fn unchanged_elem<TC: Configuration>(n: TreeNode) -> AzksElement {
    AzksElement { label: n.label, value: node_value::<TC>(Some(n), NodeHashingMode::WithLeafEpoch) }
}
// an inserted leaf is reported with its own stored value
pub open spec fn leaf_elem(n: TreeNode) -> AzksElement { AzksElement { label: n.label, value: n.hash } }

pub type WalkOut = (Multiset<AzksElement>, Multiset<AzksElement>);
pub open spec fn child_walk<TC: Configuration>(st: int, latest: u64, child: Option<NodeLabel>, s: u64, e: u64, h: nat) -> Option<WalkOut>
    decreases h, 1nat
{
    match child {
        None => Some((Multiset::empty(), Multiset::empty())),
        Some(c) => match stored(st, c, latest) {
            Ok(n) => walk_spec::<TC>(st, latest, n, s, e, h),
            Err(_) => None,
        },
    }
}
// C04 mechanism, as a function of what is stored: a subtree not updated after `s` is reported by its root (the tree root itself
// is not reported); a subtree whose oldest descendant is younger than `e` is skipped; a leaf in between is reported as inserted;
// otherwise both children are walked. `h` bounds the depth (None = deeper than h or a failed read).
pub open spec fn walk_spec<TC: Configuration>(st: int, latest: u64, node: TreeNode, s: u64, e: u64, h: nat) -> Option<WalkOut>
    decreases h, 0nat
{
    if node.last_epoch <= s {
        if node.node_type is Root { Some((Multiset::empty(), Multiset::empty())) }
        else { Some((Multiset::singleton(unchanged_elem::<TC>(node)), Multiset::empty())) }
    } else if node.min_descendant_epoch > e {
        Some((Multiset::empty(), Multiset::empty()))
    } else if node.node_type is Leaf {
        Some((Multiset::empty(), Multiset::singleton(leaf_elem(node))))
    } else if h == 0 {
        None
    } else {
        let l = child_walk::<TC>(st, latest, node.left_child, s, e, (h - 1) as nat);
        let r = child_walk::<TC>(st, latest, node.right_child, s, e, (h - 1) as nat);
        if l is Some && r is Some { Some(((l->0).0.add((r->0).0), (l->0).1.add((r->0).1))) } else { None }
    }
}
pub open spec fn walk_ok<TC: Configuration>(st: int, latest: u64, node: TreeNode, s: u64, e: u64, out: AppendOnlyHelper) -> bool {
    forall|h: nat| (#[trigger] walk_spec::<TC>(st, latest, node, s, e, h)) is Some ==>
        out.0@.to_multiset() == (walk_spec::<TC>(st, latest, node, s, e, h)->0).0
        && out.1@.to_multiset() == (walk_spec::<TC>(st, latest, node, s, e, h)->0).1
}
pub open spec fn child_ok<TC: Configuration>(st: int, latest: u64, child: Option<NodeLabel>, s: u64, e: u64, out: AppendOnlyHelper) -> bool {
    forall|h: nat| (#[trigger] child_walk::<TC>(st, latest, child, s, e, h)) is Some ==>
        out.0@.to_multiset() == (child_walk::<TC>(st, latest, child, s, e, h)->0).0
        && out.1@.to_multiset() == (child_walk::<TC>(st, latest, child, s, e, h)->0).1
}
pub broadcast proof fn lemma_concat_multiset<T>(a: Seq<T>, b: Seq<T>)
    ensures #[trigger] (a + b).to_multiset() == a.to_multiset().add(b.to_multiset())
{
    vstd::seq_lib::lemma_multiset_commutative(a, b);
}
pub broadcast proof fn lemma_push_multiset<T>(a: Seq<T>, x: T)
    ensures #[trigger] a.push(x).to_multiset() == a.to_multiset().insert(x)
{
    broadcast use vstd::seq_lib::group_to_multiset_ensures;
}
// unfolding of walk_spec at an inner node, for every depth bound at once
pub proof fn lemma_walk_unfold<TC: Configuration>(st: int, latest: u64, node: TreeNode, s: u64, e: u64)
    requires node.last_epoch > s, node.min_descendant_epoch <= e, !(node.node_type is Leaf)
    ensures forall|h: nat| (#[trigger] walk_spec::<TC>(st, latest, node, s, e, h)) is Some ==> {
        let l = child_walk::<TC>(st, latest, node.left_child, s, e, (h - 1) as nat);
        let r = child_walk::<TC>(st, latest, node.right_child, s, e, (h - 1) as nat);
        &&& h > 0 && l is Some && r is Some
        &&& (walk_spec::<TC>(st, latest, node, s, e, h)->0).0 == (l->0).0.add((r->0).0)
        &&& (walk_spec::<TC>(st, latest, node, s, e, h)->0).1 == (l->0).1.add((r->0).1)
    }
{
}
pub proof fn lemma_child_unfold<TC: Configuration>(st: int, latest: u64, child: Option<NodeLabel>, s: u64, e: u64)
    ensures forall|h: nat| #![trigger child_walk::<TC>(st, latest, child, s, e, h)] match child {
        None => child_walk::<TC>(st, latest, child, s, e, h) == Some((Multiset::<AzksElement>::empty(), Multiset::<AzksElement>::empty())),
        Some(c) => match stored(st, c, latest) {
            Ok(n) => child_walk::<TC>(st, latest, child, s, e, h) == walk_spec::<TC>(st, latest, n, s, e, h),
            Err(_) => child_walk::<TC>(st, latest, child, s, e, h) is None,
        },
    }
{
}
pub proof fn lemma_multiset_algebra<T>(a: Multiset<T>, b: Multiset<T>, x: T)
    ensures
        Multiset::<T>::empty().insert(x) == Multiset::singleton(x),
        Multiset::<T>::empty().add(a) == a,
        a.add(Multiset::<T>::empty()) == a,
        a.add(b) == b.add(a),
{
    assert(Multiset::<T>::empty().insert(x) =~= Multiset::singleton(x));
    assert(Multiset::<T>::empty().add(a) =~= a);
    assert(a.add(Multiset::<T>::empty()) =~= a);
    assert(a.add(b) =~= b.add(a));
}
pub proof fn lemma_empty_multiset<T>()
    ensures Seq::<T>::empty().to_multiset() == Multiset::<T>::empty()
{
    broadcast use vstd::seq_lib::group_to_multiset_ensures;
    assert(Seq::<T>::empty().to_multiset() =~= Multiset::<T>::empty());
}

// ---- hash recomputation (what a parent stores is the parent hash of what node_value reports for its two children)
pub open spec fn child_label<TC: Configuration>(c: Option<TreeNode>) -> NodeLabel {
    match c { Some(n) => n.label, None => TC::spec_empty_label() }
}
pub open spec fn parent_hash<TC: Configuration>(l: Option<TreeNode>, r: Option<TreeNode>, mode: NodeHashingMode) -> AzksValue {
    TC::spec_parent(node_value::<TC>(l, mode), TC::spec_label_value(child_label::<TC>(l)), node_value::<TC>(r, mode), TC::spec_label_value(child_label::<TC>(r)))
}
// what get_child_node answers for a child label (absent label -> None; a readable child -> that node)
pub open spec fn child_of(st: int, c: Option<NodeLabel>, epoch: u64) -> Option<TreeNode> {
    match c { Some(l) => match stored(st, l, epoch) { Ok(n) => Some(n), Err(_) => None }, None => None }
}
