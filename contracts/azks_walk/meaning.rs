// ---- L-AUDIT (C04 meaning of the walk): on a stored tree whose epoch summaries bound its leaves' epochs, the walk for (s, e)
// reports, for EVERY s < e (also e before the latest epoch): as unchanged, roots of subtrees that together hold exactly the
// leaves born at or before s; as inserted, exactly the leaves born in (s, e]. Leaves born after e are neither reported nor covered.
// (What is NOT machine-checked: that re-inserting these elements into an empty tree reproduces the root hashes published for s and e -
// that is the trie-insertion argument, see DESIGN.)
pub enum ETrie {
    Leaf(TreeNode),
    Inner(TreeNode, Option<Box<ETrie>>, Option<Box<ETrie>>),
}
pub open spec fn enode(t: ETrie) -> TreeNode {
    match t { ETrie::Leaf(n) => n, ETrie::Inner(n, _, _) => n }
}
pub open spec fn eheight(t: ETrie) -> nat
    decreases t
{
    match t {
        ETrie::Leaf(_) => 0,
        ETrie::Inner(_, l, r) => {
            let hl = match l { Some(b) => eheight(*b), None => 0 };
            let hr = match r { Some(b) => eheight(*b), None => 0 };
            1 + if hl >= hr { hl } else { hr }
        },
    }
}
// the stored records (as read at `latest`) form the tree t
pub open spec fn repr(st: int, latest: u64, t: ETrie) -> bool
    decreases t
{
    match t {
        ETrie::Leaf(n) => n.node_type is Leaf,
        ETrie::Inner(n, l, r) => {
            &&& !(n.node_type is Leaf)
            &&& match l {
                Some(b) => n.left_child is Some && stored(st, n.left_child->0, latest) == Ok::<TreeNode, StorageError>(enode(*b)) && repr(st, latest, *b),
                None => n.left_child is None,
            }
            &&& match r {
                Some(b) => n.right_child is Some && stored(st, n.right_child->0, latest) == Ok::<TreeNode, StorageError>(enode(*b)) && repr(st, latest, *b),
                None => n.right_child is None,
            }
        },
    }
}
pub open spec fn leaves_of(t: ETrie) -> Set<TreeNode>
    decreases t
{
    match t {
        ETrie::Leaf(n) => set![n],
        ETrie::Inner(_, l, r) => {
            let sl = match l { Some(b) => leaves_of(*b), None => Set::empty() };
            let sr = match r { Some(b) => leaves_of(*b), None => Set::empty() };
            sl.union(sr)
        },
    }
}
// epoch summaries bound the leaves below (what set_child maintains, L-SUM in the tree_node unit); a leaf's two epochs are its birth
// epoch (new_leaf_node); only the top node can be the root
pub open spec fn wf_ep(t: ETrie, top: bool) -> bool
    decreases t
{
    let n = enode(t);
    &&& (n.node_type is Root ==> top)
    &&& forall|x: TreeNode| #[trigger] leaves_of(t).contains(x) ==> n.min_descendant_epoch <= x.last_epoch <= n.last_epoch
    &&& match t {
        ETrie::Leaf(n) => n.min_descendant_epoch == n.last_epoch,
        ETrie::Inner(_, l, r) => {
            &&& match l { Some(b) => wf_ep(*b, false), None => true }
            &&& match r { Some(b) => wf_ep(*b, false), None => true }
        },
    }
}
pub struct EWalk {
    pub unchanged: Multiset<AzksElement>,   // elements reported as unchanged
    pub inserted: Multiset<AzksElement>,    // elements reported as inserted
    pub covered: Set<TreeNode>,             // leaves below the reported unchanged subtree roots
    pub ins_leaves: Set<TreeNode>,          // leaves reported as inserted
}
pub open spec fn ewalk_empty() -> EWalk {
    EWalk { unchanged: Multiset::empty(), inserted: Multiset::empty(), covered: Set::empty(), ins_leaves: Set::empty() }
}
pub open spec fn ewalk_child<TC: Configuration>(c: Option<Box<ETrie>>, s: u64, e: u64) -> EWalk
    decreases c, 1nat
{
    match c { Some(b) => ewalk::<TC>(*b, s, e), None => ewalk_empty() }
}
// the walk of C04's mechanism over the tree itself; each reported unchanged root contributes ITS leaves to `covered`
pub open spec fn ewalk<TC: Configuration>(t: ETrie, s: u64, e: u64) -> EWalk
    decreases t, 0nat
{
    let n = enode(t);
    if n.last_epoch <= s {
        if n.node_type is Root { ewalk_empty() }
        else { EWalk { unchanged: Multiset::singleton(unchanged_elem::<TC>(n)), inserted: Multiset::empty(), covered: leaves_of(t), ins_leaves: Set::empty() } }
    } else if n.min_descendant_epoch > e {
        ewalk_empty()
    } else {
        match t {
            ETrie::Leaf(_) => EWalk { unchanged: Multiset::empty(), inserted: Multiset::singleton(leaf_elem(n)), covered: Set::empty(), ins_leaves: set![n] },
            ETrie::Inner(_, l, r) => {
                let a = ewalk_child::<TC>(l, s, e);
                let b = ewalk_child::<TC>(r, s, e);
                EWalk { unchanged: a.unchanged.add(b.unchanged), inserted: a.inserted.add(b.inserted),
                        covered: a.covered.union(b.covered), ins_leaves: a.ins_leaves.union(b.ins_leaves) }
            },
        }
    }
}
// walk_spec does not depend on the depth bound once it is large enough
pub proof fn lemma_walk_mono<TC: Configuration>(st: int, latest: u64, node: TreeNode, s: u64, e: u64, h: nat, h2: nat)
    requires walk_spec::<TC>(st, latest, node, s, e, h) is Some, h <= h2
    ensures walk_spec::<TC>(st, latest, node, s, e, h2) == walk_spec::<TC>(st, latest, node, s, e, h)
    decreases h
{
    if node.last_epoch > s && node.min_descendant_epoch <= e && !(node.node_type is Leaf) {
        assert(h > 0);
        if node.left_child is Some {
            let c = stored(st, node.left_child->0, latest);
            assert(c is Ok);
            lemma_walk_mono::<TC>(st, latest, c->Ok_0, s, e, (h - 1) as nat, (h2 - 1) as nat);
        }
        if node.right_child is Some {
            let c = stored(st, node.right_child->0, latest);
            assert(c is Ok);
            lemma_walk_mono::<TC>(st, latest, c->Ok_0, s, e, (h - 1) as nat, (h2 - 1) as nat);
        }
    }
}
// L-AUDIT-1: on a represented tree the walk is defined (depth bound = height) and reports exactly ewalk's elements
// alarm: C04
pub proof fn lemma_walk_is_ewalk<TC: Configuration>(st: int, latest: u64, t: ETrie, s: u64, e: u64)
    requires repr(st, latest, t)
    ensures
        walk_spec::<TC>(st, latest, enode(t), s, e, eheight(t)) is Some,
        (walk_spec::<TC>(st, latest, enode(t), s, e, eheight(t))->0).0 == ewalk::<TC>(t, s, e).unchanged,
        (walk_spec::<TC>(st, latest, enode(t), s, e, eheight(t))->0).1 == ewalk::<TC>(t, s, e).inserted,
    decreases t
{
    let n = enode(t);
    match t {
        ETrie::Leaf(_) => {},
        ETrie::Inner(_, l, r) => {
            if n.last_epoch > s && n.min_descendant_epoch <= e {
                let h = eheight(t);
                let hm = (h - 1) as nat;
                match l {
                    Some(b) => {
                        lemma_walk_is_ewalk::<TC>(st, latest, *b, s, e);
                        lemma_walk_mono::<TC>(st, latest, enode(*b), s, e, eheight(*b), hm);
                    },
                    None => {},
                }
                match r {
                    Some(b) => {
                        lemma_walk_is_ewalk::<TC>(st, latest, *b, s, e);
                        lemma_walk_mono::<TC>(st, latest, enode(*b), s, e, eheight(*b), hm);
                    },
                    None => {},
                }
                assert(child_walk::<TC>(st, latest, n.left_child, s, e, hm) == Some::<WalkOut>((ewalk_child::<TC>(l, s, e).unchanged, ewalk_child::<TC>(l, s, e).inserted)));
                assert(child_walk::<TC>(st, latest, n.right_child, s, e, hm) == Some::<WalkOut>((ewalk_child::<TC>(r, s, e).unchanged, ewalk_child::<TC>(r, s, e).inserted)));
            }
        },
    }
}
// L-AUDIT-2: what the reported elements stand for, for every range s <= e
// alarm: C04
pub proof fn lemma_ewalk_meaning<TC: Configuration>(t: ETrie, s: u64, e: u64, top: bool)
    requires wf_ep(t, top), s <= e, enode(t).node_type is Root ==> enode(t).last_epoch > s
    ensures
        // unchanged subtree roots cover exactly the leaves born at or before s
        ewalk::<TC>(t, s, e).covered == leaves_of(t).filter(|x: TreeNode| x.last_epoch <= s),
        // inserted = exactly the leaves born in (s, e]
        ewalk::<TC>(t, s, e).ins_leaves == leaves_of(t).filter(|x: TreeNode| s < x.last_epoch <= e),
    decreases t
{
    let n = enode(t);
    let old = |x: TreeNode| x.last_epoch <= s;
    let mid = |x: TreeNode| s < x.last_epoch <= e;
    if n.last_epoch <= s {
        assert(leaves_of(t).filter(old) =~= leaves_of(t));
        assert(leaves_of(t).filter(mid) =~= Set::<TreeNode>::empty());
    } else if n.min_descendant_epoch > e {
        assert(leaves_of(t).filter(old) =~= Set::<TreeNode>::empty());
        assert(leaves_of(t).filter(mid) =~= Set::<TreeNode>::empty());
    } else {
        match t {
            ETrie::Leaf(_) => {
                assert(leaves_of(t).contains(n));
                assert(leaves_of(t).filter(old) =~= Set::<TreeNode>::empty());
                assert(leaves_of(t).filter(mid) =~= set![n]);
            },
            ETrie::Inner(_, l, r) => {
                let sl = match l { Some(b) => leaves_of(*b), None => Set::<TreeNode>::empty() };
                let sr = match r { Some(b) => leaves_of(*b), None => Set::<TreeNode>::empty() };
                match l { Some(b) => { assert(wf_ep(*b, false)); assert(!(enode(*b).node_type is Root)); lemma_ewalk_meaning::<TC>(*b, s, e, false); }, None => {} }
                match r { Some(b) => { assert(wf_ep(*b, false)); assert(!(enode(*b).node_type is Root)); lemma_ewalk_meaning::<TC>(*b, s, e, false); }, None => {} }
                assert(sl.union(sr).filter(old) =~= sl.filter(old).union(sr.filter(old)));
                assert(sl.union(sr).filter(mid) =~= sl.filter(mid).union(sr.filter(mid)));
                assert(Set::<TreeNode>::empty().filter(old) =~= Set::<TreeNode>::empty());
                assert(Set::<TreeNode>::empty().filter(mid) =~= Set::<TreeNode>::empty());
            },
        }
    }
}
