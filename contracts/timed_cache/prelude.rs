// ---- timed_cache unit (C16): what the object cache's write paths store. The cache's state lives behind &self (Arc<RwLock<..>>,
// Arc<DashMap<..>>); the contracts are therefore phrased as knowledge one call gains ("this value was stored in that cell"), learnt only
// from the postcondition of the primitive that does it.
pub mod append_only_zks { pub use crate::Azks; }
#[derive(Clone, Copy)]
pub struct Duration { pub ms: u64 }
#[derive(Clone, Copy)]
pub struct Instant { pub t: u64 }
impl Instant {
    #[verifier::external_body]
    pub fn now() -> (r: Instant) { unimplemented!() }
}
impl core::ops::Add<Duration> for Instant {
    type Output = Instant;
    #[verifier::external_body]
    fn add(self, d: Duration) -> (r: Instant) { unimplemented!() }
}
impl vstd::std_specs::ops::AddSpecImpl<Duration> for Instant {
    open spec fn obeys_add_spec() -> bool { false }
    open spec fn add_req(self, rhs: Duration) -> bool { true }
    open spec fn add_spec(self, rhs: Duration) -> Instant { self }
}

// MODEL of tokio::sync::RwLock<T>: write() hands out a guard for that lock; storing through the guard (R-DEREFSET: `*guard = v`) is the
// only way to learn slot_written(lock, v)
#[verifier::external_body]
#[verifier::reject_recursive_types(T)]
pub struct RwLock<T> { _t: core::marker::PhantomData<T> }
#[verifier::external_body]
#[verifier::reject_recursive_types(T)]
pub struct RwLockWriteGuard<'a, T> { _t: core::marker::PhantomData<&'a T> }
pub uninterp spec fn slot_written<T>(l: &RwLock<T>, v: T) -> bool;
impl<T> RwLock<T> {
    #[verifier::external_body]
    pub async fn write(&self) -> (r: RwLockWriteGuard<'_, T>) ensures r.lock() == self { unimplemented!() }
}
impl<'a, T> RwLockWriteGuard<'a, T> {
    pub uninterp spec fn lock(&self) -> &RwLock<T>;
}
// reading through the guard yields SOME value (what the slot holds is not tracked: other tasks write it too)
impl<'a, T> core::ops::Deref for RwLockWriteGuard<'a, T> {
    type Target = T;
    #[verifier::external_body]
    fn deref(&self) -> (r: &T) { unimplemented!() }
}
#[verifier::external_body]
pub fn vx_guard_set<'a, T>(g: &mut RwLockWriteGuard<'a, T>, v: T)
    ensures slot_written(final(g).lock(), v), final(g).lock() == old(g).lock()
{ unimplemented!() }

// MODEL of dashmap::DashMap<K, V>
#[verifier::external_body]
#[verifier::reject_recursive_types(K)]
#[verifier::reject_recursive_types(V)]
pub struct DashMap<K, V> { _t: core::marker::PhantomData<(K, V)> }
pub uninterp spec fn map_inserted<K, V>(m: &DashMap<K, V>, k: K, v: V) -> bool;
pub uninterp spec fn map_cleared<K, V>(m: &DashMap<K, V>) -> bool;
impl<K, V> DashMap<K, V> {
    #[verifier::external_body]
    pub fn insert(&self, k: K, v: V) -> (r: Option<V>) ensures map_inserted(self, k, v) { unimplemented!() }
    #[verifier::external_body]
    pub fn clear(&self) ensures map_cleared(self) { unimplemented!() }
}

// the storage key bytes of a record (Storable::get_full_binary_id; its encoding is not the subject here)
pub uninterp spec fn full_id(r: DbRecord) -> Seq<u8>;
impl DbRecord {
    #[verifier::external_body]
    pub fn get_full_binary_id(&self) -> (r: Vec<u8>) ensures r@ == full_id(*self) { unimplemented!() }
}
// the map holds `d` under key `k` (with some expiration time)
pub open spec fn map_has_data(m: &DashMap<Vec<u8>, CachedItem>, k: Seq<u8>, d: DbRecord) -> bool {
    exists|kv: Vec<u8>, e: Instant| kv@ == k && #[trigger] map_inserted(m, kv, CachedItem { expiration: e, data: d })
}

// MODEL of akd/src/storage/cache/high_parallelism.rs::TimedCache: the fields the write paths touch (the Arc wrappers are dropped)
pub struct TimedCache {
    pub azks: RwLock<Option<DbRecord>>,
    pub map: DashMap<Vec<u8>, CachedItem>,
    pub item_lifetime: Duration,
}
impl TimedCache {
    // expiry / memory-pressure eviction (floating point, closures over &mut counters): NOT under contract; assumed to touch map entries only
    #[verifier::external_body]
    pub async fn clean(&self) { unimplemented!() }
}
// what a write path must have done for one record: the epoch record goes to its own never-expiring slot, anything else into the map
pub open spec fn stored_in_cache(c: &TimedCache, r: DbRecord) -> bool {
    if r is Azks { slot_written(&c.azks, Some(r)) } else { map_has_data(&c.map, full_id(r), r) }
}
