// ---- tree_node unit: storage as seen by ONE sequential call (T6), record selection, epoch summaries
pub mod akd_core {
    pub mod ecvrf { pub use crate::VrfError; }
    pub mod verify { pub use crate::VerificationError; }
}
pub enum VrfError { PublicKey(String), SigningKey(String), Verification(String) }
pub enum VerificationError { MembershipProof(String), NonMembershipProof(String), LookupProof(String), HistoryProof(String), Vrf(VrfError) }
impl vstd::std_specs::convert::FromSpecImpl<StorageError> for AkdError {
    open spec fn obeys_from_spec() -> bool { true }
    open spec fn from_spec(e: StorageError) -> Self { AkdError::Storage(e) }
}
pub trait Database {}
pub trait Storable { type StorageKey; }
impl Storable for TreeNodeWithPreviousValue { type StorageKey = NodeKey; }

#[verifier::external_body]
#[verifier::reject_recursive_types(S)]
pub struct StorageManager<S: Database> { _s: core::marker::PhantomData<S> }

impl<S: Database> StorageManager<S> {
    // what a read of key `id` returns (a function of manager state and key for the duration of one call)
    pub uninterp spec fn spec_get<St: Storable>(&self, id: St::StorageKey) -> Result<DbRecord, StorageError>;
    // the record was handed to the storage layer by `set`
    pub uninterp spec fn written(&self, rec: DbRecord) -> bool;

    #[verifier::external_body]
    pub async fn get<St: Storable>(&self, id: &St::StorageKey) -> (r: Result<DbRecord, StorageError>)
        ensures r == self.spec_get::<St>(*id)
    { unimplemented!() }

    #[verifier::external_body]
    pub async fn set(&self, record: DbRecord) -> (r: Result<(), StorageError>)
        ensures r is Ok ==> self.written(record)
    { unimplemented!() }
}

// asof(rec, t): the node a reader whose epoch is t must be served from a node record (C13: never a node newer than asked;
// C11: the latest node whenever it is not newer)
pub open spec fn asof(rec: TreeNodeWithPreviousValue, t: u64) -> Option<TreeNode> {
    if rec.latest_node.last_epoch > t {
        match rec.previous_node { Some(p) => if p.last_epoch <= t { Some(p) } else { None }, None => None }
    } else { Some(rec.latest_node) }
}
// the stored node record for a label, if a read returns one
pub open spec fn stored_rec<S: Database>(m: &StorageManager<S>, label: NodeLabel) -> Option<TreeNodeWithPreviousValue> {
    match m.spec_get::<TreeNodeWithPreviousValue>(NodeKey(label)) {
        Ok(DbRecord::TreeNode(rec)) => Some(rec),
        _ => None,
    }
}

// L-ROT (C11): rotating a record for a write at epoch e+1 keeps the as-of-e node readable at e and serves the new node at e+1
// alarm: C11
pub proof fn lemma_rot(r0: TreeNodeWithPreviousValue, new: TreeNode)
    requires new.last_epoch >= 1
    ensures ({
        let e = (new.last_epoch - 1) as u64;
        let r1 = TreeNodeWithPreviousValue { label: r0.label, latest_node: new, previous_node: asof(r0, e) };
        &&& asof(r1, e) == asof(r0, e)
        &&& asof(r1, new.last_epoch) == Some(new)
        &&& forall|t: u64| (#[trigger] asof(r1, t)) is Some ==> asof(r1, t)->Some_0.last_epoch <= t
    })
{
}

pub uninterp spec fn ordering(p: NodeLabel, c: NodeLabel) -> PrefixOrdering;
pub open spec fn umax(a: u64, b: u64) -> u64 { if a >= b { a } else { b } }
pub open spec fn umin(a: u64, b: u64) -> u64 { if a <= b { a } else { b } }

// L-SUM (C04): (last_epoch, min_descendant_epoch) are max / min summaries (0 = "no descendant yet") and set_child's update
// is the summary of the union. summarises(D, le, mde): le is an upper bound of every last_epoch in D that is attained or 0-initialised...
pub open spec fn summarises(d: Set<(u64, u64)>, le: u64, mde: u64) -> bool {
    &&& forall|x: (u64, u64)| d.contains(x) ==> x.0 <= le && (mde != 0 && mde <= x.1)
}
// alarm: C04
pub proof fn lemma_sum(d: Set<(u64, u64)>, le: u64, mde: u64, d2: Set<(u64, u64)>, le2: u64, mde2: u64)
    requires summarises(d, le, mde) || (d =~= Set::empty() && mde == 0),
             summarises(d2, le2, mde2), mde2 != 0,
    ensures summarises(d.union(d2), umax(le, le2), if mde == 0 { mde2 } else { umin(mde, mde2) })
{
}
