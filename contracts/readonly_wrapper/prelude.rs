// ---- readonly_wrapper unit (C14: "served through the read-only wrapper"): every method of ReadOnlyDirectory hands its arguments,
// unchanged, to the method of the same name of the wrapped Directory and returns that method's answer. The proof / error types are
// opaque here (their contents are irrelevant to forwarding); what a Directory method answers for given arguments is an uninterpreted
// function of (directory, arguments) - one call, T6.
pub trait Configuration {}
pub trait Database: Send + Sync {}
pub trait VRFKeyStorage {}
#[verifier::external_body] pub struct LookupProof { _p: () }
#[verifier::external_body] pub struct HistoryProof { _p: () }
#[verifier::external_body] pub struct AppendOnlyProof { _p: () }
#[verifier::external_body] pub struct EpochHash { _p: () }
#[verifier::external_body] pub struct VRFPublicKey { _p: () }
#[verifier::external_body] pub struct AkdError { _p: () }
pub mod tokio {
    pub mod time { #[verifier::external_body] pub struct Duration { _p: () } }
    pub mod sync { pub mod mpsc { #[verifier::external_body] #[verifier::reject_recursive_types(T)] pub struct Sender<T> { _t: core::marker::PhantomData<T> } } }
}
#[verifier::external_body]
#[verifier::reject_recursive_types(TC)]
#[verifier::reject_recursive_types(S)]
#[verifier::reject_recursive_types(V)]
pub struct Directory<TC, S, V> { _t: core::marker::PhantomData<(TC, S, V)> }
impl<TC, S, V> Clone for Directory<TC, S, V> {
    #[verifier::external_body]
    fn clone(&self) -> (r: Self) { unimplemented!() }
}
impl<TC: Configuration, S: Database + Sync + Send, V: VRFKeyStorage> Directory<TC, S, V> {
    pub uninterp spec fn served_lookup(&self, uname: AkdLabel) -> Result<(LookupProof, EpochHash), AkdError>;
    pub uninterp spec fn served_batch_lookup(&self, unames: Seq<AkdLabel>) -> Result<(Vec<LookupProof>, EpochHash), AkdError>;
    pub uninterp spec fn served_key_history(&self, uname: AkdLabel, params: HistoryParams) -> Result<(HistoryProof, EpochHash), AkdError>;
    pub uninterp spec fn served_poll(&self, period: tokio::time::Duration, change_detected: Option<tokio::sync::mpsc::Sender<()>>) -> Result<(), AkdError>;
    pub uninterp spec fn served_audit(&self, audit_start_ep: u64, audit_end_ep: u64) -> Result<AppendOnlyProof, AkdError>;
    pub uninterp spec fn served_epoch_hash(&self) -> Result<EpochHash, AkdError>;
    pub uninterp spec fn served_public_key(&self) -> Result<VRFPublicKey, AkdError>;
    #[verifier::external_body]
    pub async fn lookup(&self, uname: AkdLabel) -> (r: Result<(LookupProof, EpochHash), AkdError>) ensures r == self.served_lookup(uname) { unimplemented!() }
    #[verifier::external_body]
    pub async fn batch_lookup(&self, unames: &[AkdLabel]) -> (r: Result<(Vec<LookupProof>, EpochHash), AkdError>) ensures r == self.served_batch_lookup(unames@) { unimplemented!() }
    #[verifier::external_body]
    pub async fn key_history(&self, uname: &AkdLabel, params: HistoryParams) -> (r: Result<(HistoryProof, EpochHash), AkdError>) ensures r == self.served_key_history(*uname, params) { unimplemented!() }
    #[verifier::external_body]
    pub async fn poll_for_azks_changes(&self, period: tokio::time::Duration, change_detected: Option<tokio::sync::mpsc::Sender<()>>) -> (r: Result<(), AkdError>) ensures r == self.served_poll(period, change_detected) { unimplemented!() }
    #[verifier::external_body]
    pub async fn audit(&self, audit_start_ep: u64, audit_end_ep: u64) -> (r: Result<AppendOnlyProof, AkdError>) ensures r == self.served_audit(audit_start_ep, audit_end_ep) { unimplemented!() }
    #[verifier::external_body]
    pub async fn get_epoch_hash(&self) -> (r: Result<EpochHash, AkdError>) ensures r == self.served_epoch_hash() { unimplemented!() }
    #[verifier::external_body]
    pub async fn get_public_key(&self) -> (r: Result<VRFPublicKey, AkdError>) ensures r == self.served_public_key() { unimplemented!() }
}
