// ---- verify_lookup: the acceptance predicates are those of verify_base (same file included)
pub open spec fn plog(v: u64) -> u64 { 1u64 << ((63 - vstd::std_specs::bits::u64_leading_zeros(v)) as u64) }
pub mod utils { pub(crate) use super::get_marker_version_log2; }

// Meaning step for C06 (spec level): in an honestly maintained tree the label has fresh leaves exactly for versions 1..=n and stale leaves
// exactly for versions 1..n-1. A lookup proof accepted for version v shows fresh(v) present and stale(v) absent: only v == n qualifies.
// (VRF uniqueness and collision resistance turn the accepted sub-proofs into "present" / "absent": unit trie_lemmas, and T4.)
// alarm: C06
pub proof fn lemma_lookup_pins_latest(v: u64, n: u64)
    requires
        1 <= v, 1 <= n,
        1 <= v <= n,          // fresh(v) present
        !(1 <= v < n),        // stale(v) absent
    ensures v == n
{}
