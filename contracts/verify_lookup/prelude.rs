// ---- verify_lookup: the acceptance predicates are those of verify_base (same file included)
pub open spec fn plog(v: u64) -> u64 { 1u64 << ((63 - vstd::std_specs::bits::u64_leading_zeros(v)) as u64) }
pub mod utils { pub(crate) use super::get_marker_version_log2; }
