// ---- auditor unit (C09): what the auditor's acceptance means, with the tree reconstruction left abstract
pub mod akd_core {
    pub mod ecvrf { pub use crate::VrfError; }
    pub mod verify { pub use crate::VerificationError; }
}
// akd_core error types referenced by AkdError (payloads only)
pub enum VrfError { PublicKey(String), SigningKey(String), Verification(String) }
pub enum VerificationError { MembershipProof(String), NonMembershipProof(String), LookupProof(String), HistoryProof(String), Vrf(VrfError) }

pub trait Configuration {
    spec fn spec_leaf_commit(commitment: AzksValue, epoch: u64) -> Digest;
    fn hash_leaf_with_commitment(commitment: AzksValue, epoch: u64) -> (r: AzksValueWithEpoch)
        ensures r.0 == Self::spec_leaf_commit(commitment, epoch);
}
pub trait Database {}
#[verifier::external_body]
pub struct AsyncInMemoryDatabase { _p: u8 }
impl Database for AsyncInMemoryDatabase {}
impl AsyncInMemoryDatabase {
    #[verifier::external_body]
    pub fn new_with_remove_child_nodes_on_insertion() -> Self { unimplemented!() }
}
#[verifier::external_body]
#[verifier::reject_recursive_types(S)]
pub struct StorageManager<S: Database> { _s: core::marker::PhantomData<S> }
impl<S: Database> StorageManager<S> {
    #[verifier::external_body]
    pub fn new_no_cache(db: S) -> Self { unimplemented!() }
}
#[verifier::external_body]
pub struct AzksParallelismConfig { _p: u8 }
impl AzksParallelismConfig {
    #[verifier::external_body]
    pub fn default() -> Self { unimplemented!() }
}

// bit-string prefix relation on labels; its meaning is fixed in unit node_label (C17), here only the relation matters
pub uninterp spec fn pfx(a: NodeLabel, b: NodeLabel) -> bool;
// the set of subtree roots / leaves an append-only proof stands for must be pairwise unrelated (disjoint subtrees):
// "a proof whose node set shadows, duplicates or overlaps part of the earlier tree ... is rejected" (C09)
pub open spec fn prefix_free(s: Seq<AzksElement>) -> bool {
    forall|i: int, j: int| 0 <= i < s.len() && 0 <= j < s.len() && i != j ==> !pfx(#[trigger] s[i].label, #[trigger] s[j].label)
}
// knowledge token: `nodes` were batch-inserted (mode) into the fresh tree held by this manager, starting from epoch e0
pub uninterp spec fn inserted_into<S: Database>(m: &StorageManager<S>, e0: u64, nodes: Seq<AzksElement>, mode: InsertMode) -> bool;
// the root hash of the auditor's reconstruction, as a function of what was inserted (assumed: C01 territory)
pub uninterp spec fn recon_hash<TC: Configuration>(e0: u64, nodes: Seq<AzksElement>, mode: InsertMode) -> Digest;

pub open spec fn hash_ok<TC: Configuration>(nodes: Seq<AzksElement>, expected: Digest, latest_epoch: Option<u64>) -> bool {
    prefix_free(nodes)
    && expected == recon_hash::<TC>(match latest_epoch { Some(e) => e, None => 0 }, nodes, InsertMode::Auditor)
}
pub open spec fn end_nodes<TC: Configuration>(p: SingleAppendOnlyProof, end_epoch: u64) -> Seq<AzksElement> {
    p.unchanged_nodes@ + Seq::new(p.inserted@.len(), |k: int| AzksElement {
        label: p.inserted@[k].label,
        value: AzksValue(TC::spec_leaf_commit(p.inserted@[k].value, end_epoch)),
    })
}
// acceptance of one epoch transition
pub open spec fn consecutive_ok<TC: Configuration>(p: SingleAppendOnlyProof, start: Digest, end: Digest, end_epoch: u64) -> bool {
    hash_ok::<TC>(p.unchanged_nodes@, start, None)
    && hash_ok::<TC>(end_nodes::<TC>(p, end_epoch), end, Some((end_epoch - 1) as u64))
}

#[verifier::external_body]
pub proof fn axiom_digest_eq()
    ensures forall|a: [u8; 32], b: [u8; 32]| #[trigger] vstd::std_specs::cmp::PartialEqSpec::eq_spec(&a, &b) == (a == b)
{}
