// ---- auditor unit (C09): what the auditor's acceptance means, with the tree reconstruction left abstract
pub mod akd_core {
    pub mod ecvrf { pub use crate::VrfError; }
    pub mod verify { pub use crate::VerificationError; }
}
// akd_core error types referenced by AkdError (payloads only)
pub enum VrfError { PublicKey(String), SigningKey(String), Verification(String) }
pub enum VerificationError { MembershipProof(String), NonMembershipProof(String), LookupProof(String), HistoryProof(String), Vrf(VrfError) }

pub trait Configuration {
    spec fn spec_leaf_commit(commitment: AzksValue, epoch: u64) -> Digest;
    fn hash_leaf_with_commitment(commitment: AzksValue, epoch: u64) -> (r: AzksValueWithEpoch)
        ensures r.0 == Self::spec_leaf_commit(commitment, epoch);
}
pub trait Database {}
#[verifier::external_body]
pub struct AsyncInMemoryDatabase { _p: u8 }
impl Database for AsyncInMemoryDatabase {}
impl AsyncInMemoryDatabase {
    #[verifier::external_body]
    pub fn new_with_remove_child_nodes_on_insertion() -> Self { unimplemented!() }
}
#[verifier::external_body]
#[verifier::reject_recursive_types(S)]
pub struct StorageManager<S: Database> { _s: core::marker::PhantomData<S> }
impl<S: Database> StorageManager<S> {
    #[verifier::external_body]
    pub fn new_no_cache(db: S) -> Self { unimplemented!() }
}
#[verifier::external_body]
pub struct AzksParallelismConfig { _p: u8 }
impl AzksParallelismConfig {
    #[verifier::external_body]
    pub fn default() -> Self { unimplemented!() }
}

// (pfx is the bit-string prefix relation of contracts/common/label_spec.rs)
// the set of subtree roots / leaves an append-only proof stands for must be pairwise unrelated (disjoint subtrees):
// "a proof whose node set shadows, duplicates or overlaps part of the earlier tree ... is rejected" (C09)
pub open spec fn prefix_free(s: Seq<AzksElement>) -> bool {
    forall|i: int, j: int| 0 <= i < s.len() && 0 <= j < s.len() && i != j ==> !pfx(#[trigger] s[i].label, #[trigger] s[j].label)
}
// knowledge token: `nodes` were batch-inserted (mode) into the fresh tree held by this manager, starting from epoch e0
pub uninterp spec fn inserted_into<S: Database>(m: &StorageManager<S>, e0: u64, nodes: Seq<AzksElement>, mode: InsertMode) -> bool;
// the root hash of the auditor's reconstruction, as a function of what was inserted (assumed: C01 territory)
pub uninterp spec fn recon_hash<TC: Configuration>(e0: u64, nodes: Seq<AzksElement>, mode: InsertMode) -> Digest;

pub open spec fn hash_ok<TC: Configuration>(nodes: Seq<AzksElement>, expected: Digest, latest_epoch: Option<u64>) -> bool {
    prefix_free(nodes)
    && expected == recon_hash::<TC>(match latest_epoch { Some(e) => e, None => 0 }, nodes, InsertMode::Auditor)
}
pub open spec fn end_nodes<TC: Configuration>(p: SingleAppendOnlyProof, end_epoch: u64) -> Seq<AzksElement> {
    p.unchanged_nodes@ + Seq::new(p.inserted@.len(), |k: int| AzksElement {
        label: p.inserted@[k].label,
        value: AzksValue(TC::spec_leaf_commit(p.inserted@[k].value, end_epoch)),
    })
}
// acceptance of one epoch transition
pub open spec fn consecutive_ok<TC: Configuration>(p: SingleAppendOnlyProof, start: Digest, end: Digest, end_epoch: u64) -> bool {
    hash_ok::<TC>(p.unchanged_nodes@, start, None)
    && hash_ok::<TC>(end_nodes::<TC>(p, end_epoch), end, Some((end_epoch - 1) as u64))
}

#[verifier::external_body]
pub proof fn axiom_digest_eq()
    ensures forall|a: [u8; 32], b: [u8; 32]| #[trigger] vstd::std_specs::cmp::PartialEqSpec::eq_spec(&a, &b) == (a == b)
{}

// ---- assumed std specifications used by the node-set validation
// <[u8; 32] as Ord>::cmp is the byte-wise lexicographic order (cross-checked by the Kani harness c17_cmp_contract)
pub uninterp spec fn arr_cmp<T, const N: usize>(a: [T; N], b: [T; N]) -> core::cmp::Ordering;
pub assume_specification<T: core::cmp::Ord, const N: usize>[ <[T; N] as core::cmp::Ord>::cmp ](a: &[T; N], b: &[T; N]) -> (r: core::cmp::Ordering)
    ensures r == arr_cmp(*a, *b);
#[verifier::external_body]
pub proof fn axiom_arr_cmp_bytes()
    ensures forall|a: [u8; 32], b: [u8; 32]| #![trigger arr_cmp(a, b)]
        ((arr_cmp(a, b) is Less) <==> bytes_lt(a, b)) && ((arr_cmp(a, b) is Greater) <==> bytes_lt(b, a)) && ((arr_cmp(a, b) is Equal) <==> a == b)
{}
pub assume_specification[ core::cmp::Ordering::then ](a: core::cmp::Ordering, b: core::cmp::Ordering) -> (r: core::cmp::Ordering)
    ensures r == (if a is Equal { b } else { a });
// sort_unstable_by: the result is a rearrangement of the input (every old position has its own new position) and is ordered by the comparator
// (the two existentials say: the result is a rearrangement of the input)
pub assume_specification<T, F: FnMut(&T, &T) -> core::cmp::Ordering>[ <[T]>::sort_unstable_by::<F> ](s: &mut [T], compare: F)
    ensures
        final(s)@.len() == old(s)@.len(),
        exists|q: Seq<int>| #[trigger] rearranged(old(s)@, final(s)@, q),
        exists|p: Seq<int>| #[trigger] drawn_from(final(s)@, old(s)@, p),
        forall|i: int, j: int| #![trigger final(s)@[i], final(s)@[j]] 0 <= i < j < final(s)@.len() ==>
            exists|o: core::cmp::Ordering| #[trigger] compare.ensures((&final(s)@[i], &final(s)@[j]), o) && !(o is Greater);

// every position i of `old` has its own position q[i] in `new` holding the same element
pub open spec fn rearranged<T>(old: Seq<T>, new: Seq<T>, q: Seq<int>) -> bool {
    q.len() == old.len()
    && (forall|i: int| 0 <= i < q.len() ==> 0 <= #[trigger] q[i] < new.len() && old[i] == new[q[i]])
    && (forall|i: int, j: int| 0 <= i < q.len() && 0 <= j < q.len() && i != j ==> #[trigger] q[i] != #[trigger] q[j])
}
// every element of `new` is an element of `old`
pub open spec fn drawn_from<T>(new: Seq<T>, old: Seq<T>, p: Seq<int>) -> bool {
    p.len() == new.len() && (forall|k: int| 0 <= k < p.len() ==> 0 <= #[trigger] p[k] < old.len() && new[k] == old[p[k]])
}
pub open spec fn wf_nodes(s: Seq<AzksElement>) -> bool { forall|i: int| 0 <= i < s.len() ==> wf(#[trigger] s[i].label) }
// labels[i] is the canonical form of nodes[i].label
pub open spec fn canon_of(c: NodeLabel, l: NodeLabel) -> bool { c.label_len == l.label_len && canon(c) && agree(c, l, l.label_len as int) }

// prefix relation only looks at the bits below the lengths, so it is the same on canonical forms
pub proof fn lemma_pfx_canon(ca: NodeLabel, a: NodeLabel, cb: NodeLabel, b: NodeLabel)
    requires canon_of(ca, a), canon_of(cb, b)
    ensures pfx(ca, cb) == pfx(a, b)
{
    if pfx(a, b) { assert forall|i: int| 0 <= i < ca.label_len implies bit(ca, i) == bit(cb, i) by { assert(bit(ca, i) == bit(a, i)); assert(bit(cb, i) == bit(b, i)); } }
    if pfx(ca, cb) { assert forall|i: int| 0 <= i < a.label_len implies bit(a, i) == bit(b, i) by { assert(bit(ca, i) == bit(a, i)); assert(bit(cb, i) == bit(b, i)); } }
}
