// ------------------------------------------------------------------ spec vocabulary (as in the L1 probe)
pub open spec fn pow2(p: u64) -> bool { p != 0 && p & sub(p, 1) == 0 }
pub open spec fn mask_le(p: u64) -> u64 { sub(p, 1) | p }
pub open spec fn above(x: u64, p: u64) -> u64 { x & !mask_le(p) }
pub open spec fn rnd(n: u64, p: u64) -> u64 { (n | p) & !sub(p, 1) }
pub open spec fn is_sk(x: u64) -> bool {
    x == 1 || x == 2 || x == 4 || x == 16 || x == 256 || x == 65536 || x == 0x1_0000_0000
}
pub open spec fn kmin(n: u64) -> u64 {
    if n < 1 { 1 } else if n < 2 { 2 } else if n < 4 { 4 } else if n < 16 { 16 }
    else if n < 256 { 256 } else if n < 65536 { 65536 } else if n < 0x1_0000_0000 { 0x1_0000_0000 } else { 0 }
}
pub open spec fn fut_a(x: u64, n: u64, p: u64) -> bool {
    pow2(p) && n & p == 0 && p <= n && x == rnd(n, p)
}
pub open spec fn in_fut(x: u64, n: u64, e: u64) -> bool {
    n < x && x <= e && (
        (exists|p: u64| fut_a(x, n, p))
        || (pow2(x) && !(kmin(n) != 0 && kmin(n) <= e && x >= kmin(n)))
        || is_sk(x))
}
pub open spec fn sk(i: int) -> u64 {
    if i == 0 { 1 } else if i == 1 { 2 } else if i == 2 { 4 } else if i == 3 { 16 }
    else if i == 4 { 256 } else if i == 5 { 65536 } else { 0x1_0000_0000 }
}

// ------------------------------------------------------------------ bridge lemmas
pub proof fn lemma_lz_pow2(n: u64, j: u64)
    requires n >= 1, j < 64
    ensures u64_leading_zeros(n) <= 63,
            ((1u64 << j) <= n) <==> (j + u64_leading_zeros(n) < 64)
    decreases n
{
    reveal(u64_leading_zeros);
    if n == 1 {
        assert(u64_leading_zeros(0) == 64);
        assert(1u64 / 2 == 0);
        assert(u64_leading_zeros(1) == 63);
        assert(((1u64 << j) <= 1u64) <==> j == 0) by(bit_vector) requires j < 64;
    } else {
        let h = n / 2;
        lemma_lz_pow2(h, 0);
        if j == 0 {
            assert((1u64 << 0u64) <= n) by(bit_vector) requires n >= 1;
        } else {
            let j1 = (j - 1) as u64;
            lemma_lz_pow2(h, j1);
            assert(((1u64 << j) <= n) <==> ((1u64 << j1) <= h)) by(bit_vector)
                requires j >= 1, j < 64, j1 == sub(j, 1), h == n / 2;
        }
    }
}

// every power of two is 1 << j for some j < 64
pub proof fn lemma_pow2_index(p: u64) -> (j: u64)
    requires pow2(p)
    ensures j < 64, p == 1u64 << j
{
    let j = choose|j: u64| j < 64 && p == 1u64 << j;
    assert(exists|j: u64| j < 64 && p == 1u64 << j) by {
        assert(p != 0 && p & sub(p, 1) == 0 ==>
            p == 1u64 << 0u64 || p == 1u64 << 1u64 || p == 1u64 << 2u64 || p == 1u64 << 3u64 || p == 1u64 << 4u64 || p == 1u64 << 5u64 || p == 1u64 << 6u64 || p == 1u64 << 7u64
         || p == 1u64 << 8u64 || p == 1u64 << 9u64 || p == 1u64 << 10u64 || p == 1u64 << 11u64 || p == 1u64 << 12u64 || p == 1u64 << 13u64 || p == 1u64 << 14u64 || p == 1u64 << 15u64
         || p == 1u64 << 16u64 || p == 1u64 << 17u64 || p == 1u64 << 18u64 || p == 1u64 << 19u64 || p == 1u64 << 20u64 || p == 1u64 << 21u64 || p == 1u64 << 22u64 || p == 1u64 << 23u64
         || p == 1u64 << 24u64 || p == 1u64 << 25u64 || p == 1u64 << 26u64 || p == 1u64 << 27u64 || p == 1u64 << 28u64 || p == 1u64 << 29u64 || p == 1u64 << 30u64 || p == 1u64 << 31u64
         || p == 1u64 << 32u64 || p == 1u64 << 33u64 || p == 1u64 << 34u64 || p == 1u64 << 35u64 || p == 1u64 << 36u64 || p == 1u64 << 37u64 || p == 1u64 << 38u64 || p == 1u64 << 39u64
         || p == 1u64 << 40u64 || p == 1u64 << 41u64 || p == 1u64 << 42u64 || p == 1u64 << 43u64 || p == 1u64 << 44u64 || p == 1u64 << 45u64 || p == 1u64 << 46u64 || p == 1u64 << 47u64
         || p == 1u64 << 48u64 || p == 1u64 << 49u64 || p == 1u64 << 50u64 || p == 1u64 << 51u64 || p == 1u64 << 52u64 || p == 1u64 << 53u64 || p == 1u64 << 54u64 || p == 1u64 << 55u64
         || p == 1u64 << 56u64 || p == 1u64 << 57u64 || p == 1u64 << 58u64 || p == 1u64 << 59u64 || p == 1u64 << 60u64 || p == 1u64 << 61u64 || p == 1u64 << 62u64 || p == 1u64 << 63u64)
            by(bit_vector);
        let w = if p == 1u64 << 0u64 { 0u64 } else { 64u64 };
        // pick the disjunct
        assert(exists|j: u64| j < 64 && p == 1u64 << j) by {
            if p == 1u64 << 0u64 { assert(0u64 < 64 && p == 1u64 << 0u64); }
            else if p == 1u64 << 1u64 { assert(1u64 < 64 && p == 1u64 << 1u64); }
            else if p == 1u64 << 2u64 { assert(2u64 < 64 && p == 1u64 << 2u64); }
            else if p == 1u64 << 3u64 { assert(3u64 < 64 && p == 1u64 << 3u64); }
            else if p == 1u64 << 4u64 { assert(4u64 < 64 && p == 1u64 << 4u64); }
            else if p == 1u64 << 5u64 { assert(5u64 < 64 && p == 1u64 << 5u64); }
            else if p == 1u64 << 6u64 { assert(6u64 < 64 && p == 1u64 << 6u64); }
            else if p == 1u64 << 7u64 { assert(7u64 < 64 && p == 1u64 << 7u64); }
            else if p == 1u64 << 8u64 { assert(8u64 < 64 && p == 1u64 << 8u64); }
            else if p == 1u64 << 9u64 { assert(9u64 < 64 && p == 1u64 << 9u64); }
            else if p == 1u64 << 10u64 { assert(10u64 < 64 && p == 1u64 << 10u64); }
            else if p == 1u64 << 11u64 { assert(11u64 < 64 && p == 1u64 << 11u64); }
            else if p == 1u64 << 12u64 { assert(12u64 < 64 && p == 1u64 << 12u64); }
            else if p == 1u64 << 13u64 { assert(13u64 < 64 && p == 1u64 << 13u64); }
            else if p == 1u64 << 14u64 { assert(14u64 < 64 && p == 1u64 << 14u64); }
            else if p == 1u64 << 15u64 { assert(15u64 < 64 && p == 1u64 << 15u64); }
            else if p == 1u64 << 16u64 { assert(16u64 < 64 && p == 1u64 << 16u64); }
            else if p == 1u64 << 17u64 { assert(17u64 < 64 && p == 1u64 << 17u64); }
            else if p == 1u64 << 18u64 { assert(18u64 < 64 && p == 1u64 << 18u64); }
            else if p == 1u64 << 19u64 { assert(19u64 < 64 && p == 1u64 << 19u64); }
            else if p == 1u64 << 20u64 { assert(20u64 < 64 && p == 1u64 << 20u64); }
            else if p == 1u64 << 21u64 { assert(21u64 < 64 && p == 1u64 << 21u64); }
            else if p == 1u64 << 22u64 { assert(22u64 < 64 && p == 1u64 << 22u64); }
            else if p == 1u64 << 23u64 { assert(23u64 < 64 && p == 1u64 << 23u64); }
            else if p == 1u64 << 24u64 { assert(24u64 < 64 && p == 1u64 << 24u64); }
            else if p == 1u64 << 25u64 { assert(25u64 < 64 && p == 1u64 << 25u64); }
            else if p == 1u64 << 26u64 { assert(26u64 < 64 && p == 1u64 << 26u64); }
            else if p == 1u64 << 27u64 { assert(27u64 < 64 && p == 1u64 << 27u64); }
            else if p == 1u64 << 28u64 { assert(28u64 < 64 && p == 1u64 << 28u64); }
            else if p == 1u64 << 29u64 { assert(29u64 < 64 && p == 1u64 << 29u64); }
            else if p == 1u64 << 30u64 { assert(30u64 < 64 && p == 1u64 << 30u64); }
            else if p == 1u64 << 31u64 { assert(31u64 < 64 && p == 1u64 << 31u64); }
            else if p == 1u64 << 32u64 { assert(32u64 < 64 && p == 1u64 << 32u64); }
            else if p == 1u64 << 33u64 { assert(33u64 < 64 && p == 1u64 << 33u64); }
            else if p == 1u64 << 34u64 { assert(34u64 < 64 && p == 1u64 << 34u64); }
            else if p == 1u64 << 35u64 { assert(35u64 < 64 && p == 1u64 << 35u64); }
            else if p == 1u64 << 36u64 { assert(36u64 < 64 && p == 1u64 << 36u64); }
            else if p == 1u64 << 37u64 { assert(37u64 < 64 && p == 1u64 << 37u64); }
            else if p == 1u64 << 38u64 { assert(38u64 < 64 && p == 1u64 << 38u64); }
            else if p == 1u64 << 39u64 { assert(39u64 < 64 && p == 1u64 << 39u64); }
            else if p == 1u64 << 40u64 { assert(40u64 < 64 && p == 1u64 << 40u64); }
            else if p == 1u64 << 41u64 { assert(41u64 < 64 && p == 1u64 << 41u64); }
            else if p == 1u64 << 42u64 { assert(42u64 < 64 && p == 1u64 << 42u64); }
            else if p == 1u64 << 43u64 { assert(43u64 < 64 && p == 1u64 << 43u64); }
            else if p == 1u64 << 44u64 { assert(44u64 < 64 && p == 1u64 << 44u64); }
            else if p == 1u64 << 45u64 { assert(45u64 < 64 && p == 1u64 << 45u64); }
            else if p == 1u64 << 46u64 { assert(46u64 < 64 && p == 1u64 << 46u64); }
            else if p == 1u64 << 47u64 { assert(47u64 < 64 && p == 1u64 << 47u64); }
            else if p == 1u64 << 48u64 { assert(48u64 < 64 && p == 1u64 << 48u64); }
            else if p == 1u64 << 49u64 { assert(49u64 < 64 && p == 1u64 << 49u64); }
            else if p == 1u64 << 50u64 { assert(50u64 < 64 && p == 1u64 << 50u64); }
            else if p == 1u64 << 51u64 { assert(51u64 < 64 && p == 1u64 << 51u64); }
            else if p == 1u64 << 52u64 { assert(52u64 < 64 && p == 1u64 << 52u64); }
            else if p == 1u64 << 53u64 { assert(53u64 < 64 && p == 1u64 << 53u64); }
            else if p == 1u64 << 54u64 { assert(54u64 < 64 && p == 1u64 << 54u64); }
            else if p == 1u64 << 55u64 { assert(55u64 < 64 && p == 1u64 << 55u64); }
            else if p == 1u64 << 56u64 { assert(56u64 < 64 && p == 1u64 << 56u64); }
            else if p == 1u64 << 57u64 { assert(57u64 < 64 && p == 1u64 << 57u64); }
            else if p == 1u64 << 58u64 { assert(58u64 < 64 && p == 1u64 << 58u64); }
            else if p == 1u64 << 59u64 { assert(59u64 < 64 && p == 1u64 << 59u64); }
            else if p == 1u64 << 60u64 { assert(60u64 < 64 && p == 1u64 << 60u64); }
            else if p == 1u64 << 61u64 { assert(61u64 < 64 && p == 1u64 << 61u64); }
            else if p == 1u64 << 62u64 { assert(62u64 < 64 && p == 1u64 << 62u64); }
            else { assert(63u64 < 64 && p == 1u64 << 63u64); }
        }
    }
    j
}



pub open spec fn hb(d: u64) -> u64
    decreases d
{
    if d == 0 { 0 } else if d & sub(d, 1) == 0 { d } else {
        if (d & sub(d, 1)) < d { hb(d & sub(d, 1)) } else { 0 }
    }
}
pub open spec fn lmax(s: u64) -> u64 {
    if s >= 0x1_0000_0000 { 0x1_0000_0000 } else if s >= 65536 { 65536 } else if s >= 256 { 256 }
    else if s >= 16 { 16 } else if s >= 4 { 4 } else if s >= 2 { 2 } else { 1 }
}
pub open spec fn past_c(x: u64, s: u64, p: u64) -> bool {
    pow2(p) && s & p != 0 && x == above(s, p) && x != 0
}
pub open spec fn in_past(x: u64, s: u64) -> bool {
    (x == lmax(s) && x != s) || (x == hb(s) && x != s) || (exists|p: u64| past_c(x, s, p))
}
pub proof fn lemma_hb(d: u64)
    requires d != 0
    ensures pow2(hb(d)), d & hb(d) != 0, above(d, hb(d)) == 0, hb(d) <= d
    decreases d
{
    let e = d & sub(d, 1);
    if e == 0 {
        assert(hb(d) == d);
        assert(d & d != 0 && (d & !(sub(d, 1) | d)) == 0) by(bit_vector) requires d != 0;
    } else {
        assert(e < d && e != 0) by(bit_vector) requires e == d & sub(d, 1), e != 0;
        lemma_hb(e);
        let p = hb(e);
        assert(hb(d) == p);
        assert(d & p != 0 && (d & !(sub(p, 1) | p)) == 0 && p <= d) by(bit_vector)
            requires e == d & sub(d, 1), e != 0, p != 0, p & sub(p, 1) == 0, e & p != 0,
                     (e & !(sub(p, 1) | p)) == 0, p <= e;
    }
}
// hb(s) is the power of two the code computes as 1 << (63 - leading_zeros(s))
pub proof fn lemma_hb_log2(s: u64)
    requires s >= 1
    ensures u64_leading_zeros(s) <= 63, hb(s) == 1u64 << ((63 - u64_leading_zeros(s)) as u64)
{
    lemma_hb(s);
    let p = hb(s);
    let j = lemma_pow2_index(p);
    lemma_lz_pow2(s, j);
    let l = (63 - u64_leading_zeros(s)) as u64;
    lemma_lz_pow2(s, l);
    assert((1u64 << l) <= s);
    if j < l {
        assert(s < (1u64 << l)) by(bit_vector)
            requires p == 1u64 << j, j < l, l < 64u64, (s & !(sub(p, 1) | p)) == 0;
    }
    assert(j == l);
}

proof fn lemma_sk_const()
    ensures forall|i: int| 0 <= i < 7 ==> #[trigger] MARKER_VERSION_SKIPLIST[i] == sk(i)
{
    assert(MARKER_VERSION_SKIPLIST[0] == 1 && MARKER_VERSION_SKIPLIST[1] == 2 && MARKER_VERSION_SKIPLIST[2] == 4
        && MARKER_VERSION_SKIPLIST[3] == 16 && MARKER_VERSION_SKIPLIST[4] == 256 && MARKER_VERSION_SKIPLIST[5] == 65536
        && MARKER_VERSION_SKIPLIST[6] == 0x1_0000_0000) by(compute_only);
}

pub open spec fn contains_all(v: Seq<u64>, w: Seq<u64>) -> bool { forall|x: u64| #[trigger] v.contains(x) ==> w.contains(x) }

// ---- L1 -----------------------------------------------------------------------------------
// L1 (history vs history): any accepted history for latest n shows absent a version that any accepted
// history for latest m > n (range [sp, m]) must show present.
// alarm: C08, C07
pub proof fn lemma_l1(n: u64, m: u64, sp: u64, e: u64)
    requires 1 <= n, n < m, m <= e, 1 <= sp, sp <= m
    ensures exists|x: u64| #[trigger] in_fut(x, n, e) && ((sp <= x && x <= m) || in_past(x, sp))
{
    if sp <= n {
        // witness n + 1
        let x = add(n, 1);
        let p = !n & x;   // lowest zero bit of n
        assert(x == n + 1 && pow2(p) && n & p == 0 && x == (n | p) & !sub(p, 1)
               && (p > n ==> pow2(x))) by(bit_vector)
            requires n < 0xffff_ffff_ffff_ffffu64, x == add(n, 1), p == !n & x;
        if p <= n {
            assert(fut_a(x, n, p));
        } else {
            // n is all ones: n + 1 is a power of two, either below kmin(n) or equal to it
            assert(pow2(x));
            if kmin(n) != 0 && kmin(n) <= e && x >= kmin(n) {
                assert(x == kmin(n));
                assert(is_sk(x));
            }
        }
        assert(in_fut(x, n, e));
        assert(sp <= x && x <= m);
    } else {
        // n < sp: p = highest bit in which they differ
        let d = n ^ sp;
        assert(d != 0) by(bit_vector) requires d == n ^ sp, n < sp;
        lemma_hb(d);
        let p = hb(d);
        assert(sp & p != 0 && n & p == 0 && above(n, p) == above(sp, p)) by(bit_vector)
            requires d == n ^ sp, n < sp, p != 0, p & sub(p, 1) == 0, d & p != 0,
                     (d & !(sub(p, 1) | p)) == 0;
        if p <= n {
            // round n up at its zero bit p: lands on sp with the bits below p cleared
            let x = (n | p) & !sub(p, 1);
            assert(fut_a(x, n, p));
            assert(x == sp & !sub(p, 1) && n < x && x <= sp) by(bit_vector)
                requires x == (n | p) & !sub(p, 1), p != 0, p & sub(p, 1) == 0, sp & p != 0,
                         n & p == 0, (n & !(sub(p, 1) | p)) == (sp & !(sub(p, 1) | p));
            assert(in_fut(x, n, e));
            let low = sp & sub(p, 1);
            if low == 0 {
                assert(x == sp) by(bit_vector) requires x == sp & !sub(p, 1), low == sp & sub(p, 1), low == 0;
            } else {
                lemma_hb(low);
                let q = hb(low);
                assert(sp & q != 0 && above(sp, q) == x && x != 0) by(bit_vector)
                    requires x == sp & !sub(p, 1), low == sp & sub(p, 1), p != 0, p & sub(p, 1) == 0,
                             sp & p != 0, q != 0, q & sub(q, 1) == 0, low & q != 0,
                             (low & !(sub(q, 1) | q)) == 0;
                assert(past_c(x, sp, q));
                assert(in_past(x, sp));
            }
        } else {
            // sp has more bits than n: p is the top bit of sp
            assert(above(sp, p) == 0 && p <= sp) by(bit_vector)
                requires p > n, p != 0, p & sub(p, 1) == 0, sp & p != 0,
                         (n & !(sub(p, 1) | p)) == (sp & !(sub(p, 1) | p));
            lemma_hb(sp);
            let h = hb(sp);
            assert(h == p) by(bit_vector)
                requires p != 0, p & sub(p, 1) == 0, sp & p != 0, (sp & !(sub(p, 1) | p)) == 0,
                         h != 0, h & sub(h, 1) == 0, sp & h != 0,
                         (sp & !(sub(h, 1) | h)) == 0;
            let k = kmin(n);
            if k != 0 && k <= e && p >= k {
                let x = lmax(sp);
                assert(is_sk(x) && n < x && x <= sp);
                assert(in_fut(x, n, e));
                if x != sp { assert(in_past(x, sp)); }
            } else {
                let x = p;
                assert(in_fut(x, n, e));
                if x != sp { assert(in_past(x, sp)); }
            }
        }
    }
}


// the successor of n is always a future marker of n (while it fits under the epoch) ...
pub proof fn lemma_next_is_future_marker(n: u64, e: u64)
    requires 1 <= n, n < e
    ensures in_fut(add(n, 1), n, e)
{
    let x = add(n, 1);
    let p = !n & x;   // lowest zero bit of n
    assert(x == n + 1 && pow2(p) && n & p == 0 && x == (n | p) & !sub(p, 1) && (p > n ==> pow2(x))) by(bit_vector)
        requires n < 0xffff_ffff_ffff_ffffu64, x == add(n, 1), p == !n & x;
    if p <= n {
        assert(fut_a(x, n, p));
    } else {
        assert(pow2(x));
        if kmin(n) != 0 && kmin(n) <= e && x >= kmin(n) {
            assert(x == kmin(n));
            assert(is_sk(x));
        }
    }
}
// ... hence, against an honestly maintained tree (fresh leaves exactly for the versions 1..=n of the label), a history that shows its latest
// version m present and every future marker of (m, E) absent can only have m == n: the newest entries cannot be dropped (C07), and two
// accepted histories agree on the latest version (C08)
// alarm: C07, C08
pub proof fn lemma_history_pins_latest(m: u64, n: u64, e: u64)
    requires
        1 <= m <= e, 1 <= n <= e,
        m <= n,                                                         // fresh(m) is shown present
        forall|x: u64| in_fut(x, m, e) ==> !(1 <= x <= n),              // every future marker of (m, E) is shown absent
    ensures m == n
{
    if m < n {
        lemma_next_is_future_marker(m, e);
        assert(in_fut(add(m, 1), m, e));
    }
}
