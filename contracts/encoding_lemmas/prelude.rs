// ---- C18: injectivity of the byte encodings whose shape the Kani harnesses c18_* establish on the real code.
// be64(v): the 8 big-endian bytes of v (u64::to_be_bytes)
pub open spec fn be64(v: u64) -> Seq<u8> {
    seq![(v >> 56) as u8, (v >> 48) as u8, (v >> 40) as u8, (v >> 32) as u8, (v >> 24) as u8, (v >> 16) as u8, (v >> 8) as u8, v as u8]
}
pub proof fn lemma_be64_inj(a: u64, b: u64)
    requires be64(a) == be64(b)
    ensures a == b
{
    assert(be64(a)[0] == be64(b)[0] && be64(a)[1] == be64(b)[1] && be64(a)[2] == be64(b)[2] && be64(a)[3] == be64(b)[3]
        && be64(a)[4] == be64(b)[4] && be64(a)[5] == be64(b)[5] && be64(a)[6] == be64(b)[6] && be64(a)[7] == be64(b)[7]);
    assert(((a >> 56) as u8 == (b >> 56) as u8 && (a >> 48) as u8 == (b >> 48) as u8 && (a >> 40) as u8 == (b >> 40) as u8
        && (a >> 32) as u8 == (b >> 32) as u8 && (a >> 24) as u8 == (b >> 24) as u8 && (a >> 16) as u8 == (b >> 16) as u8
        && (a >> 8) as u8 == (b >> 8) as u8 && a as u8 == b as u8) ==> a == b) by(bit_vector);
}
// the VRF input pre-image of (label, freshness, version): be64(|l|) || l || [f] || be64(v)
pub open spec fn enc(l: Seq<u8>, f: u8, v: u64) -> Seq<u8> {
    be64(l.len() as u64) + l + seq![f] + be64(v)
}
// L-INJ: the encoding determines (label, freshness, version) - two different triples never share a VRF input pre-image
// alarm: C18
pub proof fn lemma_enc_inj(l1: Seq<u8>, f1: u8, v1: u64, l2: Seq<u8>, f2: u8, v2: u64)
    requires enc(l1, f1, v1) == enc(l2, f2, v2), l1.len() <= u64::MAX, l2.len() <= u64::MAX
    ensures l1 == l2, f1 == f2, v1 == v2
{
    let e1 = enc(l1, f1, v1);
    let e2 = enc(l2, f2, v2);
    assert(e1.len() == 8 + l1.len() + 1 + 8 && e2.len() == 8 + l2.len() + 1 + 8);
    assert(l1.len() == l2.len());
    let n = l1.len() as int;
    assert forall|i: int| 0 <= i < n implies l1[i] == l2[i] by {
        assert(e1[8 + i] == l1[i]);
        assert(e2[8 + i] == l2[i]);
    }
    assert(l1 =~= l2);
    assert(e1[8 + n] == f1 && e2[8 + n] == f2);
    assert forall|k: int| 0 <= k < 8 implies be64(v1)[k] == be64(v2)[k] by {
        assert(e1[8 + n + 1 + k] == be64(v1)[k]);
        assert(e2[8 + n + 1 + k] == be64(v2)[k]);
    }
    assert(be64(v1) =~= be64(v2));
    lemma_be64_inj(v1, v2);
}
// leaf hash pre-image c || be64(e) determines (commitment, epoch)
// alarm: C18
pub proof fn lemma_leaf_commit_inj(c1: Seq<u8>, e1: u64, c2: Seq<u8>, e2: u64)
    requires c1.len() == 32, c2.len() == 32, c1 + be64(e1) == c2 + be64(e2)
    ensures c1 == c2, e1 == e2
{
    let a = c1 + be64(e1);
    let b = c2 + be64(e2);
    assert forall|i: int| 0 <= i < 32 implies c1[i] == c2[i] by { assert(a[i] == c1[i]); assert(b[i] == c2[i]); }
    assert(c1 =~= c2);
    assert forall|k: int| 0 <= k < 8 implies be64(e1)[k] == be64(e2)[k] by { assert(a[32 + k] == be64(e1)[k]); assert(b[32 + k] == be64(e2)[k]); }
    assert(be64(e1) =~= be64(e2));
    lemma_be64_inj(e1, e2);
}
