// ---- manager unit: the storage manager seen by ONE sequential call (T6). The struct is a MODEL of
// akd/src/storage/manager/mod.rs::StorageManager: same field names; `Arc<Db>` is replaced by an opaque handle whose
// inherent async methods stand for the `Database` trait methods (async fns in traits are outside Verus' subset),
// `TimedCache` and `Transaction` are opaque with stubbed methods. Everything behind them is assumed (T4).
use vstd::future::FutureAdditionalSpecFns;
pub trait Database {}

#[verifier::external_body]
pub struct TimedCache { _p: u8 }
impl TimedCache {
    #[verifier::external_body] pub fn enable_clean(&self) {}
    // C16 (ordering contract): a record may enter the cache only if the database holds it - it was returned by a database read or
    // accepted by a database write (knowledge token db_has, which can only be learnt from those postconditions)
    #[verifier::external_body] pub async fn batch_put(&self, records: &[DbRecord])
        requires cache_fill_permitted(), forall|i: int| 0 <= i < records@.len() ==> db_has(#[trigger] records@[i])
    {}
    #[verifier::external_body] pub async fn put(&self, record: &DbRecord)
        requires cache_fill_permitted(), db_has(*record)
    {}
}

// frame of the cache: only the entry points that are MEANT to fill it hold this permission (their callers grant it by calling them);
// get_direct - "ignoring any caching" - does not, so it cannot touch the cache (C13: the change poller reads the epoch record through
// get_direct precisely so that the instance's cached view does not move before the flush)
pub uninterp spec fn cache_fill_permitted() -> bool;
// "the database returned this record from a read, or accepted it in a write"
pub uninterp spec fn db_has(rec: DbRecord) -> bool;

// global write permission (frame conditions are phrased as: "every record set handed to a write path was permitted")
pub uninterp spec fn write_allowed(recs: Seq<DbRecord>) -> bool;

// "the database write of the committing transaction's records has returned, or no such write will be attempted" (knowledge of ONE commit)
pub uninterp spec fn write_attempt_over() -> bool;
// the two ways a commit ends without attempting a write: nothing to write, or a log that does not end with the epoch record
#[verifier::external_body]
pub proof fn grant_no_write_attempt(records: Seq<DbRecord>)
    requires records.len() == 0 || !(records.last() is Azks)
    ensures write_attempt_over()
{}
#[verifier::external_body]
pub struct Transaction { _p: u8 }
impl Transaction {
    pub uninterp spec fn spec_active(&self) -> bool;
    // the pending records as commit_transaction drains them (sorted by transaction_priority: assumed)
    pub uninterp spec fn spec_log(&self) -> Seq<DbRecord>;
    pub uninterp spec fn spec_user_state(&self, username: Seq<u8>, flag: ValueStateRetrievalFlag) -> Option<ValueState>;

    #[verifier::external_body]
    pub fn is_transaction_active(&self) -> (r: bool) ensures r == self.spec_active() { unimplemented!() }
    // commit = take the records + end the transaction AT ONCE: only legitimate once no write of those records is still to come
    // (C12: a transaction that begins while a commit write is in flight reads the state from before that commit and overwrites it)
    #[verifier::external_body]
    pub fn commit_transaction(&self) -> (r: Result<Vec<DbRecord>, StorageError>)
        requires write_attempt_over()
        ensures r is Ok ==> r->Ok_0@ == self.spec_log()
    { unimplemented!() }
    // first half of a commit: the pending records in commit order; the transaction stays active
    #[verifier::external_body]
    pub fn take_records_for_commit(&self) -> (r: Result<Vec<DbRecord>, StorageError>)
        ensures r is Ok ==> r->Ok_0@ == self.spec_log()
    { unimplemented!() }
    // second half: another transaction may begin from here on - permitted only once the write of the records has returned
    // (accepted or rejected) or it is certain that none will be attempted
    #[verifier::external_body]
    pub fn end_transaction(&self)
        requires write_attempt_over()
    { unimplemented!() }
    #[verifier::external_body]
    pub fn get_user_state(&self, username: &AkdLabel, flag: ValueStateRetrievalFlag) -> (r: Option<ValueState>)
        ensures r == self.spec_user_state(username.0@, flag)
    { unimplemented!() }
    #[verifier::external_body]
    pub fn batch_set(&self, records: &Vec<DbRecord>)
        requires write_allowed(records@)
    { unimplemented!() }
    #[verifier::external_body]
    pub fn set(&self, record: &DbRecord)
        requires write_allowed(seq![*record])
    { unimplemented!() }
}

#[verifier::external_body]
#[verifier::reject_recursive_types(Db)]
pub struct DbHandle<Db: Database> { _p: core::marker::PhantomData<Db> }
impl<Db: Database> DbHandle<Db> {
    pub uninterp spec fn spec_user_state(&self, username: Seq<u8>, flag: ValueStateRetrievalFlag) -> Result<ValueState, StorageError>;
    pub uninterp spec fn spec_user_data(&self, username: Seq<u8>) -> Result<KeyData, StorageError>;
    pub uninterp spec fn db_written(&self, recs: Seq<DbRecord>) -> bool;

    // C11/C15: a transaction commit hands the database a non-empty batch whose LAST record is the epoch record
    #[verifier::external_body]
    pub async fn batch_set(&self, records: Vec<DbRecord>, state: DbSetState) -> (r: Result<(), StorageError>)
        requires state is TransactionCommit ==> records@.len() > 0 && records@.last() is Azks,
                 state is General ==> write_allowed(records@),
        ensures r is Ok ==> self.db_written(records@) && forall|i: int| 0 <= i < records@.len() ==> db_has(#[trigger] records@[i]),
                state is TransactionCommit ==> write_attempt_over(),
    { unimplemented!() }
    #[verifier::external_body]
    pub async fn set(&self, record: DbRecord) -> (r: Result<(), StorageError>)
        requires write_allowed(seq![record])
        ensures r is Ok ==> db_has(record)
    { unimplemented!() }
    #[verifier::external_body]
    pub async fn get_user_state(&self, username: &AkdLabel, flag: ValueStateRetrievalFlag) -> (r: Result<ValueState, StorageError>)
        ensures r == self.spec_user_state(username.0@, flag), r is Ok ==> db_has(DbRecord::ValueState(r->Ok_0))
    { unimplemented!() }
    #[verifier::external_body]
    pub async fn get_user_data(&self, username: &AkdLabel) -> (r: Result<KeyData, StorageError>)
        ensures r == self.spec_user_data(username.0@)
    { unimplemented!() }
}

#[verifier::reject_recursive_types(Db)]
pub struct StorageManager<Db: Database> {
    pub cache: Option<TimedCache>,
    pub transaction: Transaction,
    pub db: DbHandle<Db>,
}

// ---- identity of the shared parts (C12 / C10 / C15: a clone of a storage manager is a second HANDLE on the same cache, the same
// pending transaction and the same database - Arc-shared state behind each part; `new` gives a fresh identity, `clone` the same one)
pub uninterp spec fn part_id<T>(t: &T) -> int;
impl Clone for Transaction {
    #[verifier::external_body]
    fn clone(&self) -> (r: Self) ensures part_id(&r) == part_id(self) { unimplemented!() }
}
impl Transaction {
    // a NEW transaction log: shares nothing with any existing one
    #[verifier::external_body]
    pub fn new() -> (r: Self) { unimplemented!() }
}
impl Clone for TimedCache {
    #[verifier::external_body]
    fn clone(&self) -> (r: Self) ensures part_id(&r) == part_id(self) { unimplemented!() }
}
impl<Db: Database> Clone for DbHandle<Db> {
    #[verifier::external_body]
    fn clone(&self) -> (r: Self) ensures part_id(&r) == part_id(self) { unimplemented!() }
}
pub open spec fn same_manager<Db: Database>(a: &StorageManager<Db>, b: &StorageManager<Db>) -> bool {
    &&& part_id(&a.transaction) == part_id(&b.transaction)
    &&& part_id(&a.db) == part_id(&b.db)
    &&& (a.cache is Some <==> b.cache is Some)
    &&& (a.cache is Some ==> part_id(&a.cache->Some_0) == part_id(&b.cache->Some_0))
}

pub mod storage { pub use super::DbSetState; }

// ---- C15: which of (database answer, pending answer) a user-state query must return so that a read inside a transaction
// equals the same read after commit (pending records override committed ones of the same (user, epoch) key)
pub open spec fn txn_wins(t: ValueState, db_epoch: u64, flag: ValueStateRetrievalFlag) -> bool {
    match flag {
        ValueStateRetrievalFlag::SpecificVersion(_) => true,
        ValueStateRetrievalFlag::SpecificEpoch(_) => true,
        ValueStateRetrievalFlag::LeqEpoch(_) => t.epoch >= db_epoch,
        ValueStateRetrievalFlag::MaxEpoch => t.epoch >= db_epoch,
        ValueStateRetrievalFlag::MinEpoch => t.epoch <= db_epoch,
    }
}
pub open spec fn merged_ok(r: Result<ValueState, StorageError>, db: Result<ValueState, StorageError>, t: Option<ValueState>, flag: ValueStateRetrievalFlag) -> bool {
    match db {
        Ok(d) => match t {
            Some(tv) => if txn_wins(tv, d.epoch, flag) { r == Ok::<ValueState, StorageError>(tv) } else { r == Ok::<ValueState, StorageError>(d) },
            None => r == Ok::<ValueState, StorageError>(d),
        },
        Err(e) => if e is NotFound {
            match t { Some(tv) => r == Ok::<ValueState, StorageError>(tv), None => r is Err && r->Err_0 is NotFound }
        } else { r == Err::<ValueState, StorageError>(e) },
    }
}

// ---- C20: the only records tombstoning may write
pub open spec fn is_tombstone_of(rec: DbRecord, olds: Seq<ValueState>, cutoff: u64) -> bool {
    rec is ValueState && rec->ValueState_0.value.0@.len() == 0
    && exists|i: int| 0 <= i < olds.len() && (#[trigger] olds[i]).epoch == rec->ValueState_0.epoch && olds[i].epoch <= cutoff
        && olds[i].version == rec->ValueState_0.version && olds[i].label == rec->ValueState_0.label
        && olds[i].username == rec->ValueState_0.username
}
pub open spec fn all_tombstones(recs: Seq<DbRecord>, olds: Seq<ValueState>, cutoff: u64) -> bool {
    forall|k: int| 0 <= k < recs.len() ==> is_tombstone_of(#[trigger] recs[k], olds, cutoff)
}
// typed view (drives type inference for `let mut new_data = vec![]`)
pub open spec fn drecs(v: Vec<DbRecord>) -> Seq<DbRecord> { v@ }

// ---- bulk versions query (C15)
pub use std::collections::HashMap;
use vstd::std_specs::hash::*;
#[verifier::external_body]
pub broadcast proof fn axiom_label_key_model()
    ensures #[trigger] obeys_key_model::<AkdLabel>()
{}
// R-MAPITER target: removes and returns an ARBITRARY entry (models every iteration order of HashMap::into_iter)
#[verifier::external_body]
pub fn vx_pop_any<K: core::hash::Hash + Eq, V>(m: &mut HashMap<K, V>) -> (r: Option<(K, V)>)
    ensures
        match r {
            Some((k, v)) => old(m)@.contains_key(k) && old(m)@[k] == v && final(m)@ == old(m)@.remove(k),
            None => old(m)@.dom() =~= Set::empty() && final(m)@ == old(m)@,
        }
{ unimplemented!() }

impl<Db: Database> DbHandle<Db> {
    // the database's bulk answer: (version, value) of the state the single query returns, for the users that have one
    #[verifier::external_body]
    pub async fn get_user_state_versions(&self, usernames: &[AkdLabel], flag: ValueStateRetrievalFlag) -> (r: Result<HashMap<AkdLabel, (u64, AkdValue)>, StorageError>)
        ensures r is Ok ==> forall|l: AkdLabel| #![trigger r->Ok_0@.contains_key(l)]
            (r->Ok_0@.contains_key(l) <==> usernames@.contains(l) && self.spec_user_state(l.0@, flag) is Ok)
            && (r->Ok_0@.contains_key(l) ==> r->Ok_0@[l] == (self.spec_user_state(l.0@, flag)->Ok_0.version, self.spec_user_state(l.0@, flag)->Ok_0.value))
    { unimplemented!() }
}
impl Transaction {
    #[verifier::external_body]
    pub fn get_users_states(&self, usernames: &[AkdLabel], flag: ValueStateRetrievalFlag) -> (r: HashMap<AkdLabel, ValueState>)
        ensures forall|l: AkdLabel| #![trigger r@.contains_key(l)]
            (r@.contains_key(l) <==> usernames@.contains(l) && self.spec_user_state(l.0@, flag) is Some)
            && (r@.contains_key(l) ==> r@[l] == self.spec_user_state(l.0@, flag)->Some_0)
    { unimplemented!() }
}
// what the bulk query must answer for one user inside/outside a transaction (same rule as the single query)
pub open spec fn bulk_entry_ok(entry: (u64, AkdValue), d: Result<ValueState, StorageError>, t: Option<ValueState>, flag: ValueStateRetrievalFlag) -> bool {
    match d {
        Ok(dv) => match t {
            Some(tv) => if txn_wins(tv, dv.epoch, flag) { entry == (tv.version, tv.value) } else { entry == (dv.version, dv.value) },
            None => entry == (dv.version, dv.value),
        },
        Err(_) => match t { Some(tv) => entry == (tv.version, tv.value), None => false },
    }
}
// well-formed data (from the property): per user, versions increase with epochs; rewriting a (user, epoch) record keeps its version
pub open spec fn wf_pair(d: ValueState, t: ValueState) -> bool {
    (d.epoch < t.epoch ==> d.version < t.version) && (d.epoch == t.epoch ==> d.version == t.version) && (d.epoch > t.epoch ==> d.version > t.version)
}

// ---- single / batched record gets (C15: reads consult the transaction log first)
pub trait Storable { type StorageKey: Clone + core::hash::Hash + Eq; }
impl Transaction {
    pub uninterp spec fn spec_get<St: Storable>(&self, id: St::StorageKey) -> Option<DbRecord>;
    #[verifier::external_body]
    pub fn get<St: Storable>(&self, id: &St::StorageKey) -> (r: Option<DbRecord>)
        ensures r == self.spec_get::<St>(*id)
    { unimplemented!() }
}
impl TimedCache {
    pub uninterp spec fn spec_hit<St: Storable>(&self, id: St::StorageKey) -> Option<DbRecord>;
    #[verifier::external_body]
    pub async fn hit_test<St: Storable>(&self, id: &St::StorageKey) -> (r: Option<DbRecord>)
        ensures r == self.spec_hit::<St>(*id)
    { unimplemented!() }
}
impl<Db: Database> DbHandle<Db> {
    pub uninterp spec fn spec_get<St: Storable>(&self, id: St::StorageKey) -> Result<DbRecord, StorageError>;
    #[verifier::external_body]
    pub async fn get<St: Storable>(&self, id: &St::StorageKey) -> (r: Result<DbRecord, StorageError>)
        ensures r == self.spec_get::<St>(*id), r is Ok ==> db_has(r->Ok_0)
    { unimplemented!() }
}
// the record a read of `id` must return: the pending record if the open transaction has one, else a cache hit, else the database's
pub open spec fn read_of<Db: Database, St: Storable>(m: &StorageManager<Db>, id: St::StorageKey) -> Result<DbRecord, StorageError> {
    if m.transaction.spec_active() && m.transaction.spec_get::<St>(id) is Some { Ok(m.transaction.spec_get::<St>(id)->Some_0) }
    else if m.cache is Some && m.cache->Some_0.spec_hit::<St>(id) is Some { Ok(m.cache->Some_0.spec_hit::<St>(id)->Some_0) }
    else { m.db.spec_get::<St>(id) }
}

// R-COLLECT targets (trusted): contents as sets
pub use std::collections::HashSet;
#[verifier::external_body]
pub fn vx_collect_set<K: Clone + core::hash::Hash + Eq>(xs: &[K]) -> (r: HashSet<K>)
    ensures forall|k: K| #![trigger r@.contains(k)] r@.contains(k) <==> xs@.contains(k)
{ unimplemented!() }
#[verifier::external_body]
pub fn vx_set_into_vec<K: core::hash::Hash + Eq>(s: HashSet<K>) -> (r: Vec<K>)
    ensures forall|k: K| #![trigger r@.contains(k)] r@.contains(k) <==> s@.contains(k)
{ unimplemented!() }
impl<Db: Database> DbHandle<Db> {
    // the database's batched answer: exactly the records of the keys that exist
    pub uninterp spec fn spec_batch_get<St: Storable>(&self, ids: Seq<St::StorageKey>) -> Result<Seq<DbRecord>, StorageError>;
    #[verifier::external_body]
    pub async fn batch_get<St: Storable>(&self, ids: &[St::StorageKey]) -> (r: Result<Vec<DbRecord>, StorageError>)
        ensures match r { Ok(v) => self.spec_batch_get::<St>(ids@) == Ok::<Seq<DbRecord>, StorageError>(v@), Err(e) => self.spec_batch_get::<St>(ids@) == Err::<Seq<DbRecord>, StorageError>(e) },
                r is Ok ==> forall|i: int| 0 <= i < r->Ok_0@.len() ==> db_has(#[trigger] r->Ok_0@[i])
    { unimplemented!() }
}
// provenance of one record returned by a batched get for the key list `ids` (C15: pending records win; a cache hit only for keys without a pending record;
// the database is asked only for keys with neither)
pub open spec fn from_pending<Db: Database, St: Storable>(m: &StorageManager<Db>, ids: Seq<St::StorageKey>, rec: DbRecord) -> bool {
    exists|i: int| 0 <= i < ids.len() && m.transaction.spec_active() && #[trigger] m.transaction.spec_get::<St>(ids[i]) == Some(rec)
}
pub open spec fn from_cache<Db: Database, St: Storable>(m: &StorageManager<Db>, ids: Seq<St::StorageKey>, rec: DbRecord) -> bool {
    exists|i: int| 0 <= i < ids.len() && !(m.transaction.spec_active() && m.transaction.spec_get::<St>(ids[i]) is Some)
        && m.cache is Some && #[trigger] m.cache->Some_0.spec_hit::<St>(ids[i]) == Some(rec)
}
pub open spec fn needs_db<Db: Database, St: Storable>(m: &StorageManager<Db>, id: St::StorageKey) -> bool {
    !(m.transaction.spec_active() && m.transaction.spec_get::<St>(id) is Some) && !(m.cache is Some && m.cache->Some_0.spec_hit::<St>(id) is Some)
}

// ---- L-MERGE (C15): the pending-wins rule of the manager equals the same query on the merged data (database overridden by the pending
// records of the same (user, epoch) key), i.e. what the query returns once the transaction is committed.
pub open spec fn q_matches(y: ValueState, flag: ValueStateRetrievalFlag) -> bool {
    match flag {
        ValueStateRetrievalFlag::SpecificVersion(v) => y.version == v,
        ValueStateRetrievalFlag::SpecificEpoch(e) => y.epoch == e,
        ValueStateRetrievalFlag::LeqEpoch(e) => y.epoch <= e,
        ValueStateRetrievalFlag::MaxEpoch => true,
        ValueStateRetrievalFlag::MinEpoch => true,
    }
}
pub open spec fn q_pref(x: ValueState, y: ValueState, flag: ValueStateRetrievalFlag) -> bool {
    match flag {
        ValueStateRetrievalFlag::SpecificVersion(_) => x.epoch == y.epoch,
        ValueStateRetrievalFlag::SpecificEpoch(_) => true,
        ValueStateRetrievalFlag::LeqEpoch(_) => x.epoch >= y.epoch,
        ValueStateRetrievalFlag::MaxEpoch => x.epoch >= y.epoch,
        ValueStateRetrievalFlag::MinEpoch => x.epoch <= y.epoch,
    }
}
// r answers `flag` over the states of one user in `xs` (one state per epoch)
pub open spec fn is_query(xs: spec_fn(ValueState) -> bool, flag: ValueStateRetrievalFlag, r: Option<ValueState>) -> bool {
    match r {
        Some(x) => xs(x) && q_matches(x, flag) && forall|y: ValueState| #![trigger xs(y)] xs(y) && q_matches(y, flag) ==> q_pref(x, y, flag),
        None => forall|y: ValueState| #![trigger xs(y)] xs(y) ==> !q_matches(y, flag),
    }
}
// the data after commit: pending records plus the database records whose epoch has no pending record
pub open spec fn merged(s: spec_fn(ValueState) -> bool, t: spec_fn(ValueState) -> bool) -> spec_fn(ValueState) -> bool {
    |x: ValueState| t(x) || (s(x) && forall|u: ValueState| #![trigger t(u)] t(u) ==> u.epoch != x.epoch)
}
pub open spec fn one_per_epoch(xs: spec_fn(ValueState) -> bool) -> bool {
    forall|a: ValueState, b: ValueState| #![trigger xs(a), xs(b)] xs(a) && xs(b) && a.epoch == b.epoch ==> a == b
}
pub open spec fn wf_data(s: spec_fn(ValueState) -> bool, t: spec_fn(ValueState) -> bool) -> bool {
    one_per_epoch(s) && one_per_epoch(t)
    && (forall|a: ValueState, b: ValueState| #![trigger s(a), t(b)] s(a) && t(b) ==> wf_pair(a, b))
}
pub open spec fn merge_answer(d: Option<ValueState>, t: Option<ValueState>, flag: ValueStateRetrievalFlag) -> Option<ValueState> {
    match t {
        Some(tv) => match d { Some(dv) => if txn_wins(tv, dv.epoch, flag) { Some(tv) } else { Some(dv) }, None => Some(tv) },
        None => d,
    }
}
// alarm: C15
pub proof fn lemma_merge(s: spec_fn(ValueState) -> bool, t: spec_fn(ValueState) -> bool, flag: ValueStateRetrievalFlag, d: Option<ValueState>, tv: Option<ValueState>)
    requires wf_data(s, t), is_query(s, flag, d), is_query(t, flag, tv)
    ensures is_query(merged(s, t), flag, merge_answer(d, tv, flag))
{
    let m = merged(s, t);
    let r = merge_answer(d, tv, flag);
    match r {
        None => {
            assert forall|y: ValueState| #![trigger m(y)] m(y) implies !q_matches(y, flag) by {
                if t(y) { } else { assert(s(y)); }
            }
        }
        Some(x) => {
            // x is in the merged data
            if tv is Some && x == tv->Some_0 {
                assert(t(x));
            } else {
                // the database answer survives: no pending record has its epoch
                let dv = d->Some_0;
                assert(x == dv && s(dv));
                assert forall|u: ValueState| #![trigger t(u)] t(u) implies u.epoch != dv.epoch by {
                    if u.epoch == dv.epoch {
                        assert(wf_pair(dv, u));
                        // u matches the flag whenever dv does (same epoch, same version), so the pending answer exists and would have won
                        assert(q_matches(u, flag));
                        assert(tv is Some);
                        let tq = tv->Some_0;
                        assert(q_pref(tq, u, flag));
                        assert(wf_pair(dv, tq));
                    }
                }
            }
            assert(m(x));
            assert forall|y: ValueState| #![trigger m(y)] m(y) && q_matches(y, flag) implies q_pref(x, y, flag) by {
                if t(y) {
                    let tq = tv->Some_0;
                    assert(q_pref(tq, y, flag));
                    if d is Some { assert(wf_pair(d->Some_0, tq)); assert(wf_pair(d->Some_0, y)); }
                } else {
                    assert(s(y));
                    let dv = d->Some_0;
                    assert(q_pref(dv, y, flag));
                    if tv is Some { assert(wf_pair(dv, tv->Some_0)); assert(wf_pair(y, tv->Some_0)); }
                }
            }
        }
    }
}
