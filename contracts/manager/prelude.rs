// ---- manager unit: the storage manager seen by ONE sequential call (T6). The struct is a MODEL of
// akd/src/storage/manager/mod.rs::StorageManager: same field names; `Arc<Db>` is replaced by an opaque handle whose
// inherent async methods stand for the `Database` trait methods (async fns in traits are outside Verus' subset),
// `TimedCache` and `Transaction` are opaque with stubbed methods. Everything behind them is assumed (T4).
use vstd::future::FutureAdditionalSpecFns;
pub trait Database {}

#[verifier::external_body]
pub struct TimedCache { _p: u8 }
impl TimedCache {
    #[verifier::external_body] pub fn enable_clean(&self) {}
    #[verifier::external_body] pub async fn batch_put(&self, records: &[DbRecord]) {}
    #[verifier::external_body] pub async fn put(&self, record: &DbRecord) {}
}

// global write permission (frame conditions are phrased as: "every record set handed to a write path was permitted")
pub uninterp spec fn write_allowed(recs: Seq<DbRecord>) -> bool;

#[verifier::external_body]
pub struct Transaction { _p: u8 }
impl Transaction {
    pub uninterp spec fn spec_active(&self) -> bool;
    // the pending records as commit_transaction drains them (sorted by transaction_priority: assumed)
    pub uninterp spec fn spec_log(&self) -> Seq<DbRecord>;
    pub uninterp spec fn spec_user_state(&self, username: Seq<u8>, flag: ValueStateRetrievalFlag) -> Option<ValueState>;

    #[verifier::external_body]
    pub fn is_transaction_active(&self) -> (r: bool) ensures r == self.spec_active() { unimplemented!() }
    #[verifier::external_body]
    pub fn commit_transaction(&self) -> (r: Result<Vec<DbRecord>, StorageError>)
        ensures r is Ok ==> r->Ok_0@ == self.spec_log()
    { unimplemented!() }
    #[verifier::external_body]
    pub fn get_user_state(&self, username: &AkdLabel, flag: ValueStateRetrievalFlag) -> (r: Option<ValueState>)
        ensures r == self.spec_user_state(username.0@, flag)
    { unimplemented!() }
    #[verifier::external_body]
    pub fn batch_set(&self, records: &Vec<DbRecord>)
        requires write_allowed(records@)
    { unimplemented!() }
}

#[verifier::external_body]
#[verifier::reject_recursive_types(Db)]
pub struct DbHandle<Db: Database> { _p: core::marker::PhantomData<Db> }
impl<Db: Database> DbHandle<Db> {
    pub uninterp spec fn spec_user_state(&self, username: Seq<u8>, flag: ValueStateRetrievalFlag) -> Result<ValueState, StorageError>;
    pub uninterp spec fn spec_user_data(&self, username: Seq<u8>) -> Result<KeyData, StorageError>;
    pub uninterp spec fn db_written(&self, recs: Seq<DbRecord>) -> bool;

    // C11/C15: a transaction commit hands the database a non-empty batch whose LAST record is the epoch record
    #[verifier::external_body]
    pub async fn batch_set(&self, records: Vec<DbRecord>, state: DbSetState) -> (r: Result<(), StorageError>)
        requires state is TransactionCommit ==> records@.len() > 0 && records@.last() is Azks,
                 state is General ==> write_allowed(records@),
        ensures r is Ok ==> self.db_written(records@)
    { unimplemented!() }
    #[verifier::external_body]
    pub async fn get_user_state(&self, username: &AkdLabel, flag: ValueStateRetrievalFlag) -> (r: Result<ValueState, StorageError>)
        ensures r == self.spec_user_state(username.0@, flag)
    { unimplemented!() }
    #[verifier::external_body]
    pub async fn get_user_data(&self, username: &AkdLabel) -> (r: Result<KeyData, StorageError>)
        ensures r == self.spec_user_data(username.0@)
    { unimplemented!() }
}

#[verifier::reject_recursive_types(Db)]
pub struct StorageManager<Db: Database> {
    pub cache: Option<TimedCache>,
    pub transaction: Transaction,
    pub db: DbHandle<Db>,
}

pub mod storage { pub use super::DbSetState; }

// ---- C15: which of (database answer, pending answer) a user-state query must return so that a read inside a transaction
// equals the same read after commit (pending records override committed ones of the same (user, epoch) key)
pub open spec fn txn_wins(t: ValueState, db_epoch: u64, flag: ValueStateRetrievalFlag) -> bool {
    match flag {
        ValueStateRetrievalFlag::SpecificVersion(_) => true,
        ValueStateRetrievalFlag::SpecificEpoch(_) => true,
        ValueStateRetrievalFlag::LeqEpoch(_) => t.epoch >= db_epoch,
        ValueStateRetrievalFlag::MaxEpoch => t.epoch >= db_epoch,
        ValueStateRetrievalFlag::MinEpoch => t.epoch <= db_epoch,
    }
}
pub open spec fn merged_ok(r: Result<ValueState, StorageError>, db: Result<ValueState, StorageError>, t: Option<ValueState>, flag: ValueStateRetrievalFlag) -> bool {
    match db {
        Ok(d) => match t {
            Some(tv) => if txn_wins(tv, d.epoch, flag) { r == Ok::<ValueState, StorageError>(tv) } else { r == Ok::<ValueState, StorageError>(d) },
            None => r == Ok::<ValueState, StorageError>(d),
        },
        Err(e) => if e is NotFound {
            match t { Some(tv) => r == Ok::<ValueState, StorageError>(tv), None => r is Err && r->Err_0 is NotFound }
        } else { r == Err::<ValueState, StorageError>(e) },
    }
}

// ---- C20: the only records tombstoning may write
pub open spec fn is_tombstone_of(rec: DbRecord, olds: Seq<ValueState>, cutoff: u64) -> bool {
    rec is ValueState && rec->ValueState_0.value.0@.len() == 0
    && exists|i: int| 0 <= i < olds.len() && (#[trigger] olds[i]).epoch == rec->ValueState_0.epoch && olds[i].epoch <= cutoff
        && olds[i].version == rec->ValueState_0.version && olds[i].label == rec->ValueState_0.label
        && olds[i].username == rec->ValueState_0.username
}
pub open spec fn all_tombstones(recs: Seq<DbRecord>, olds: Seq<ValueState>, cutoff: u64) -> bool {
    forall|k: int| 0 <= k < recs.len() ==> is_tombstone_of(#[trigger] recs[k], olds, cutoff)
}
// typed view (drives type inference for `let mut new_data = vec![]`)
pub open spec fn drecs(v: Vec<DbRecord>) -> Seq<DbRecord> { v@ }
