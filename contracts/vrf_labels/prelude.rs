// ---- vrf_labels unit (C18): the node labels a publish places in the tree - VRFKeyStorage::get_node_labels (parallel_vrf branch)
use vstd::future::FutureAdditionalSpecFns;
pub trait Configuration {}
// the implementor of the VRF key storage trait (its other methods are the stubs below)
pub trait VRFKeyStorage {}
#[verifier::external_body]
pub struct VRFPrivateKey { _p: () }
#[verifier::external_body]
pub struct VRFExpandedPrivateKey { _p: () }
#[verifier::external_body]
pub struct VRFPublicKey { _p: () }
pub uninterp spec fn priv_key_of<V>(vrf: &V) -> Result<VRFPrivateKey, VrfError>;
pub uninterp spec fn exp_of(k: VRFPrivateKey) -> VRFExpandedPrivateKey;
pub uninterp spec fn pk_of(k: VRFPrivateKey) -> VRFPublicKey;
impl Clone for VRFExpandedPrivateKey { #[verifier::external_body] fn clone(&self) -> (r: Self) ensures r == *self { unimplemented!() } }
impl Clone for VRFPublicKey { #[verifier::external_body] fn clone(&self) -> (r: Self) ensures r == *self { unimplemented!() } }
impl vstd::std_specs::convert::FromSpecImpl<&VRFPrivateKey> for VRFExpandedPrivateKey {
    closed spec fn obeys_from_spec() -> bool { true }
    closed spec fn from_spec(k: &VRFPrivateKey) -> Self { exp_of(*k) }
}
impl From<&VRFPrivateKey> for VRFExpandedPrivateKey { #[verifier::external_body] fn from(k: &VRFPrivateKey) -> (r: Self) ensures r == exp_of(*k) { unimplemented!() } }
impl vstd::std_specs::convert::FromSpecImpl<&VRFPrivateKey> for VRFPublicKey {
    closed spec fn obeys_from_spec() -> bool { true }
    closed spec fn from_spec(k: &VRFPrivateKey) -> Self { pk_of(*k) }
}
impl From<&VRFPrivateKey> for VRFPublicKey { #[verifier::external_body] fn from(k: &VRFPrivateKey) -> (r: Self) ensures r == pk_of(*k) { unimplemented!() } }
// the VRF node label of (label, freshness, version) under a key pair (T4: evaluate + truncate, in ecvrf_impl.rs)
pub uninterp spec fn key_label(exp: VRFExpandedPrivateKey, pk: VRFPublicKey, label: Seq<u8>, f: VersionFreshness, version: u64) -> NodeLabel;
#[verifier::external_body]
pub async fn vx_self_get_vrf_private_key<V: VRFKeyStorage>(vx_self: &V) -> (r: Result<VRFPrivateKey, VrfError>)
    ensures r == priv_key_of(vx_self)
{ unimplemented!() }
#[verifier::external_body]
pub fn vx_self_get_node_label_with_expanded_key<TC: Configuration, V: VRFKeyStorage>(expanded_private_key: &VRFExpandedPrivateKey, pk: &VRFPublicKey, label: &AkdLabel, freshness: VersionFreshness, version: u64) -> (r: NodeLabel)
    ensures r == key_label(*expanded_private_key, *pk, label.0@, freshness, version)
{ unimplemented!() }
pub type LabelInput = (AkdLabel, VersionFreshness, u64, AkdValue);
pub open spec fn rv(v: Vec<(LabelInput, NodeLabel)>) -> Seq<(LabelInput, NodeLabel)> { v@ }

// ---- completeness of the batch call (C18 / C01: EVERY tuple of the batch gets its pair, exactly once)
// ASSUMED: the clone of a (label, freshness, version, value) tuple equals the tuple (derived / std Clone impls of its components)
#[verifier::external_body]
pub proof fn axiom_label_input_clone(a: LabelInput, b: LabelInput)
    requires vstd::pervasive::cloned::<LabelInput>(a, b)
    ensures a == b
{}
pub open spec fn label_of_tuple(key: VRFPrivateKey, t: LabelInput) -> NodeLabel { key_label(exp_of(key), pk_of(key), t.0.0@, t.1, t.2) }
pub open spec fn pair_of(key: VRFPrivateKey, t: LabelInput) -> (LabelInput, NodeLabel) { (t, label_of_tuple(key, t)) }
// the result is a rearrangement of the pairs of the batch: same length, and the pair of every tuple of the batch is in it
pub open spec fn has_pair(res: Seq<(LabelInput, NodeLabel)>, p: (LabelInput, NodeLabel)) -> bool {
    exists|k: int| 0 <= k < res.len() && #[trigger] res[k] == p
}
pub open spec fn all_paired(key: VRFPrivateKey, batch: Seq<LabelInput>, res: Seq<(LabelInput, NodeLabel)>) -> bool {
    res.len() == batch.len() && forall|j: int| 0 <= j < batch.len() ==> has_pair(res, pair_of(key, #[trigger] batch[j]))
}
// ids handed out so far (`got`, in hand-out order) and ids still pending partition 0..n
pub open spec fn partitions(got: Seq<int>, pending: Set<int>, n: int) -> bool {
    &&& got.no_duplicates()
    &&& forall|k: int| 0 <= k < got.len() ==> 0 <= #[trigger] got[k] < n
    &&& forall|id: int| #[trigger] pending.contains(id) ==> 0 <= id < n && !got.contains(id)
    &&& forall|id: int| 0 <= id < n && !got.contains(id) ==> #[trigger] pending.contains(id)
}
pub proof fn lemma_all_handed_out(got: Seq<int>, n: int)
    requires got.no_duplicates(), n >= 0, forall|k: int| 0 <= k < got.len() ==> 0 <= #[trigger] got[k] < n, forall|id: int| 0 <= id < n ==> got.contains(id)
    ensures got.len() == n
{
    assert(got.to_set() =~= vstd::set_lib::set_int_range(0, n)) by {
        assert forall|x: int| got.to_set().contains(x) <==> vstd::set_lib::set_int_range(0, n).contains(x) by {
            if got.contains(x) { let k = choose|k: int| 0 <= k < got.len() && got[k] == x; assert(0 <= got[k] < n); }
        }
    }
    got.unique_seq_to_set();
    vstd::set_lib::lemma_int_range(0, n);
}
