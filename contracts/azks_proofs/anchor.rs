// ---- the anchor of the proof walk (C05 completeness of NON-membership proofs): the node the walk stops at is the deepest stored node
// whose label is a prefix of the label asked for
// trie shape of the stored tree as read at `epoch` (maintained by the insertion; assumed here, like `consistent`): labels are canonical,
// a child extends its parent's label with the bit of its direction, named children exist, leaves are exactly the 256-bit nodes, and only
// the root may lack a child
#[verifier::opaque]
pub open spec fn shaped(st: int, epoch: u64) -> bool {
    forall|l: NodeLabel| (#[trigger] stored(st, l, epoch)) is Ok ==> {
        let n = stored(st, l, epoch)->Ok_0;
        &&& canon(n.label) && n.label == l
        &&& ((n.node_type is Leaf) <==> n.label.label_len == 256)
        &&& (l != root_label() && !(n.node_type is Leaf) ==> n.left_child is Some && n.right_child is Some)
        &&& forall|d: Direction| (#[trigger] child_in(n, d)) is Some ==> {
              let cl = child_in(n, d)->Some_0;
              &&& canon(cl) && n.label.label_len < cl.label_len && agree(n.label, cl, n.label.label_len as int)
              &&& bit(cl, n.label.label_len as int) == (d is Right)
              &&& stored(st, cl, epoch) is Ok
           }
    }
}
// what get_prefix_ordering answers (proved in unit node_label: get_prefix_ordering#E_invalid / E_one / E_zero)
pub open spec fn ord_sem(a: NodeLabel, b: NodeLabel, o: PrefixOrdering) -> bool {
    &&& ((o is Invalid) <==> !(a.label_len < b.label_len && agree(a, b, a.label_len as int)))
    &&& ((o is WithOne) ==> bit(b, a.label_len as int))
    &&& ((o is WithZero) ==> !bit(b, a.label_len as int))
}
pub open spec fn dir_of(o: PrefixOrdering) -> Direction { if o is WithOne { Direction::Right } else { Direction::Left } }
// n is the deepest stored node whose label is a prefix of `label`: it is a prefix, and - unless it is the label itself - none of its children is
#[verifier::opaque]
pub open spec fn deepest(st: int, epoch: u64, label: NodeLabel, n: TreeNode) -> bool {
    &&& pfx(n.label, label)
    &&& (n.label != label ==> forall|d: Direction| (#[trigger] child_in(n, d)) is Some ==> !pfx(child_in(n, d)->Some_0, label))
}
// prev is the parent through which the walk reached curr (or the walk has not moved yet and stands on the root)
pub open spec fn link(st: int, epoch: u64, label: NodeLabel, prev: TreeNode, curr: TreeNode) -> bool {
    (prev == curr && curr.label.label_len == 0)
    || (prev.label.label_len < label.label_len && agree(prev.label, label, prev.label.label_len as int)
        && child_in(prev, if bit(label, prev.label.label_len as int) { Direction::Right } else { Direction::Left }) == Some(curr.label))
}
// NodeLabel::root() IS the root label: length 0, all bits clear (verified on the source in unit verify_base: NodeLabel::root#E_root
// ensures is_root(r)); since the repair of D15 the verifier demands exactly this of the label at the top of the fold (mem_ok), and
// E_folds_to_root / E_anchor_folds hand it over: the fold's label component is the stored root's label == root_label()
#[verifier::external_body]
pub proof fn axiom_root_label()
    ensures root_label().label_len == 0, is_root(root_label())
{}
pub proof fn lemma_canon_of(st: int, epoch: u64, l: NodeLabel)
    requires shaped(st, epoch), stored(st, l, epoch) is Ok
    ensures canon(stored(st, l, epoch)->Ok_0.label), wf(stored(st, l, epoch)->Ok_0.label)
{
    reveal(shaped);
}
pub proof fn lemma_pfx_refl(a: NodeLabel)
    ensures pfx(a, a)
{}
// the loop ends because the label was found or the node reached does not extend towards it
pub proof fn lemma_exit_cond(st: int, epoch: u64, label: NodeLabel, prev: TreeNode, curr: TreeNode, equal: bool, o: PrefixOrdering)
    requires
        shaped(st, epoch), canon(label), label.label_len == 256,
        stored(st, prev.label, epoch) == Ok::<TreeNode, StorageError>(prev), stored(st, curr.label, epoch) == Ok::<TreeNode, StorageError>(curr),
        link(st, epoch, label, prev, curr), equal == (label == curr.label), ord_sem(curr.label, label, o),
        equal || o is Invalid,
    ensures deepest(st, epoch, label, if equal { curr } else { prev })
{
    reveal(shaped);
    reveal(deepest);
    assert(stored(st, prev.label, epoch) is Ok);
    assert(stored(st, curr.label, epoch) is Ok);
    if equal {
        lemma_pfx_refl(label);
    } else {
        if prev == curr && curr.label.label_len == 0 {
            // Invalid at a zero-length node would mean the label has length 0
            assert(false);
        } else {
            let d0 = if bit(label, prev.label.label_len as int) { Direction::Right } else { Direction::Left };
            assert(child_in(prev, d0) == Some(curr.label));
            // the child the walk went to is not a prefix of the label: it does not extend properly (Invalid) and is not the label itself
            if pfx(curr.label, label) {
                assert(curr.label.label_len == label.label_len);
                lemma_label_ext(curr.label, label);
                assert(false);
            }
            assert forall|d: Direction| (#[trigger] child_in(prev, d)) is Some implies !pfx(child_in(prev, d)->Some_0, label) by {
                let cl = child_in(prev, d)->Some_0;
                if d == d0 {
                    assert(cl == curr.label);
                } else {
                    // the other child carries the other bit at position |prev|
                    assert(bit(cl, prev.label.label_len as int) != bit(label, prev.label.label_len as int));
                    if pfx(cl, label) { assert(bit(cl, prev.label.label_len as int) == bit(label, prev.label.label_len as int)); }
                }
            }
        }
    }
}
// the loop ends because the node reached names no child in the direction of the label: only the root can be in that position
pub proof fn lemma_exit_break(st: int, epoch: u64, label: NodeLabel, prev: TreeNode, curr: TreeNode, o: PrefixOrdering)
    requires
        shaped(st, epoch), canon(label), label.label_len == 256,
        stored(st, prev.label, epoch) == Ok::<TreeNode, StorageError>(prev), stored(st, curr.label, epoch) == Ok::<TreeNode, StorageError>(curr),
        link(st, epoch, label, prev, curr), label != curr.label, ord_sem(curr.label, label, o), !(o is Invalid),
        child_of(st, child_in(curr, dir_of(o)), epoch) is None,
    ensures deepest(st, epoch, label, prev)
{
    reveal(shaped);
    reveal(deepest);
    assert(stored(st, curr.label, epoch) is Ok);
    assert(stored(st, prev.label, epoch) is Ok);
    // curr extends properly towards the label, so it is no leaf; a named child would be readable, so curr names no child there
    assert(curr.label.label_len < 256);
    assert(!(curr.node_type is Leaf));
    let dd = dir_of(o);
    if child_in(curr, dd) is Some {
        assert(stored(st, child_in(curr, dd)->Some_0, epoch) is Ok);
        assert(false);
    }
    // a non-root inner node names both children: curr is the root, and the walk has not moved
    if curr.label != root_label() { assert(false); }
    axiom_root_label();
    if !(prev == curr) {
        // prev would be a proper ancestor of the root
        let d0 = if bit(label, prev.label.label_len as int) { Direction::Right } else { Direction::Left };
        assert(child_in(prev, d0) == Some(curr.label));
        assert(prev.label.label_len < curr.label.label_len);
        assert(false);
    }
    assert forall|d: Direction| (#[trigger] child_in(prev, d)) is Some implies !pfx(child_in(prev, d)->Some_0, label) by {
        let cl = child_in(prev, d)->Some_0;
        assert(d != dd);
        assert(bit(cl, 0) == (d is Right));
        if pfx(cl, label) { assert(bit(cl, 0) == bit(label, 0)); }
    }
}
// one step down keeps the link
pub proof fn lemma_link_step(st: int, epoch: u64, label: NodeLabel, curr: TreeNode, child: TreeNode, o: PrefixOrdering)
    requires
        shaped(st, epoch), stored(st, curr.label, epoch) == Ok::<TreeNode, StorageError>(curr),
        ord_sem(curr.label, label, o), !(o is Invalid),
        child_of(st, child_in(curr, dir_of(o)), epoch) == Some(child),
    ensures link(st, epoch, label, curr, child), stored(st, child.label, epoch) == Ok::<TreeNode, StorageError>(child)
{
    reveal(shaped);
    assert(stored(st, curr.label, epoch) is Ok);
    let cl = child_in(curr, dir_of(o))->Some_0;
    assert(stored(st, cl, epoch) is Ok);
    assert(child.label == cl);
}

// the two children a non-membership proof reports for its anchor n: what the anchor's stored hash commits to
pub open spec fn reported_child<TC: Configuration>(st: int, epoch: u64, n: TreeNode, d: Direction) -> AzksElement {
    let c = child_of(st, child_in(n, d), epoch);
    AzksElement { label: child_label::<TC>(c), value: node_value::<TC>(c, NodeHashingMode::WithLeafEpoch) }
}
// what verify_nonmembership checks about the shape of a proof (nm_struct in unit verify_base), for an anchor n that is not the label itself
pub open spec fn nm_shape_ok<TC: Configuration>(label: NodeLabel, p: NonMembershipProof) -> bool {
    &&& p.label == label
    &&& pfx(p.longest_prefix, label)
    &&& forall|j: int| 0 <= j < 2 ==> !(#[trigger] p.longest_prefix_children[j].label.label_len > 0 && pfx(p.longest_prefix_children[j].label, label))
    &&& p.longest_prefix_membership_proof.label == p.longest_prefix
    &&& p.longest_prefix_membership_proof.hash_val == TC::spec_parent(
            p.longest_prefix_children[0].value, TC::spec_label_value(p.longest_prefix_children[0].label),
            p.longest_prefix_children[1].value, TC::spec_label_value(p.longest_prefix_children[1].label))
    // the two remaining checks of the verifier (common/lcp_rel.rs): label differs from both reported children; lcp(children) is the anchor
    &&& nm_extra::<TC>(p)
}
pub proof fn lemma_nm_shape<TC: Configuration>(st: int, epoch: u64, label: NodeLabel, n: TreeNode, p: NonMembershipProof)
    requires
        consistent::<TC>(st, epoch), shaped(st, epoch), TC::spec_empty_label().label_len == 0,
        stored(st, n.label, epoch) == Ok::<TreeNode, StorageError>(n), deepest(st, epoch, label, n), n.label != label, label.label_len == 256,
        p.label == label, p.longest_prefix == n.label,
        p.longest_prefix_children[0] == reported_child::<TC>(st, epoch, n, Direction::Left),
        p.longest_prefix_children[1] == reported_child::<TC>(st, epoch, n, Direction::Right),
        p.longest_prefix_membership_proof.label == n.label, p.longest_prefix_membership_proof.hash_val == nv::<TC>(n),
    ensures nm_shape_ok::<TC>(label, p)
{
    reveal(deepest);
    reveal(shaped);
    reveal(consistent);
    assert(stored(st, n.label, epoch) is Ok);
    // the anchor is a proper prefix of a 256-bit label, so it is no leaf and stores the parent hash of the two reported children
    assert(n.label.label_len < 256) by { if n.label.label_len == 256 { lemma_label_ext_pfx(n.label, label); } }
    assert(!(n.node_type is Leaf));
    assert forall|j: int| 0 <= j < 2 implies !(#[trigger] p.longest_prefix_children[j].label.label_len > 0 && pfx(p.longest_prefix_children[j].label, label)) by {
        let d = if j == 0 { Direction::Left } else { Direction::Right };
        if child_in(n, d) is Some {
            let cl = child_in(n, d)->Some_0;
            assert(stored(st, cl, epoch) is Ok);
            assert(stored(st, cl, epoch)->Ok_0.label == cl);
            assert(p.longest_prefix_children[j].label == cl);
            assert(!pfx(cl, label));
        } else {
            assert(p.longest_prefix_children[j].label == TC::spec_empty_label());
        }
    }
    lemma_nm_extra::<TC>(st, epoch, label, n, p);
}
// what `shaped` says about one stored node (kept separate so that the users need not reveal the whole predicate)
pub proof fn lemma_shape_of(st: int, epoch: u64, n: TreeNode)
    requires shaped(st, epoch), stored(st, n.label, epoch) == Ok::<TreeNode, StorageError>(n)
    ensures
        canon(n.label),
        (n.node_type is Leaf) <==> n.label.label_len == 256,
        n.label != root_label() && !(n.node_type is Leaf) ==> n.left_child is Some && n.right_child is Some,
        forall|d: Direction| (#[trigger] child_in(n, d)) is Some ==> {
            let cl = child_in(n, d)->Some_0;
            &&& canon(cl) && n.label.label_len < cl.label_len && agree(n.label, cl, n.label.label_len as int)
            &&& bit(cl, n.label.label_len as int) == (d is Right)
            &&& stored(st, cl, epoch) is Ok
        },
{
    reveal(shaped);
    assert(stored(st, n.label, epoch) is Ok);
}
// bit-level core of check (4): two labels that extend nl by 0 resp. 1 have nl as their longest common prefix
pub proof fn lemma_lcp_children(nl: NodeLabel, l: NodeLabel, rr: NodeLabel, r: NodeLabel, k: int)
    requires
        canon(nl), nl.label_len < l.label_len, nl.label_len < rr.label_len, wf(l), wf(rr),
        agree(nl, l, nl.label_len as int), agree(nl, rr, nl.label_len as int),
        !bit(l, nl.label_len as int), bit(rr, nl.label_len as int),
        is_lcplen(l, rr, k), is_prefix_n(r, l, k),
    ensures r == nl
{
    let m = nl.label_len as int;
    if k > m { assert(bit(l, m) == bit(rr, m)); }
    if k < m { assert(bit(l, k) == bit(nl, k)); assert(bit(rr, k) == bit(nl, k)); }
    assert(k == m);
    assert forall|i: int| 0 <= i < m implies bit(r, i) == bit(nl, i) by { assert(bit(r, i) == bit(l, i)); assert(bit(nl, i) == bit(l, i)); }
    assert(agree(r, nl, m));
    lemma_label_ext(r, nl);
}
// checks (1) and (4): the label differs from both reported children, and whatever get_longest_common_prefix may return for the two
// reported child labels is - after the verifier's empty-label -> root normalisation - the anchor
pub proof fn lemma_nm_extra<TC: Configuration>(st: int, epoch: u64, label: NodeLabel, n: TreeNode, p: NonMembershipProof)
    requires
        consistent::<TC>(st, epoch), shaped(st, epoch), TC::spec_empty_label().label_len == 0,
        stored(st, n.label, epoch) == Ok::<TreeNode, StorageError>(n), deepest(st, epoch, label, n), n.label != label, label.label_len == 256,
        p.label == label, p.longest_prefix == n.label,
        p.longest_prefix_children[0] == reported_child::<TC>(st, epoch, n, Direction::Left),
        p.longest_prefix_children[1] == reported_child::<TC>(st, epoch, n, Direction::Right),
    ensures nm_extra::<TC>(p)
{
    lemma_shape_of(st, epoch, n);
    let c0 = p.longest_prefix_children[0].label;
    let c1 = p.longest_prefix_children[1].label;
    let e = TC::spec_empty_label();
    let lc = child_in(n, Direction::Left);
    let rc = child_in(n, Direction::Right);
    // what the two reported labels are
    assert(c0 == (match lc { Some(cl) => cl, None => e })) by {
        if lc is Some { lemma_label_of::<TC>(st, epoch, lc->Some_0); }
    }
    assert(c1 == (match rc { Some(cl) => cl, None => e })) by {
        if rc is Some { lemma_label_of::<TC>(st, epoch, rc->Some_0); }
    }
    // (1)
    assert(label != c0 && label != c1) by {
        reveal(deepest);
        if label == c0 || label == c1 { lemma_pfx_refl(label); }
    }
    // (4)
    assert forall|r: NodeLabel| #[trigger] lcp_rel::<TC>(c0, c1, r) implies (if r == e { is_root(n.label) } else { r == n.label }) by {
        if lc is Some && rc is Some {
            let l = lc->Some_0;
            let rr = rc->Some_0;
            assert(l.label_len > 0 && rr.label_len > 0);
            let k = choose|k: int| #[trigger] is_lcplen(l, rr, k) && is_prefix_n(r, l, k);
            lemma_lcp_children(n.label, l, rr, r, k);
        } else {
            // only the root may lack a child
            assert(n.label.label_len < 256) by { if n.label.label_len == 256 { reveal(deepest); lemma_label_ext_pfx(n.label, label); } }
            assert(n.label == root_label());
            axiom_root_label();
            assert(r == e);
        }
    }
}
// a canonical 256-bit prefix of a canonical 256-bit label is that label
pub proof fn lemma_label_ext_pfx(a: NodeLabel, b: NodeLabel)
    requires pfx(a, b), a.label_len == 256, b.label_len == 256, canon(a), canon(b)
    ensures a == b
{
    lemma_label_ext(a, b);
}
