// ---- azks_proofs unit (C05 completeness, used by C02 / C03): the proof walk get_lcp_node_label_with_membership_proof
use vstd::std_specs::convert::TryFromSpecImpl;
impl TryFromSpecImpl<PrefixOrdering> for Direction {
    open spec fn obeys_try_from_spec() -> bool { true }
    open spec fn try_from_spec(p: PrefixOrdering) -> Result<Self, String> {
        match p { PrefixOrdering::WithZero => Ok(Direction::Left), PrefixOrdering::WithOne => Ok(Direction::Right), PrefixOrdering::Invalid => Err(arbitrary_string()) }
    }
}
pub uninterp spec fn arbitrary_string() -> String;
impl TryFrom<PrefixOrdering> for Direction {
    type Error = String;
    #[verifier::external_body]
    fn try_from(prefix_ordering: PrefixOrdering) -> (r: Result<Self, String>)
        ensures (prefix_ordering is WithZero ==> r == Ok::<Direction, String>(Direction::Left)),
                (prefix_ordering is WithOne ==> r == Ok::<Direction, String>(Direction::Right)),
                (prefix_ordering is Invalid ==> r is Err),
    { unimplemented!() }
}
pub uninterp spec fn ordering(p: NodeLabel, c: NodeLabel) -> PrefixOrdering;
// NodeLabel::root() (all-zero value, length 0)
pub uninterp spec fn root_label() -> NodeLabel;

// the bottom-up Merkle fold of the verifier (same shape as fold_mp in the verify_base unit): applies the LAST k sibling proofs, deepest first
pub open spec fn step_mp<TC: Configuration>(v: AzksValue, l: NodeLabel, sp: SiblingProof) -> (AzksValue, NodeLabel) {
    let sib = sp.siblings[0];
    match sp.direction {
        Direction::Left => (TC::spec_parent(v, TC::spec_label_value(l), sib.value, TC::spec_label_value(sib.label)), sp.label),
        Direction::Right => (TC::spec_parent(sib.value, TC::spec_label_value(sib.label), v, TC::spec_label_value(l)), sp.label),
    }
}
pub open spec fn fold_mp<TC: Configuration>(hash_val: AzksValue, label: NodeLabel, sibs: Seq<SiblingProof>, k: int) -> (AzksValue, NodeLabel)
    decreases k
{
    if k <= 0 { (hash_val, label) } else {
        let (v, l) = fold_mp::<TC>(hash_val, label, sibs, k - 1);
        step_mp::<TC>(v, l, sibs[sibs.len() - k])
    }
}
// pushing a deeper sibling proof: it is applied FIRST
pub proof fn lemma_fold_push<TC: Configuration>(v: AzksValue, l: NodeLabel, s: Seq<SiblingProof>, sp: SiblingProof, k: int)
    requires 0 <= k <= s.len()
    ensures fold_mp::<TC>(v, l, s.push(sp), k + 1) == fold_mp::<TC>(step_mp::<TC>(v, l, sp).0, step_mp::<TC>(v, l, sp).1, s, k)
    decreases k
{
    let s2 = s.push(sp);
    let b = step_mp::<TC>(v, l, sp);
    if k > 0 {
        lemma_fold_push::<TC>(v, l, s, sp, k - 1);
        assert(s2[s2.len() - (k + 1)] == s[s.len() - k]);
        // LHS = step(fold(s2, k), s2[len2 - (k+1)]), RHS = step(fold(b, s, k-1), s[len - k])
        let inner = fold_mp::<TC>(v, l, s2, k);
        assert(fold_mp::<TC>(v, l, s2, k + 1) == step_mp::<TC>(inner.0, inner.1, s2[s2.len() - (k + 1)]));
        let inner_r = fold_mp::<TC>(b.0, b.1, s, k - 1);
        assert(fold_mp::<TC>(b.0, b.1, s, k) == step_mp::<TC>(inner_r.0, inner_r.1, s[s.len() - k]));
    } else {
        assert(s2[s2.len() - 1] == sp);
        assert(fold_mp::<TC>(v, l, s2, 0) == (v, l));
        assert(fold_mp::<TC>(v, l, s2, 1) == step_mp::<TC>(v, l, s2[s2.len() - 1]));
        assert(fold_mp::<TC>(b.0, b.1, s, 0) == b);
    }
}
// what a node contributes to its parent's hash (leaf values carry their epoch), and its label
pub open spec fn nv<TC: Configuration>(n: TreeNode) -> AzksValue { node_value::<TC>(Some(n), NodeHashingMode::WithLeafEpoch) }
// hash consistency of the stored tree as read at `epoch` (what update_hash#E_hash establishes for every node it is called on, in the
// WithLeafEpoch mode the directory inserts with): a non-leaf node stores the parent hash of its two children as read; a leaf has no
// children; a record is stored under its own label
#[verifier::opaque]
pub open spec fn consistent<TC: Configuration>(st: int, epoch: u64) -> bool {
    forall|l: NodeLabel| (#[trigger] stored(st, l, epoch)) is Ok ==> {
        let n = stored(st, l, epoch)->Ok_0;
        &&& n.label == l
        &&& (l == root_label() ==> !(n.node_type is Leaf))
        &&& (n.node_type is Leaf ==> n.left_child is None && n.right_child is None)
        &&& (!(n.node_type is Leaf) ==> n.hash == parent_hash::<TC>(child_of(st, n.left_child, epoch), child_of(st, n.right_child, epoch), NodeHashingMode::WithLeafEpoch))
    }
}
// the walk's invariant: folding the collected sibling proofs from (value, label) of the node reached gives the root's (hash, label)
#[verifier::opaque]
pub open spec fn reaches_root<TC: Configuration>(st: int, epoch: u64, n: TreeNode, s: Seq<SiblingProof>) -> bool {
    stored(st, root_label(), epoch) is Ok
    && fold_mp::<TC>(nv::<TC>(n), n.label, s, s.len() as int) == (stored(st, root_label(), epoch)->Ok_0.hash, stored(st, root_label(), epoch)->Ok_0.label)
}
pub open spec fn child_in(n: TreeNode, d: Direction) -> Option<NodeLabel> { match d { Direction::Left => n.left_child, Direction::Right => n.right_child } }
pub open spec fn other_dir(d: Direction) -> Direction { match d { Direction::Left => Direction::Right, Direction::Right => Direction::Left } }
pub open spec fn sibling_elem<TC: Configuration>(st: int, epoch: u64, n: TreeNode, d: Direction) -> AzksElement {
    let c = child_of(st, child_in(n, other_dir(d)), epoch);
    AzksElement { label: child_label::<TC>(c), value: node_value::<TC>(c, NodeHashingMode::WithLeafEpoch) }
}
pub proof fn lemma_label_of<TC: Configuration>(st: int, epoch: u64, l: NodeLabel)
    requires consistent::<TC>(st, epoch), stored(st, l, epoch) is Ok
    ensures stored(st, l, epoch)->Ok_0.label == l
{
    reveal(consistent);
}
// the root reaches itself with no sibling proofs
pub proof fn lemma_walk_start<TC: Configuration>(st: int, epoch: u64, root: TreeNode)
    requires consistent::<TC>(st, epoch), stored(st, root_label(), epoch) == Ok::<TreeNode, StorageError>(root)
    ensures reaches_root::<TC>(st, epoch, root, Seq::<SiblingProof>::empty())
{
    reveal(reaches_root);
    reveal(consistent);
    assert(stored(st, root_label(), epoch) is Ok);
    assert(root.label == root_label());
}
// one step down: from a node that reaches the root to its child in direction d, with the sibling the server reports
pub proof fn lemma_walk_step<TC: Configuration>(st: int, epoch: u64, n: TreeNode, c: TreeNode, d: Direction, sp: SiblingProof, s: Seq<SiblingProof>)
    requires
        consistent::<TC>(st, epoch),
        stored(st, n.label, epoch) == Ok::<TreeNode, StorageError>(n),
        reaches_root::<TC>(st, epoch, n, s),
        child_of(st, child_in(n, d), epoch) == Some(c),
        sp.label == n.label, sp.direction == d, sp.siblings[0] == sibling_elem::<TC>(st, epoch, n, d),
    ensures
        reaches_root::<TC>(st, epoch, c, s.push(sp)),
        s.push(sp).drop_last() == s,
{
    reveal(reaches_root);
    reveal(consistent);
    assert(stored(st, n.label, epoch) is Ok);
    // n has a child, so it is not a leaf and stores the parent hash of its children
    assert(child_in(n, d) is Some);
    assert(!(n.node_type is Leaf));
    assert(nv::<TC>(n) == n.hash);
    assert(step_mp::<TC>(nv::<TC>(c), c.label, sp) == (n.hash, n.label));
    lemma_fold_push::<TC>(nv::<TC>(c), c.label, s, sp, s.len() as int);
    assert(s.push(sp).drop_last() =~= s);
}
