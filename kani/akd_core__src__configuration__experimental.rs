#[cfg(kani)]
mod vx_kani {
    //! Kani harnesses (overlay copy only) for C18: the byte strings fed to the hash. The configuration's `hash` is replaced by a
    //! recording stub (contract-as-stub): it stores its input, so each harness compares the real pre-image with the specified encoding.
    use super::*;
    use crate::configuration::{DomainLabel, ExampleLabel};
    type ExpCfg = ExperimentalConfiguration<ExampleLabel>;

    const CAP: usize = 96;
    static mut REC: [u8; CAP] = [0u8; CAP];
    static mut REC_LEN: usize = 0;
    static mut CALLS: usize = 0;

    // ExperimentalConfiguration::hash = blake3(domain_label || item) through Hasher::update twice. Kani cannot stub a method of a
    // generic impl, so blake3's `update` is replaced by a recorder: the first call must carry the domain label, the second is the item.
    fn rec_update<'a>(h: &'a mut blake3::Hasher, input: &[u8]) -> &'a mut blake3::Hasher {
        unsafe {
            CALLS += 1;
            if CALLS % 2 == 1 {
                // domain separation: the configured label, verbatim
                let d = ExampleLabel::domain_label();
                assert!(input.len() == d.len());
                let k: usize = kani::any();
                kani::assume(k < d.len());
                assert!(input[k] == d[k]);
            } else {
                REC_LEN = input.len();
                let mut i = 0;
                while i < CAP {
                    if i < input.len() {
                        REC[i] = input[i];
                    }
                    i += 1;
                }
            }
        }
        h
    }
    // Hasher::new runs CPU feature detection (inline asm, unsupported by Kani); the hasher state is never read by the stubs
    fn rec_new() -> blake3::Hasher {
        unsafe { core::mem::MaybeUninit::zeroed().assume_init() }
    }
    fn rec_finalize(_h: &blake3::Hasher) -> blake3::Hash {
        blake3::Hash::from([7u8; 32])
    }
    fn be64(v: u64, k: usize) -> u8 {
        (v >> (56 - 8 * k)) as u8
    }

    /// VRF input: get_hash_from_label_input(l, f, v) hashes exactly be64(|l|) || l || [f] || be64(v)
    /// (BOUNDED: label lengths 0, 1 and 3 bytes; label bytes, freshness and version full-domain)
    fn label_input<const N: usize>() {
        let buf: [u8; N] = kani::any();
        let label = AkdLabel(buf.to_vec());
        let fresh: bool = kani::any();
        let f = if fresh { VersionFreshness::Fresh } else { VersionFreshness::Stale };
        let v: u64 = kani::any();
        let _ = ExpCfg::get_hash_from_label_input(&label, f, v);
        unsafe {
            assert!(CALLS == 2);
            assert!(REC_LEN == 8 + N + 1 + 8);
            let k: usize = kani::any();
            kani::assume(k < 8);
            assert!(REC[k] == be64(N as u64, k));
            if k < N {
                assert!(REC[8 + k] == buf[k]);
            }
            assert!(REC[8 + N] == (if fresh { 1 } else { 0 }));
            assert!(REC[8 + N + 1 + k] == be64(v, k));
        }
    }
    #[kani::proof]
    #[kani::unwind(98)]
    #[kani::stub(blake3::Hasher::update, rec_update)]
    #[kani::stub(blake3::Hasher::new, rec_new)]
    #[kani::stub(blake3::Hasher::finalize, rec_finalize)]
    fn c18_label_input_encoding_experimental() {
        let which: u8 = kani::any();
        kani::assume(which < 3);
        match which {
            0 => label_input::<0>(),
            1 => label_input::<1>(),
            _ => label_input::<3>(),
        }
    }

    /// hash_leaf_with_commitment(c, e) hashes exactly c || be64(e)  (complete: fixed width)
    #[kani::proof]
    #[kani::unwind(98)]
    #[kani::stub(blake3::Hasher::update, rec_update)]
    #[kani::stub(blake3::Hasher::new, rec_new)]
    #[kani::stub(blake3::Hasher::finalize, rec_finalize)]
    fn c18_leaf_commitment_encoding_experimental() {
        let c: [u8; 32] = kani::any();
        let e: u64 = kani::any();
        let _ = ExpCfg::hash_leaf_with_commitment(AzksValue(c), e);
        unsafe {
            assert!(CALLS == 2 && REC_LEN == 40);
            let k: usize = kani::any();
            kani::assume(k < 32);
            assert!(REC[k] == c[k]);
            if k < 8 {
                assert!(REC[32 + k] == be64(e, k));
            }
        }
    }

    /// get_commitment_nonce(key, label, _, _) hashes key || be32(label_len) || label_val (BOUNDED: |key| = 2)
    #[kani::proof]
    #[kani::unwind(98)]
    #[kani::stub(blake3::Hasher::update, rec_update)]
    #[kani::stub(blake3::Hasher::new, rec_new)]
    #[kani::stub(blake3::Hasher::finalize, rec_finalize)]
    fn c18_commitment_nonce_encoding_experimental() {
        let kb: [u8; 2] = kani::any();
        let label = NodeLabel { label_val: kani::any(), label_len: kani::any() };
        let version: u64 = kani::any();
        let value = AkdValue(Vec::new());
        let _ = ExpCfg::get_commitment_nonce(&kb, &label, version, &value);
        unsafe {
            assert!(CALLS == 2);
            assert!(REC_LEN == 2 + 4 + 32);
            let k: usize = kani::any();
            kani::assume(k < 32);
            if k < 2 {
                assert!(REC[k] == kb[k]);
            }
            if k < 4 {
                assert!(REC[2 + k] == (label.label_len >> (24 - 8 * k)) as u8);
            }
            assert!(REC[6 + k] == label.label_val[k]);
        }
    }
}
