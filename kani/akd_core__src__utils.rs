#[cfg(kani)]
mod vx_kani {
    use super::*;
    /// i2osp_array(x) = be64(|x|) || x   (BOUNDED: |x| <= 4)
    #[kani::proof]
    #[kani::unwind(20)]
    fn c18_i2osp_array() {
        let buf: [u8; 4] = kani::any();
        let n: usize = kani::any();
        kani::assume(n <= 4);
        let r = i2osp_array(&buf[..n]);
        assert!(r.len() == 8 + n);
        let k: usize = kani::any();
        kani::assume(k < 8);
        assert!(r[k] == ((n as u64) >> (56 - 8 * k)) as u8);
        if k < n {
            assert!(r[8 + k] == buf[k]);
        }
    }
}
