#[cfg(kani)]
mod vx_kani {
    //! Kani harnesses (overlay copy only) for C18: the byte strings fed to the hash. The configuration's `hash` is replaced by a
    //! recording stub (contract-as-stub): it stores its input, so each harness compares the real pre-image with the specified encoding.
    use super::*;

    const CAP: usize = 96;
    static mut REC: [u8; CAP] = [0u8; CAP];
    static mut REC_LEN: usize = 0;
    static mut CALLS: usize = 0;

    fn rec_hash(item: &[u8]) -> crate::hash::Digest {
        unsafe {
            CALLS += 1;
            REC_LEN = item.len();
            let mut i = 0;
            while i < CAP {
                if i < item.len() {
                    REC[i] = item[i];
                }
                i += 1;
            }
        }
        [7u8; 32]
    }
    fn be64(v: u64, k: usize) -> u8 {
        (v >> (56 - 8 * k)) as u8
    }

    /// VRF input: get_hash_from_label_input(l, f, v) hashes exactly be64(|l|) || l || [f] || be64(v)
    /// (BOUNDED: label lengths 0, 1 and 3 bytes; label bytes, freshness and version full-domain)
    fn label_input<const N: usize>() {
        let buf: [u8; N] = kani::any();
        let label = AkdLabel(buf.to_vec());
        let fresh: bool = kani::any();
        let f = if fresh { VersionFreshness::Fresh } else { VersionFreshness::Stale };
        let v: u64 = kani::any();
        let _ = WhatsAppV1Configuration::get_hash_from_label_input(&label, f, v);
        unsafe {
            assert!(CALLS == 1);
            assert!(REC_LEN == 8 + N + 1 + 8);
            let k: usize = kani::any();
            kani::assume(k < 8);
            assert!(REC[k] == be64(N as u64, k));
            if k < N {
                assert!(REC[8 + k] == buf[k]);
            }
            assert!(REC[8 + N] == (if fresh { 1 } else { 0 }));
            assert!(REC[8 + N + 1 + k] == be64(v, k));
        }
    }
    #[kani::proof]
    #[kani::unwind(98)]
    #[kani::stub(<WhatsAppV1Configuration as Configuration>::hash, rec_hash)]
    fn c18_label_input_encoding_whatsapp_v1() {
        let which: u8 = kani::any();
        kani::assume(which < 3);
        match which {
            0 => label_input::<0>(),
            1 => label_input::<1>(),
            _ => label_input::<3>(),
        }
    }

    /// hash_leaf_with_commitment(c, e) hashes exactly c || be64(e)  (complete: fixed width)
    #[kani::proof]
    #[kani::unwind(98)]
    #[kani::stub(<WhatsAppV1Configuration as Configuration>::hash, rec_hash)]
    fn c18_leaf_commitment_encoding_whatsapp_v1() {
        let c: [u8; 32] = kani::any();
        let e: u64 = kani::any();
        let _ = WhatsAppV1Configuration::hash_leaf_with_commitment(AzksValue(c), e);
        unsafe {
            assert!(CALLS == 1 && REC_LEN == 40);
            let k: usize = kani::any();
            kani::assume(k < 32);
            assert!(REC[k] == c[k]);
            if k < 8 {
                assert!(REC[32 + k] == be64(e, k));
            }
        }
    }

    /// get_commitment_nonce(key, label, version, value) hashes key || be32(label_len) || label_val || be64(version) || be64(|value|) || value:
    /// the commitment key (derived from the VRF secret) is part of every nonce pre-image   (BOUNDED: |key| = 2, |value| = 1)
    #[kani::proof]
    #[kani::unwind(98)]
    #[kani::stub(<WhatsAppV1Configuration as Configuration>::hash, rec_hash)]
    fn c18_commitment_nonce_encoding_whatsapp_v1() {
        let kb: [u8; 2] = kani::any();
        let vb: [u8; 1] = kani::any();
        let label = NodeLabel { label_val: kani::any(), label_len: kani::any() };
        let version: u64 = kani::any();
        let value = AkdValue(vb.to_vec());
        let _ = WhatsAppV1Configuration::get_commitment_nonce(&kb, &label, version, &value);
        unsafe {
            assert!(CALLS == 1);
            assert!(REC_LEN == 2 + 4 + 32 + 8 + 8 + 1);
            let k: usize = kani::any();
            kani::assume(k < 32);
            if k < 2 {
                assert!(REC[k] == kb[k]);
            }
            if k < 4 {
                assert!(REC[2 + k] == (label.label_len >> (24 - 8 * k)) as u8);
            }
            assert!(REC[6 + k] == label.label_val[k]);
            if k < 8 {
                assert!(REC[38 + k] == be64(version, k));
                assert!(REC[46 + k] == be64(1, k));
            }
            assert!(REC[54] == vb[0]);
        }
    }
}

#[cfg(kani)]
mod vx_kani_multi {
    //! Kani harnesses (overlay copy only) for the hash pre-images of functions that hash more than once (C05: parent hash binds both
    //! children's values AND labels; C06: the value commitment frames value and nonce with their lengths). The configuration's `hash`
    //! is replaced by a recording stub that stores every input and returns a digest that identifies the call.
    use super::*;

    const CAP: usize = 72;
    const MAXC: usize = 3;
    static mut REC: [[u8; CAP]; MAXC] = [[0u8; CAP]; MAXC];
    static mut LEN: [usize; MAXC] = [0; MAXC];
    static mut CALLS: usize = 0;

    fn rec_hash(item: &[u8]) -> crate::hash::Digest {
        unsafe {
            let c = CALLS;
            CALLS += 1;
            if c < MAXC {
                LEN[c] = item.len();
                let mut i = 0;
                while i < CAP {
                    if i < item.len() {
                        REC[c][i] = item[i];
                    }
                    i += 1;
                }
            }
            [0xA0 + c as u8; 32]
        }
    }
    fn be64(v: u64, k: usize) -> u8 {
        (v >> (56 - 8 * k)) as u8
    }

    /// BOUNDED (child label byte strings of 2 bytes; values, labels full-domain): the parent hash commits to
    /// left value, left label, right value and right label, each at a fixed position
    #[kani::proof]
    #[kani::unwind(74)]
    #[kani::stub(<WhatsAppV1Configuration as Configuration>::hash, rec_hash)]
    fn c05_parent_hash_encoding_whatsapp_v1() {
        let lv: [u8; 32] = kani::any();
        let rv: [u8; 32] = kani::any();
        let ll: [u8; 2] = kani::any();
        let rl: [u8; 2] = kani::any();
        let _ = <WhatsAppV1Configuration as Configuration>::compute_parent_hash_from_children(&AzksValue(lv), &ll, &AzksValue(rv), &rl);
        let k: usize = kani::any();
        kani::assume(k < 32);
        unsafe {
            assert!(CALLS == 3);
            assert!(LEN[0] == 34 && LEN[1] == 34 && LEN[2] == 64);
            assert!(REC[0][k] == lv[k] && REC[1][k] == rv[k]);
            if k < 2 {
                assert!(REC[0][32 + k] == ll[k] && REC[1][32 + k] == rl[k]);
            }
            assert!(REC[2][k] == 0xA0 && REC[2][32 + k] == 0xA1);
        }
    }

    /// BOUNDED (|value| = 2, |nonce| = 3; bytes and epoch full-domain): the client-side leaf hash is
    /// hash( hash( be64(|value|) || value || be64(|nonce|) || nonce ) || be64(epoch) )
    #[kani::proof]
    #[kani::unwind(74)]
    #[kani::stub(<WhatsAppV1Configuration as Configuration>::hash, rec_hash)]
    fn c06_value_commitment_encoding_whatsapp_v1() {
        let vb: [u8; 2] = kani::any();
        let nb: [u8; 3] = kani::any();
        let epoch: u64 = kani::any();
        let _ = <WhatsAppV1Configuration as Configuration>::hash_leaf_with_value(&AkdValue(vb.to_vec()), epoch, &nb);
        let k: usize = kani::any();
        kani::assume(k < 32);
        unsafe {
            assert!(CALLS == 2);
            assert!(LEN[0] == 8 + 2 + 8 + 3);
            if k < 8 {
                assert!(REC[0][k] == be64(2, k));
                assert!(REC[0][10 + k] == be64(3, k));
                assert!(REC[1][32 + k] == be64(epoch, k));
            }
            if k < 2 {
                assert!(REC[0][8 + k] == vb[k]);
            }
            if k < 3 {
                assert!(REC[0][18 + k] == nb[k]);
            }
            assert!(LEN[1] == 40);
            assert!(REC[1][k] == 0xA0);
        }
    }

    /// BOUNDED (|key| = 2, |value| = 1): the server-side value commitment is hash( be64(|value|) || value || be64(32) || nonce )
    /// with nonce = the digest of the commitment-nonce pre-image (checked by c18_commitment_nonce_encoding)
    #[kani::proof]
    #[kani::unwind(74)]
    #[kani::stub(<WhatsAppV1Configuration as Configuration>::hash, rec_hash)]
    fn c06_fresh_value_encoding_whatsapp_v1() {
        let kb: [u8; 2] = kani::any();
        let vb: [u8; 1] = kani::any();
        let label = NodeLabel { label_val: kani::any(), label_len: kani::any() };
        let version: u64 = kani::any();
        let _ = <WhatsAppV1Configuration as Configuration>::compute_fresh_azks_value(&kb, &label, version, &AkdValue(vb.to_vec()));
        let k: usize = kani::any();
        kani::assume(k < 32);
        unsafe {
            assert!(CALLS == 2);
            assert!(LEN[1] == 8 + 1 + 8 + 32);
            if k < 8 {
                assert!(REC[1][k] == be64(1, k));
                assert!(REC[1][9 + k] == be64(32, k));
            }
            assert!(REC[1][8] == vb[0]);
            assert!(REC[1][17 + k] == 0xA0);
        }
    }
}
