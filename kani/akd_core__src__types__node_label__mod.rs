#[cfg(kani)]
mod vx_kani {
    //! Kani harnesses (overlay copy only). Each harness states a contract clause of the named function over
    //! full-domain symbolic inputs; loop-free (or width-bounded with unwinding assertions) => complete proofs.
    use super::*;

    fn spec_bit(l: &NodeLabel, i: u32) -> u8 {
        (l.label_val[(i / 8) as usize] >> (7 - (i % 8))) & 1
    }

    /// NodeLabel::get_prefix — exactly the contract the Verus units assume for it:
    ///   requires wf(self)
    ///   ensures  len >= 256 ==> r == self
    ///            len <= self.len && len < 256 ==> r.len == len && canon(r) && agree(r, self, len)
    /// (canon/agree through one symbolic bit index i < 256, i.e. for all i)
    #[kani::proof]
    fn c17_get_prefix_contract() {
        let l = NodeLabel { label_val: kani::any(), label_len: kani::any() };
        kani::assume(l.label_len <= 256);
        let n: u32 = kani::any();
        let r = l.get_prefix(n);
        kani::cover!(n > 0 && n < l.label_len && n % 8 == 0, "byte boundary reachable");
        if n >= 256 {
            assert!(r == l);
        } else if n <= l.label_len {
            assert!(r.label_len == n);
            let i: u32 = kani::any();
            kani::assume(i < 256);
            if i < n {
                assert!(spec_bit(&r, i) == spec_bit(&l, i));
            } else {
                assert!(spec_bit(&r, i) == 0);
            }
            if n == 0 {
                assert!(r == NodeLabel::root());
            }
        }
    }

    /// Ord::cmp = lexicographic on (label_len, label_val bytes), witnessed by a symbolic first-difference index
    #[kani::proof]
    #[kani::unwind(34)]
    fn c17_cmp_contract() {
        let a = NodeLabel { label_val: kani::any(), label_len: kani::any() };
        let b = NodeLabel { label_val: kani::any(), label_len: kani::any() };
        let r = a.cmp(&b);
        kani::cover!(a.label_len == b.label_len && a.label_val[31] != b.label_val[31], "late difference reachable");
        if a.label_len != b.label_len {
            assert!(r == a.label_len.cmp(&b.label_len));
        } else {
            let k: usize = kani::any();
            kani::assume(k <= 32);
            let mut ok = true;
            let mut j = 0;
            while j < 32 {
                if j < k && a.label_val[j] != b.label_val[j] {
                    ok = false;
                }
                j += 1;
            }
            kani::assume(ok);
            if k == 32 {
                assert!(r == core::cmp::Ordering::Equal);
            } else {
                kani::assume(a.label_val[k] != b.label_val[k]);
                assert!(r == a.label_val[k].cmp(&b.label_val[k]));
            }
        }
    }

    // `format!` on the error paths dominates CBMC's cost; its text is irrelevant to every contract
    fn stub_format(_a: core::fmt::Arguments<'_>) -> String {
        String::new()
    }

    /// get_bit_at against the bit-string spec for all (label, index): cross-check of the Verus contract on the compiled code
    #[kani::proof]
    #[kani::stub(alloc::fmt::format, stub_format)]
    fn c17_get_bit_at_contract() {
        let l = NodeLabel { label_val: kani::any(), label_len: kani::any() };
        let i: u32 = kani::any();
        let r = l.get_bit_at(i);
        if i < l.label_len && i < 256 {
            match r {
                Ok(Bit::One) => assert!(spec_bit(&l, i) == 1),
                Ok(Bit::Zero) => assert!(spec_bit(&l, i) == 0),
                Err(_) => assert!(false),
            }
        } else {
            assert!(r.is_err());
        }
    }
}
#[cfg(kani)]
mod vx_kani_thorough {
    //! thorough-tier cross-checks of functions that Verus verifies through a desugaring (R-ALL): the COMPILED original against the same contract
    use super::*;
    fn spec_bit(l: &NodeLabel, i: u32) -> u8 {
        (l.label_val[(i / 8) as usize] >> (7 - (i % 8))) & 1
    }
    fn stub_format(_a: core::fmt::Arguments<'_>) -> String {
        String::new()
    }
    /// BOUNDED (labels of <= 16 bits, value bytes symbolic): is_prefix_of(a, b) <==> a.len <= b.len and the first a.len bits agree
    #[kani::proof]
    #[kani::unwind(18)]
    #[kani::stub(alloc::fmt::format, stub_format)]
    fn c17_is_prefix_of_compiled() {
        let a = NodeLabel { label_val: kani::any(), label_len: kani::any() };
        let b = NodeLabel { label_val: kani::any(), label_len: kani::any() };
        kani::assume(a.label_len <= 16 && b.label_len <= 16);
        let r = a.is_prefix_of(&b);
        let mut agree = true;
        let mut i = 0u32;
        while i < 16 {
            if i < a.label_len && spec_bit(&a, i) != spec_bit(&b, i) {
                agree = false;
            }
            i += 1;
        }
        assert!(r == (a.label_len <= b.label_len && agree));
    }
}

#[cfg(kani)]
mod vx_kani_c18 {
    use super::*;
    /// NodeLabel::to_bytes = be32(label_len) || label_val  (complete: fixed width) — the `label_bytes` of the Verus units
    #[kani::proof]
    #[kani::unwind(40)]
    fn c18_label_to_bytes() {
        let l = NodeLabel { label_val: kani::any(), label_len: kani::any() };
        let r = l.to_bytes();
        assert!(r.len() == 36);
        let k: usize = kani::any();
        kani::assume(k < 32);
        if k < 4 {
            assert!(r[k] == (l.label_len >> (24 - 8 * k)) as u8);
        }
        assert!(r[4 + k] == l.label_val[k]);
    }
}
