#[cfg(kani)]
mod vx_kani {
    //! Kani harness (overlay copy only) for C15: the pending-record query helper of the transaction log.
    use super::*;
    use crate::storage::types::{ValueState, ValueStateRetrievalFlag};
    use crate::{AkdLabel, AkdValue, NodeLabel};

    fn st(epoch: u64, version: u64) -> ValueState {
        ValueState { value: AkdValue(Vec::new()), version, label: NodeLabel::new([0u8; 32], 256), epoch, username: AkdLabel(Vec::new()) }
    }

    /// BOUNDED (exactly 3 pending states of one user, strictly increasing epochs as get_users_data sorts them; epochs, versions and the
    /// flag argument symbolic; one harness per retrieval flag):
    /// find_appropriate_item = the query of the property over the pending states:
    ///   SpecificVersion(v): the state with version v; SpecificEpoch(e): the state of epoch e; LeqEpoch(e): the state with the largest epoch <= e;
    ///   MaxEpoch / MinEpoch: last / first; None exactly when no state qualifies
    fn run(which: u8) {
        let e: [u64; 3] = kani::any();
        let v: [u64; 3] = kani::any();
        kani::assume(e[0] < e[1] && e[1] < e[2]);
        kani::assume(v[0] < v[1] && v[1] < v[2]);
        let states = vec![st(e[0], v[0]), st(e[1], v[1]), st(e[2], v[2])];
        let arg: u64 = kani::any();
        let flag = match which {
            0 => ValueStateRetrievalFlag::SpecificVersion(arg),
            1 => ValueStateRetrievalFlag::SpecificEpoch(arg),
            2 => ValueStateRetrievalFlag::LeqEpoch(arg),
            3 => ValueStateRetrievalFlag::MaxEpoch,
            _ => ValueStateRetrievalFlag::MinEpoch,
        };
        let r = Transaction::find_appropriate_item(states, flag);
        let want: usize = match which {
            0 => if v[0] == arg { 0 } else if v[1] == arg { 1 } else if v[2] == arg { 2 } else { 3 },
            1 => if e[0] == arg { 0 } else if e[1] == arg { 1 } else if e[2] == arg { 2 } else { 3 },
            2 => if e[2] <= arg { 2 } else if e[1] <= arg { 1 } else if e[0] <= arg { 0 } else { 3 },
            3 => 2,
            _ => 0,
        };
        match r {
            None => assert!(want == 3),
            Some(s) => {
                assert!(want < 3);
                assert!(s.epoch == e[want] && s.version == v[want]);
            }
        }
    }
    #[kani::proof]
    #[kani::unwind(5)]
    fn c15_find_item_specific_version() { run(0) }
    #[kani::proof]
    #[kani::unwind(5)]
    fn c15_find_item_specific_epoch() { run(1) }
    #[kani::proof]
    #[kani::unwind(5)]
    fn c15_find_item_leq_epoch() { run(2) }
    #[kani::proof]
    #[kani::unwind(5)]
    fn c15_find_item_max_epoch() { run(3) }
    #[kani::proof]
    #[kani::unwind(5)]
    fn c15_find_item_min_epoch() { run(4) }
}
