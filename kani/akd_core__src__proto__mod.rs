#[cfg(kani)]
mod vx_kani {
    //! Kani harnesses (overlay copy only) for C19: label / digest / direction codecs and component round trips.
    use super::*;

    fn stub_format(_a: core::fmt::Arguments<'_>) -> String {
        String::new()
    }
    // 0..=34 symbolic bytes (slice of a symbolic array: cheap for CBMC)
    fn any_len() -> usize {
        let n: usize = kani::any();
        kani::assume(n <= 34);
        n
    }

    /// decode_minimized_label(encode_minimum_label(v)) == v and |encode| <= 32, for all 2^256 values (32-iteration loops: complete)
    #[kani::proof]
    #[kani::unwind(34)]
    fn c19_min_label_roundtrip() {
        let v: [u8; 32] = kani::any();
        let e = encode_minimum_label(&v);
        assert!(e.len() <= 32);
        // minimality: no trailing zero byte
        if !e.is_empty() {
            assert!(e[e.len() - 1] != 0);
        }
        let d = decode_minimized_label(&e);
        assert!(d == v);
    }

    /// NodeLabel -> proto -> NodeLabel: identity for label_len <= 256, Err (no panic) beyond, for all labels
    #[kani::proof]
    #[kani::unwind(34)]
    #[kani::stub(alloc::fmt::format, stub_format)]
    fn c19_nodelabel_roundtrip() {
        let l = crate::NodeLabel { label_val: kani::any(), label_len: kani::any() };
        let p: specs::types::NodeLabel = (&l).into();
        let back: Result<crate::NodeLabel, ConversionError> = (&p).try_into();
        kani::cover!(l.label_len == 256 && l.label_val[31] != 0, "full-length label reachable");
        if l.label_len <= 256 {
            assert!(back.is_ok());
            assert!(back.unwrap() == l);
        } else {
            assert!(back.is_err());
        }
    }

    /// decoding an ARBITRARY proto NodeLabel message (fields present or not, value of 0..=34 symbolic bytes, any length field):
    /// never panics; Ok exactly when both fields are present, |val| <= 32 and len <= 256, and then the label is well-formed
    /// with the value zero-padded
    #[kani::proof]
    #[kani::unwind(36)]
    #[kani::stub(alloc::fmt::format, stub_format)]
    fn c19_nodelabel_decode_total() {
        let mut p = specs::types::NodeLabel::new();
        let has_len: bool = kani::any();
        let has_val: bool = kani::any();
        let len: u32 = kani::any();
        let buf: [u8; 34] = kani::any();
        let val = buf[..any_len()].to_vec();
        let vlen = val.len();
        let first = if vlen > 0 { Some(val[0]) } else { None };
        if has_len {
            p.label_len = Some(len);
        }
        if has_val {
            p.label_val = Some(val);
        }
        let r: Result<crate::NodeLabel, ConversionError> = (&p).try_into();
        kani::cover!(has_len && has_val && vlen == 33, "over-long value reachable");
        kani::cover!(has_len && has_val && vlen == 32 && len == 256, "maximal label reachable");
        if has_len && has_val && vlen <= 32 && len <= 256 {
            let l = r.unwrap();
            assert!(l.label_len == len && l.label_len <= 256);
            if let Some(b) = first {
                assert!(l.label_val[0] == b);
            }
            if vlen < 32 {
                assert!(l.label_val[31] == 0);
            }
        } else {
            assert!(r.is_err());
        }
    }

    /// try_parse_digest: Ok exactly for 32 bytes (and then the same bytes), Err without panic otherwise (0..=34 symbolic bytes)
    #[kani::proof]
    #[kani::unwind(36)]
    #[kani::stub(alloc::fmt::format, stub_format)]
    fn c19_digest_parse() {
        let buf: [u8; 34] = kani::any();
        let v = &buf[..any_len()];
        let r = crate::hash::try_parse_digest(v);
        if v.len() == 32 {
            let d = r.unwrap();
            let i: usize = kani::any();
            kani::assume(i < 32);
            assert!(d[i] == v[i]);
        } else {
            assert!(r.is_err());
        }
    }

    /// AzksElement -> proto -> AzksElement is the identity for well-formed labels
    #[kani::proof]
    #[kani::unwind(34)]
    #[kani::stub(alloc::fmt::format, stub_format)]
    fn c19_azks_element_roundtrip() {
        let l = crate::NodeLabel { label_val: kani::any(), label_len: kani::any() };
        kani::assume(l.label_len <= 256);
        let e = crate::AzksElement { label: l, value: crate::AzksValue(kani::any()) };
        let p: specs::types::AzksElement = (&e).into();
        let back: Result<crate::AzksElement, ConversionError> = (&p).try_into();
        assert!(back.is_ok());
        assert!(back.unwrap() == e);
    }

    /// SiblingProof round trip, and the direction field of an arbitrary message decodes only to 0 / 1 after masking
    #[kani::proof]
    #[kani::unwind(34)]
    #[kani::stub(alloc::fmt::format, stub_format)]
    fn c19_sibling_proof_roundtrip() {
        let l = crate::NodeLabel { label_val: kani::any(), label_len: kani::any() };
        kani::assume(l.label_len <= 256);
        let sl = crate::NodeLabel { label_val: kani::any(), label_len: kani::any() };
        kani::assume(sl.label_len <= 256);
        let right: bool = kani::any();
        let sp = crate::SiblingProof {
            label: l,
            siblings: [crate::AzksElement { label: sl, value: crate::AzksValue(kani::any()) }],
            direction: if right { crate::types::Direction::Right } else { crate::types::Direction::Left },
        };
        let mut p: specs::types::SiblingProof = (&sp).into();
        let back: Result<crate::SiblingProof, ConversionError> = (&p).try_into();
        assert!(back.is_ok());
        assert!(back.unwrap() == sp);
        // arbitrary direction field
        let d: u32 = kani::any();
        p.direction = Some(d);
        let r: Result<crate::SiblingProof, ConversionError> = (&p).try_into();
        match d & 0xF {
            0 => assert!(r.unwrap().direction == crate::types::Direction::Left),
            1 => assert!(r.unwrap().direction == crate::types::Direction::Right),
            _ => assert!(r.is_err()),
        }
    }
}
