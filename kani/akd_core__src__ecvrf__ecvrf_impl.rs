#[cfg(kani)]
mod vx_kani {
    use super::*;
    /// Output::to_truncated_bytes = the first 32 bytes of the VRF output (complete)
    #[kani::proof]
    #[kani::unwind(40)]
    fn c18_output_truncation() {
        let o = Output(kani::any());
        let t = o.to_truncated_bytes();
        let k: usize = kani::any();
        kani::assume(k < 32);
        assert!(t[k] == o.0[k]);
    }
}
