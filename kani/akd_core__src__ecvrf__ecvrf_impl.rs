#[cfg(kani)]
mod vx_kani {
    use super::*;
    /// Output::to_truncated_bytes = the first 32 bytes of the VRF output (complete)
    #[kani::proof]
    #[kani::unwind(40)]
    fn c18_output_truncation() {
        let o = Output(kani::any());
        let t = o.to_truncated_bytes();
        let k: usize = kani::any();
        kani::assume(k < 32);
        assert!(t[k] == o.0[k]);
    }

    // the curve operations behind key / proof parsing are far beyond CBMC; they are replaced by cheap stand-ins so that the
    // LENGTH discipline of the two parsers (the part written in this crate) can be checked on every length
    fn stub_decompress(_c: &CompressedEdwardsY) -> Option<EdwardsPoint> {
        Some(EdwardsPoint::default())
    }
    fn stub_small_order(_p: &EdwardsPoint) -> bool {
        false
    }
    fn stub_pk_from_bytes(_b: &[u8; 32]) -> Result<ed25519_PublicKey, ed25519_dalek::SignatureError> {
        Ok(ed25519_PublicKey::default())
    }
    fn stub_format(_a: core::fmt::Arguments<'_>) -> alloc::string::String {
        alloc::string::String::new()
    }

    /// VRFPublicKey::try_from refuses every byte string whose length is not 32 (lengths 0..=40 symbolic): an altered (extended,
    /// truncated) key never parses to the honest key
    #[kani::proof]
    #[kani::unwind(44)]
    #[kani::stub(CompressedEdwardsY::decompress, stub_decompress)]
    #[kani::stub(EdwardsPoint::is_small_order, stub_small_order)]
    #[kani::stub(ed25519_dalek::VerifyingKey::from_bytes, stub_pk_from_bytes)]
    #[kani::stub(alloc::fmt::format, stub_format)]
    fn c18_public_key_length() {
        let buf: [u8; 40] = kani::any();
        let n: usize = kani::any();
        kani::assume(n <= 40 && n != 32);
        let r = VRFPublicKey::try_from(&buf[..n]);
        assert!(r.is_err());
    }

    // the two point checks of the key parser, with the curve operations replaced by switches the harness controls: the point that
    // "decompresses" is the base point (neither neutral nor of small order), so a weaker test substituted for is_small_order
    // (e.g. is_identity, evaluated for real) lets the key through and the harness fails
    static mut SMALL: bool = false;
    static mut DECOMP: bool = true;
    static mut SEEN: [u8; 32] = [0u8; 32];
    fn sw_decompress(_c: &CompressedEdwardsY) -> Option<EdwardsPoint> {
        if unsafe { DECOMP } {
            Some(curve25519_dalek::constants::ED25519_BASEPOINT_POINT)
        } else {
            None
        }
    }
    fn sw_small_order(_p: &EdwardsPoint) -> bool {
        unsafe { SMALL }
    }
    fn sw_pk_from_bytes(b: &[u8; 32]) -> Result<ed25519_PublicKey, ed25519_dalek::SignatureError> {
        unsafe { SEEN = *b };
        Ok(ed25519_PublicKey::default())
    }
    /// VRFPublicKey::try_from on 32 bytes: Err whenever the bytes are not a curve point or the point is of small order; otherwise
    /// the key is built from exactly the bytes given (complete over the 32 bytes and the two outcomes of the curve operations)
    #[kani::proof]
    #[kani::unwind(44)]
    #[kani::stub(CompressedEdwardsY::decompress, sw_decompress)]
    #[kani::stub(EdwardsPoint::is_small_order, sw_small_order)]
    #[kani::stub(ed25519_dalek::VerifyingKey::from_bytes, sw_pk_from_bytes)]
    #[kani::stub(alloc::fmt::format, stub_format)]
    fn c18_public_key_point_checks() {
        let buf: [u8; 32] = kani::any();
        unsafe {
            SMALL = kani::any();
            DECOMP = kani::any();
        }
        let r = VRFPublicKey::try_from(&buf[..]);
        unsafe {
            if !DECOMP || SMALL {
                assert!(r.is_err());
            } else {
                assert!(r.is_ok());
                let k: usize = kani::any();
                kani::assume(k < 32);
                assert!(SEEN[k] == buf[k]);
            }
        }
    }

    /// VRFPrivateKey::try_from refuses every byte string whose length is not 32 (lengths 0..=40 symbolic), and for 32 bytes the key
    /// IS those bytes: secret-key material that differs only beyond byte 32 can never give the same key (complete for these lengths)
    #[kani::proof]
    #[kani::unwind(44)]
    #[kani::stub(alloc::fmt::format, stub_format)]
    fn c18_private_key_length() {
        let buf: [u8; 40] = kani::any();
        let n: usize = kani::any();
        kani::assume(n <= 40);
        let r = VRFPrivateKey::try_from(&buf[..n]);
        if n != 32 {
            assert!(r.is_err());
        } else {
            let k: usize = kani::any();
            kani::assume(k < 32);
            match r { Ok(key) => assert!(key.0[k] == buf[k]), Err(_) => assert!(false) }
        }
    }

    /// Proof::try_from refuses every byte string whose length is not 80 (lengths 0..=90 symbolic) without panicking
    #[kani::proof]
    #[kani::unwind(94)]
    #[kani::stub(CompressedEdwardsY::decompress, stub_decompress)]
    #[kani::stub(alloc::fmt::format, stub_format)]
    fn c18_proof_length() {
        let buf: [u8; 90] = kani::any();
        let n: usize = kani::any();
        kani::assume(n <= 90 && n != 80);
        let r = Proof::try_from(&buf[..n]);
        assert!(r.is_err());
    }
}
