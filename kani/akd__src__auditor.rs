#[cfg(kani)]
mod vx_kani {
    //! Kani harnesses (overlay copy only) for the auditor's node-set validation.
    use super::*;
    use akd_core::NodeLabel;

    fn spec_bit(l: &NodeLabel, i: u32) -> u8 {
        (l.label_val[(i / 8) as usize] >> (7 - (i % 8))) & 1
    }
    fn spec_pfx(a: &NodeLabel, b: &NodeLabel) -> bool {
        if a.label_len > b.label_len {
            return false;
        }
        let mut i = 0;
        let mut ok = true;
        while i < 3 {
            if i < a.label_len && spec_bit(a, i) != spec_bit(b, i) {
                ok = false;
            }
            i += 1;
        }
        ok
    }
    fn stub_format(_a: core::fmt::Arguments<'_>) -> String {
        String::new()
    }
    fn any_label() -> NodeLabel {
        let mut v = [0u8; 32];
        v[0] = kani::any();
        let len: u32 = kani::any();
        kani::assume(len <= 3);
        NodeLabel::new(v, len)
    }

    /// BOUNDED stand-in (<= 3 nodes, labels <= 3 bits, arbitrary stray bits in the first byte):
    /// ensure_prefix_free(nodes) is Ok  <==>  no label is a prefix of (or equal to) another label of the set
    #[kani::proof]
    #[kani::unwind(5)]
    #[kani::stub(alloc::fmt::format, stub_format)]
    fn c09_ensure_prefix_free() {
        let n: usize = kani::any();
        kani::assume(n <= 3);
        let mut nodes: Vec<AzksElement> = Vec::new();
        let mut k = 0;
        while k < 3 {
            if k < n {
                nodes.push(AzksElement { label: any_label(), value: AzksValue([0u8; 32]) });
            }
            k += 1;
        }
        let r = ensure_prefix_free(&nodes);
        let mut free = true;
        let mut i = 0;
        while i < 3 {
            let mut j = 0;
            while j < 3 {
                if i < n && j < n && i != j && spec_pfx(&nodes[i].label, &nodes[j].label) {
                    free = false;
                }
                j += 1;
            }
            i += 1;
        }
        kani::cover!(n == 3 && !free, "overlapping set reachable");
        kani::cover!(n == 3 && free, "prefix-free set reachable");
        if r.is_ok() {
            assert!(free);
        } else {
            assert!(!free);
        }
    }
}
