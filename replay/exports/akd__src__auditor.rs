#[cfg(all(feature = "public_tests", not(kani)))]
#[doc(hidden)]
#[allow(missing_docs)]
pub mod vx_export {
    //! Added in the /verif overlay copy only.
    /// the real validation helper of the auditor (private): Ok(()) iff it accepts the node set
    pub fn ensure_prefix_free(nodes: &[akd_core::AzksElement]) -> bool {
        super::ensure_prefix_free(nodes).is_ok()
    }
}
