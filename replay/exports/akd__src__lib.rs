#[cfg(all(feature = "public_tests", not(kani)))]
#[doc(hidden)]
#[allow(missing_docs, dead_code, clippy::all)]
pub mod vx_export {
    //! Added in the /verif overlay copy only: witnesses and wrappers that need crate-private items of the real code.
    use crate::append_only_zks::{Azks, AzksParallelismConfig, InsertMode};
    use crate::auditor::verify_consecutive_append_only;
    use crate::client::{key_history_verify, lookup_verify, verify_nonmembership_for_tests_only};
    use crate::directory::{Directory, ReadOnlyDirectory};
    use crate::ecvrf::{HardCodedAkdVRF, VRFKeyStorage};
    use crate::errors::AkdError;
    use crate::storage::manager::StorageManager;
    use crate::storage::memory::AsyncInMemoryDatabase;
    use crate::storage::types::DbRecord;
    use crate::storage::Database;
    use crate::tree_node::{node_to_azks_value, NodeHashingMode, NodeKey, TreeNode};
    use crate::{
        AkdLabel, AkdValue, AzksElement, AzksValue, HistoryProof, LookupProof, NodeLabel,
        SingleAppendOnlyProof, UpdateProof, VersionFreshness,
    };
    use akd_core::configuration::Configuration;
    use akd_core::verify::history::{HistoryParams, HistoryVerificationParams};

    pub fn directory_get_marker_version(v: u64) -> u64 {
        crate::directory::get_marker_version(v)
    }

    fn lbl(first: u8) -> NodeLabel {
        let mut v = [0u8; 32];
        v[0] = first;
        NodeLabel::new(v, 256)
    }
    fn el(first: u8, tag: u8) -> AzksElement {
        AzksElement { label: lbl(first), value: AzksValue([tag; 32]) }
    }

    /// D1 (C05): does a non-membership proof for a MEMBER verify when anchored at a shallow ancestor?
    /// Returns Ok(true) iff the verifier accepts the false statement.
    pub async fn d1_shallow_anchor<TC: Configuration>() -> Result<bool, AkdError> {
        let db = StorageManager::new_no_cache(AsyncInMemoryDatabase::new());
        let mut azks = Azks::new::<TC, _>(&db).await?;
        azks.batch_insert_nodes::<TC, _>(&db, vec![el(0x00, 1), el(0x20, 2), el(0x80, 3)], InsertMode::Directory, AzksParallelismConfig::disabled()).await?;
        let root_hash = azks.get_root_hash::<TC, _>(&db).await?;
        let mut proof = azks.get_non_membership_proof::<TC, _>(&db, lbl(0x40)).await?;
        if verify_nonmembership_for_tests_only::<TC>(root_hash, &proof).is_err() || proof.longest_prefix.label_len != 0 {
            return Err(AkdError::TestErr("d1: honest proof did not verify / unexpected anchor".to_string()));
        }
        proof.label = lbl(0x00);
        Ok(verify_nonmembership_for_tests_only::<TC>(root_hash, &proof).is_ok())
    }

    /// D2 (C09): does the auditor accept a transition that deletes a subtree (overlapping node set)?
    pub async fn d2_auditor_overlap<TC: Configuration>() -> Result<bool, AkdError> {
        let db = StorageManager::new_no_cache(AsyncInMemoryDatabase::new());
        let mut azks = Azks::new::<TC, _>(&db).await?;
        azks.batch_insert_nodes::<TC, _>(&db, vec![el(0x00, 1), el(0x20, 2), el(0x80, 3)], InsertMode::Directory, AzksParallelismConfig::disabled()).await?;
        let start_hash = azks.get_root_hash::<TC, _>(&db).await?;
        let root = TreeNode::get_from_storage(&db, &NodeKey(NodeLabel::root()), 1).await?;
        let left = root.get_child_node(&db, crate::Direction::Left, 1).await?.unwrap();
        let right = root.get_child_node(&db, crate::Direction::Right, 1).await?.unwrap();
        let unchanged = vec![
            AzksElement { label: left.label, value: node_to_azks_value::<TC>(&Some(left.clone()), NodeHashingMode::WithLeafEpoch) },
            AzksElement { label: right.label, value: node_to_azks_value::<TC>(&Some(right.clone()), NodeHashingMode::WithLeafEpoch) },
        ];
        let x = el(0x10, 9);
        let proof = SingleAppendOnlyProof { inserted: vec![x], unchanged_nodes: unchanged.clone() };
        // end hash chosen by the server: what remains when the subtree under "00" is shadowed by the new leaf x
        // (computed here with the library's own insertion, which silently drops the shadowed element)
        let m2 = StorageManager::new_no_cache(AsyncInMemoryDatabase::new());
        let mut a2 = Azks::new::<TC, _>(&m2).await?;
        a2.latest_epoch = 1;
        let mut set = unchanged.clone();
        set.push(AzksElement { label: x.label, value: AzksValue(TC::hash_leaf_with_commitment(x.value, 2).0) });
        a2.batch_insert_nodes::<TC, _>(&m2, set, InsertMode::Auditor, AzksParallelismConfig::disabled()).await?;
        let end_hash = a2.get_root_hash::<TC, _>(&m2).await?;
        if end_hash == start_hash {
            return Err(AkdError::TestErr("d2: degenerate".to_string()));
        }
        let r = verify_consecutive_append_only::<TC>(&proof, start_hash, end_hash, 2).await;
        Ok(r.is_ok())
    }

    /// D3 (C13): a reader whose view is `lag` epochs behind storage asks for the epoch hash.
    /// Returns Ok(Some(true)) if it got a WRONG hash for its epoch, Ok(Some(false)) if the right one, Ok(None) on error.
    pub async fn d3_lagging_reader<TC: Configuration>(lag: u64) -> Result<Option<bool>, AkdError> {
        let db = AsyncInMemoryDatabase::new();
        let storage = StorageManager::new_no_cache(db.clone());
        let akd = Directory::<TC, _, _>::new(storage, HardCodedAkdVRF {}, AzksParallelismConfig::disabled()).await?;
        akd.publish(vec![(AkdLabel::from("a"), AkdValue::from("1"))]).await?;
        let h1 = akd.get_epoch_hash().await?;
        let checkpoint = akd.retrieve_azks().await?;
        for k in 0..lag {
            akd.publish(vec![(AkdLabel::from("a"), AkdValue(format!("v{}", k + 2).into_bytes()))]).await?;
        }
        db.set(DbRecord::Azks(checkpoint)).await.map_err(AkdError::Storage)?;
        let ro = ReadOnlyDirectory::<TC, _, _>::new(StorageManager::new_no_cache(db.clone()), HardCodedAkdVRF {}, AzksParallelismConfig::disabled()).await?;
        match ro.get_epoch_hash().await {
            Err(_) => Ok(None),
            Ok(e) => Ok(Some(!(e.0 == h1.0 && e.1 == h1.1))),
        }
    }

    /// D4 (C08): under one root and epoch E, does lookup(version m) verify AND a complete history with latest n verify?
    /// Tree content is whatever a dishonest server likes: fresh 1..=n and m, stale 1..n-1.
    pub async fn d4_lookup_vs_history<TC: Configuration>(n: u64, m: u64, current_epoch: u64) -> Result<(bool, bool), AkdError> {
        let vrf = HardCodedAkdVRF {};
        let pk = vrf.get_vrf_public_key().await?;
        let ck = TC::hash(&vrf.retrieve().await?);
        let user = AkdLabel::from("u");
        let val = |v: u64| AkdValue(format!("value{v}").into_bytes());
        let mut set = vec![];
        let mut fresh_versions: Vec<u64> = (1..=n).collect();
        fresh_versions.push(m);
        let mlog = 1u64 << (63 - m.leading_zeros() as u64);
        if !fresh_versions.contains(&mlog) {
            fresh_versions.push(mlog);
        }
        for v in fresh_versions.iter().copied() {
            let l = vrf.get_node_label::<TC>(&user, VersionFreshness::Fresh, v).await?;
            set.push(AzksElement { label: l, value: TC::compute_fresh_azks_value(&ck, &l, v, &val(v)) });
        }
        for v in 1..n {
            let l = vrf.get_node_label::<TC>(&user, VersionFreshness::Stale, v).await?;
            set.push(AzksElement { label: l, value: TC::stale_azks_value() });
        }
        let db = StorageManager::new_no_cache(AsyncInMemoryDatabase::new());
        let mut azks = Azks::new::<TC, _>(&db).await?;
        azks.batch_insert_nodes::<TC, _>(&db, set, InsertMode::Directory, AzksParallelismConfig::disabled()).await?;
        let root_hash = azks.get_root_hash::<TC, _>(&db).await?;
        let fresh = |v: u64| vrf.get_node_label::<TC>(&user, VersionFreshness::Fresh, v);
        let stale = |v: u64| vrf.get_node_label::<TC>(&user, VersionFreshness::Stale, v);
        let pf = |f: VersionFreshness, v: u64| vrf.get_label_proof::<TC>(&user, f, v);

        let lm = fresh(m).await?;
        let lookup = LookupProof {
            epoch: 1,
            value: val(m),
            version: m,
            existence_vrf_proof: pf(VersionFreshness::Fresh, m).await?.to_bytes().to_vec(),
            existence_proof: azks.get_membership_proof::<TC, _>(&db, lm).await?,
            marker_vrf_proof: pf(VersionFreshness::Fresh, mlog).await?.to_bytes().to_vec(),
            marker_proof: azks.get_membership_proof::<TC, _>(&db, fresh(mlog).await?).await?,
            freshness_vrf_proof: pf(VersionFreshness::Stale, m).await?.to_bytes().to_vec(),
            freshness_proof: azks.get_non_membership_proof::<TC, _>(&db, stale(m).await?).await?,
            commitment_nonce: TC::get_commitment_nonce(&ck, &lm, m, &val(m)).to_vec(),
        };
        let lr = lookup_verify::<TC>(pk.as_bytes(), root_hash, current_epoch, user.clone(), lookup);

        let mut update_proofs = vec![];
        for v in (1..=n).rev() {
            let lv = fresh(v).await?;
            let (pvp, pp) = if v > 1 {
                (Some(pf(VersionFreshness::Stale, v - 1).await?.to_bytes().to_vec()),
                 Some(azks.get_membership_proof::<TC, _>(&db, stale(v - 1).await?).await?))
            } else { (None, None) };
            update_proofs.push(UpdateProof {
                epoch: 1, value: val(v), version: v,
                existence_vrf_proof: pf(VersionFreshness::Fresh, v).await?.to_bytes().to_vec(),
                existence_proof: azks.get_membership_proof::<TC, _>(&db, lv).await?,
                previous_version_vrf_proof: pvp, previous_version_proof: pp,
                commitment_nonce: TC::get_commitment_nonce(&ck, &lv, v, &val(v)).to_vec(),
            });
        }
        let (past, future) = akd_core::utils::get_marker_versions(1, n, current_epoch);
        let mut fv = vec![]; let mut fp = vec![];
        for v in future { fv.push(pf(VersionFreshness::Fresh, v).await?.to_bytes().to_vec()); fp.push(azks.get_non_membership_proof::<TC, _>(&db, fresh(v).await?).await?); }
        let mut pv = vec![]; let mut pp = vec![];
        for v in past { pv.push(pf(VersionFreshness::Fresh, v).await?.to_bytes().to_vec()); pp.push(azks.get_membership_proof::<TC, _>(&db, fresh(v).await?).await?); }
        let history = HistoryProof { update_proofs, past_marker_vrf_proofs: pv, existence_of_past_marker_proofs: pp, future_marker_vrf_proofs: fv, non_existence_of_future_marker_proofs: fp };
        let hr = key_history_verify::<TC>(pk.as_bytes(), root_hash, current_epoch, user.clone(), history, HistoryVerificationParams::Default { history_params: HistoryParams::Complete });
        let l_ok = matches!(&lr, Ok(r) if r.version == m);
        let h_ok = matches!(&hr, Ok(r) if !r.is_empty() && r[0].version == n);
        Ok((l_ok, h_ok))
    }

    /// C05 scan: for a leaf set (16-bit patterns extended with zeros to 256 bits) and a query label, every node on the
    /// root path that the server could claim as "longest prefix": returns (anchor_len, is_deepest, accepted) per candidate,
    /// plus whether the query is a member. Proofs are assembled from real nodes (get_non_membership_proof of the
    /// anchor's own label, then re-targeted at the query label).
    pub async fn c05_anchor_scan<TC: Configuration>(leaves: &[u16], query: u16) -> Result<(bool, Vec<(u32, bool, bool)>), AkdError> {
        fn l16(p: u16) -> NodeLabel {
            let mut v = [0u8; 32];
            v[0] = (p >> 8) as u8;
            v[1] = (p & 0xff) as u8;
            NodeLabel::new(v, 256)
        }
        let db = StorageManager::new_no_cache(AsyncInMemoryDatabase::new());
        let mut azks = Azks::new::<TC, _>(&db).await?;
        let set: Vec<AzksElement> = leaves.iter().enumerate().map(|(i, p)| AzksElement { label: l16(*p), value: AzksValue([(i + 1) as u8; 32]) }).collect();
        azks.batch_insert_nodes::<TC, _>(&db, set, InsertMode::Directory, AzksParallelismConfig::disabled()).await?;
        let root_hash = azks.get_root_hash::<TC, _>(&db).await?;
        let q = l16(query);
        let member = leaves.contains(&query);
        // the deepest matching node = anchor of the honest proof
        let honest = azks.get_non_membership_proof::<TC, _>(&db, q).await?;
        let deepest_len = honest.longest_prefix.label_len;
        if std::env::var("VX_DEBUG").is_ok() { eprintln!("honest: lp_len={} sibs={} res={:?}", deepest_len, honest.longest_prefix_membership_proof.sibling_proofs.len(), verify_nonmembership_for_tests_only::<TC>(root_hash, &honest).is_ok()); }
        let mut res = vec![];
        let mut seen = std::collections::BTreeSet::new();
        for k in 0..=256u32 {
            let cand = q.get_prefix(k);
            let mut p = match azks.get_non_membership_proof::<TC, _>(&db, cand).await { Ok(p) => p, Err(_) => continue };
            if p.longest_prefix != cand || !seen.insert(k) { continue; }
            if k == 256 { continue; } // the leaf itself is not an anchor candidate with two children
            p.label = q;
            let vr = verify_nonmembership_for_tests_only::<TC>(root_hash, &p);
            if std::env::var("VX_DEBUG").is_ok() { eprintln!("k={k} sibs={} hash_eq={} lp_len={} children=({},{}) res={:?}", p.longest_prefix_membership_proof.sibling_proofs.len(), p.longest_prefix_membership_proof.hash_val == honest.longest_prefix_membership_proof.hash_val, p.longest_prefix.label_len, p.longest_prefix_children[0].label.label_len, p.longest_prefix_children[1].label.label_len, vr); }
            let accepted = vr.is_ok();
            res.push((k, !member && k == deepest_len, accepted));
        }
        Ok((member, res))
    }

    /// C15: the bulk versions query inside a transaction vs. the same query after commit.
    /// db holds (user, epoch e_db, version v_db, "A"); the transaction holds (user, epoch e_t, version v_t, "B").
    /// flag_code: 0 MaxEpoch, 1 MinEpoch, 2 LeqEpoch(100), 3 SpecificEpoch(e_t), 4 SpecificVersion(v_t).
    /// Returns ((version, value) inside the transaction, (version, value) after commit), None = no entry.
    pub async fn c15_bulk_versions(e_db: u64, v_db: u64, e_t: u64, v_t: u64, flag_code: u8)
        -> Result<(Option<(u64, Vec<u8>)>, Option<(u64, Vec<u8>)>), AkdError> {
        use crate::storage::types::{ValueState, ValueStateRetrievalFlag};
        let db = AsyncInMemoryDatabase::new();
        let m = StorageManager::new_no_cache(db.clone());
        let user = AkdLabel::from("u");
        let st = |e: u64, v: u64, val: &str| DbRecord::ValueState(ValueState {
            value: AkdValue(val.as_bytes().to_vec()), version: v, label: NodeLabel::new([1u8; 32], 256), epoch: e, username: user.clone() });
        m.set(st(e_db, v_db, "A")).await.map_err(AkdError::Storage)?;
        if !m.begin_transaction() { return Err(AkdError::TestErr("no txn".to_string())); }
        m.set(st(e_t, v_t, "B")).await.map_err(AkdError::Storage)?;
        m.set(DbRecord::Azks(Azks { latest_epoch: e_t.max(e_db), num_nodes: 1 })).await.map_err(AkdError::Storage)?;
        let flag = match flag_code {
            0 => ValueStateRetrievalFlag::MaxEpoch,
            1 => ValueStateRetrievalFlag::MinEpoch,
            2 => ValueStateRetrievalFlag::LeqEpoch(100),
            3 => ValueStateRetrievalFlag::SpecificEpoch(e_t),
            _ => ValueStateRetrievalFlag::SpecificVersion(v_t),
        };
        let keys = vec![user.clone()];
        let inside = m.get_user_state_versions(&keys, flag).await.map_err(AkdError::Storage)?;
        let a = inside.get(&user).map(|(v, val)| (*v, val.0.clone()));
        m.commit_transaction().await.map_err(AkdError::Storage)?;
        let after = m.get_user_state_versions(&keys, flag).await.map_err(AkdError::Storage)?;
        let b = after.get(&user).map(|(v, val)| (*v, val.0.clone()));
        Ok((a, b))
    }

    /// C17 (set operations): the sorted (binary-searchable) and the unsorted code path of AzksElementSet on the same labels.
    /// Returns for (labels, prefix): ((left, right) of partition as label lists for both variants, lcp for both, contains_prefix for both).
    pub fn c17_set_ops<TC: Configuration>(labels: &[NodeLabel], prefix: NodeLabel)
        -> ((Vec<NodeLabel>, Vec<NodeLabel>), (Vec<NodeLabel>, Vec<NodeLabel>), NodeLabel, NodeLabel, bool, bool, bool) {
        use crate::append_only_zks::AzksElementSet;
        let nodes: Vec<AzksElement> = labels.iter().map(|l| AzksElement { label: *l, value: AzksValue([0u8; 32]) }).collect();
        let auto = AzksElementSet::from(nodes.clone());
        let is_sorted_variant = matches!(auto, AzksElementSet::BinarySearchable(_));
        let unsorted = AzksElementSet::Unsorted(nodes);
        let lcp_a = auto.get_longest_common_prefix::<TC>();
        let lcp_u = unsorted.get_longest_common_prefix::<TC>();
        let cp_a = auto.contains_prefix(&prefix);
        let cp_u = unsorted.contains_prefix(&prefix);
        let (la, ra) = auto.partition(prefix);
        let (lu, ru) = unsorted.partition(prefix);
        let ls = |s: &AzksElementSet| s.iter().map(|e| e.label).collect::<Vec<_>>();
        ((ls(&la), ls(&ra)), (ls(&lu), ls(&ru)), lcp_a, lcp_u, cp_a, cp_u, is_sorted_variant)
    }

    // ---- C16: a database that can be told to reject writes
    use crate::storage::types::{KeyData, ValueState, ValueStateRetrievalFlag};
    use crate::storage::{DbSetState, Storable};
    use crate::errors::StorageError;
    use std::collections::HashMap;
    use std::sync::atomic::{AtomicBool, Ordering};
    use std::sync::Arc;

    #[derive(Clone)]
    pub struct RejectingDb { inner: AsyncInMemoryDatabase, reject: Arc<AtomicBool> }
    #[async_trait::async_trait]
    impl Database for RejectingDb {
        async fn set(&self, record: DbRecord) -> Result<(), StorageError> {
            if self.reject.load(Ordering::SeqCst) { return Err(StorageError::Connection("write rejected".to_string())); }
            self.inner.set(record).await
        }
        async fn batch_set(&self, records: Vec<DbRecord>, state: DbSetState) -> Result<(), StorageError> {
            if self.reject.load(Ordering::SeqCst) { return Err(StorageError::Connection("write rejected".to_string())); }
            self.inner.batch_set(records, state).await
        }
        async fn get<St: Storable>(&self, id: &St::StorageKey) -> Result<DbRecord, StorageError> { self.inner.get::<St>(id).await }
        async fn batch_get<St: Storable>(&self, ids: &[St::StorageKey]) -> Result<Vec<DbRecord>, StorageError> { self.inner.batch_get::<St>(ids).await }
        async fn get_user_data(&self, username: &AkdLabel) -> Result<KeyData, StorageError> { self.inner.get_user_data(username).await }
        async fn get_user_state(&self, username: &AkdLabel, flag: ValueStateRetrievalFlag) -> Result<ValueState, StorageError> { self.inner.get_user_state(username, flag).await }
        async fn get_user_state_versions(&self, usernames: &[AkdLabel], flag: ValueStateRetrievalFlag) -> Result<HashMap<AkdLabel, (u64, AkdValue)>, StorageError> {
            self.inner.get_user_state_versions(usernames, flag).await
        }
    }

    /// C16 witness: through ONE cached storage manager, write a record that the database REJECTS (path 0: set, 1: batch_set,
    /// 2: transaction commit), then read it back through the manager and directly from the database.
    /// Returns (epoch the manager's read reports, epoch the database holds): they must be equal.
    pub async fn c16_rejected_write(path: u8) -> Result<(u64, u64), AkdError> {
        let reject = Arc::new(AtomicBool::new(false));
        let db = RejectingDb { inner: AsyncInMemoryDatabase::new(), reject: reject.clone() };
        let m = StorageManager::new(db.clone(), None, None, None);
        m.set(DbRecord::Azks(Azks { latest_epoch: 1, num_nodes: 1 })).await.map_err(AkdError::Storage)?;
        let newer = DbRecord::Azks(Azks { latest_epoch: 2, num_nodes: 1 });
        reject.store(true, Ordering::SeqCst);
        let w = match path {
            0 => m.set(newer).await,
            1 => m.batch_set(vec![newer]).await,
            _ => {
                if !m.begin_transaction() { return Err(AkdError::TestErr("no txn".to_string())); }
                m.set(newer).await.map_err(AkdError::Storage)?;
                m.commit_transaction().await.map(|_| ())
            }
        };
        if w.is_ok() { return Err(AkdError::TestErr("the write was not rejected".to_string())); }
        reject.store(false, Ordering::SeqCst);
        let via_manager = match m.get::<Azks>(&crate::append_only_zks::DEFAULT_AZKS_KEY).await.map_err(AkdError::Storage)? { DbRecord::Azks(a) => a.latest_epoch, _ => 0 };
        let in_db = match db.get::<Azks>(&crate::append_only_zks::DEFAULT_AZKS_KEY).await.map_err(AkdError::Storage)? { DbRecord::Azks(a) => a.latest_epoch, _ => 0 };
        Ok((via_manager, in_db))
    }

    /// C16 witness: through ONE cached storage manager, write the epoch record of epoch 5, then (path 0: set, 1: batch_set, 2: transaction
    /// commit) an epoch record with a SMALLER epoch - any sequence of writes is allowed -, then read it back through the manager and
    /// directly from the database. Returns (epoch the manager's read reports, epoch the database holds): they must be equal.
    pub async fn c16_lower_epoch_write(path: u8) -> Result<(u64, u64), AkdError> {
        let db = AsyncInMemoryDatabase::new();
        let m = StorageManager::new(db.clone(), None, None, None);
        m.set(DbRecord::Azks(Azks { latest_epoch: 5, num_nodes: 12 })).await.map_err(AkdError::Storage)?;
        let _ = m.get::<Azks>(&crate::append_only_zks::DEFAULT_AZKS_KEY).await.map_err(AkdError::Storage)?;
        let older = DbRecord::Azks(Azks { latest_epoch: 3, num_nodes: 7 });
        match path {
            0 => m.set(older).await.map_err(AkdError::Storage)?,
            1 => m.batch_set(vec![older]).await.map_err(AkdError::Storage)?,
            _ => {
                if !m.begin_transaction() { return Err(AkdError::TestErr("no txn".to_string())); }
                m.set(older).await.map_err(AkdError::Storage)?;
                m.commit_transaction().await.map(|_| ()).map_err(AkdError::Storage)?
            }
        };
        let via_manager = match m.get::<Azks>(&crate::append_only_zks::DEFAULT_AZKS_KEY).await.map_err(AkdError::Storage)? { DbRecord::Azks(a) => a.latest_epoch, _ => 0 };
        let in_db = match db.get::<Azks>(&crate::append_only_zks::DEFAULT_AZKS_KEY).await.map_err(AkdError::Storage)? { DbRecord::Azks(a) => a.latest_epoch, _ => 0 };
        Ok((via_manager, in_db))
    }

    // ---- C10: fault injection at every database operation of a publish
    #[derive(Clone)]
    pub struct FaultyDb { inner: AsyncInMemoryDatabase, ops: Arc<std::sync::atomic::AtomicI64>, fail_at: Arc<std::sync::atomic::AtomicI64> }
    impl FaultyDb {
        fn tick(&self, what: &str) -> Result<(), StorageError> {
            let n = self.ops.fetch_add(1, Ordering::SeqCst);
            if n == self.fail_at.load(Ordering::SeqCst) { Err(StorageError::Connection(format!("injected fault at database operation {n} ({what})"))) } else { Ok(()) }
        }
    }
    #[async_trait::async_trait]
    impl Database for FaultyDb {
        async fn set(&self, record: DbRecord) -> Result<(), StorageError> { self.tick("set")?; self.inner.set(record).await }
        async fn batch_set(&self, records: Vec<DbRecord>, state: DbSetState) -> Result<(), StorageError> { self.tick("batch_set")?; self.inner.batch_set(records, state).await }
        async fn get<St: Storable>(&self, id: &St::StorageKey) -> Result<DbRecord, StorageError> { self.tick("get")?; self.inner.get::<St>(id).await }
        async fn batch_get<St: Storable>(&self, ids: &[St::StorageKey]) -> Result<Vec<DbRecord>, StorageError> { self.tick("batch_get")?; self.inner.batch_get::<St>(ids).await }
        async fn get_user_data(&self, username: &AkdLabel) -> Result<KeyData, StorageError> { self.tick("get_user_data")?; self.inner.get_user_data(username).await }
        async fn get_user_state(&self, username: &AkdLabel, flag: ValueStateRetrievalFlag) -> Result<ValueState, StorageError> { self.tick("get_user_state")?; self.inner.get_user_state(username, flag).await }
        async fn get_user_state_versions(&self, usernames: &[AkdLabel], flag: ValueStateRetrievalFlag) -> Result<HashMap<AkdLabel, (u64, AkdValue)>, StorageError> {
            self.tick("get_user_state_versions")?; self.inner.get_user_state_versions(usernames, flag).await
        }
    }
    pub struct C10Outcome {
        pub ops_in_publish: i64, pub publish_err: Option<String>, pub epoch_before: u64, pub epoch_after: u64, pub hash_unchanged: bool,
        pub txn_left_open: bool, pub old_value_still_proved: bool, pub retry_ok: bool, pub final_matches_reference: bool,
    }
    fn c10_batch(i: usize) -> Vec<(AkdLabel, AkdValue)> {
        let kv = |k: &str, v: &str| (AkdLabel::from(k), AkdValue::from(v));
        match i {
            0 => vec![kv("a", "a1"), kv("b", "b1"), kv("e", "e1"), kv("f", "f1"), kv("g", "g1"), kv("h", "h1")],
            1 => vec![kv("a", "a2"), kv("c", "c1"), kv("e", "e2"), kv("i", "i1"), kv("j", "j1")],
            _ => vec![kv("b", "b2"), kv("d", "d1")],
        }
    }
    /// C10 witness: publish batch 0, then publish batch 1 while the k-th database operation of that call fails (k counted from 0 over
    /// reads and writes; k beyond the number of operations = no fault), with (`cache`) or without the object cache; then observe the
    /// directory through the same instance, retry the publish and compare with a fault-free reference run.
    pub static C10_COLD_CACHE: AtomicBool = AtomicBool::new(false);
    pub async fn c10_fault_at<TC: Configuration>(cache: bool, k: i64, retry_other: bool, parallel: bool) -> Result<C10Outcome, AkdError> {
        let par = || if parallel { AzksParallelismConfig::default() } else { AzksParallelismConfig::disabled() };
        use std::sync::atomic::AtomicI64;
        let mk = |db: FaultyDb| if cache { StorageManager::new(db, None, None, None) } else { StorageManager::new_no_cache(db) };
        let vrf = HardCodedAkdVRF {};
        // reference
        let rdb = FaultyDb { inner: AsyncInMemoryDatabase::new(), ops: Arc::new(AtomicI64::new(0)), fail_at: Arc::new(AtomicI64::new(-1)) };
        let rdir = Directory::<TC, _, _>::new(mk(rdb), vrf.clone(), par()).await?;
        rdir.publish(c10_batch(0)).await?;
        let reference_ok = rdir.publish(c10_batch(1)).await?;
        let reference = rdir.get_epoch_hash().await?;
        // reference for "the failed call had never been made" followed by a DIFFERENT batch
        let odb = FaultyDb { inner: AsyncInMemoryDatabase::new(), ops: Arc::new(AtomicI64::new(0)), fail_at: Arc::new(AtomicI64::new(-1)) };
        let odir = Directory::<TC, _, _>::new(mk(odb), vrf.clone(), par()).await?;
        odir.publish(c10_batch(0)).await?;
        odir.publish(c10_batch(2)).await?;
        let reference_other = odir.get_epoch_hash().await?;
        // faulty run
        let db = FaultyDb { inner: AsyncInMemoryDatabase::new(), ops: Arc::new(AtomicI64::new(0)), fail_at: Arc::new(AtomicI64::new(-1)) };
        let storage = mk(db.clone());
        let dir = Directory::<TC, _, _>::new(storage.clone(), vrf.clone(), par()).await?;
        dir.publish(c10_batch(0)).await?;
        let before = dir.get_epoch_hash().await?;
        if C10_COLD_CACHE.load(Ordering::SeqCst) { storage.flush_cache().await; }   // cached manager whose cache is cold at the faulty call
        db.ops.store(0, Ordering::SeqCst);
        db.fail_at.store(k, Ordering::SeqCst);
        let r = dir.publish(c10_batch(1)).await;
        let ops_in_publish = db.ops.load(Ordering::SeqCst);
        db.fail_at.store(-1, Ordering::SeqCst);
        for _ in 0..64 { tokio::task::yield_now().await; }   // anything the call left running gets its chance to run
        let txn_left_open = storage.is_transaction_active();
        let after = dir.get_epoch_hash().await?;
        let pk = dir.get_public_key().await?;
        let old_value_still_proved = match dir.lookup(AkdLabel::from("a")).await {
            Ok((proof, eh)) => match lookup_verify::<TC>(pk.as_bytes(), eh.hash(), eh.epoch(), AkdLabel::from("a"), proof) {
                Ok(res) => eh.epoch() == before.epoch() && res.value == AkdValue::from("a1") && res.version == 1,
                Err(_) => false,
            },
            Err(_) => false,
        };
        // a publish that returned Ok although an operation failed must have produced exactly the fault-free state
        if r.is_ok() && (after.epoch() != reference_ok.epoch() || after.hash() != reference_ok.hash()) {
            return Ok(C10Outcome { ops_in_publish, publish_err: None, epoch_before: before.epoch(), epoch_after: after.epoch(), hash_unchanged: false,
                txn_left_open, old_value_still_proved: false, retry_ok: true, final_matches_reference: false });
        }
        let (retry, want) = if retry_other && r.is_err() { (dir.publish(c10_batch(2)).await, reference_other) } else { (dir.publish(c10_batch(1)).await, reference) };
        let reference = want;
        let fin = dir.get_epoch_hash().await?;
        Ok(C10Outcome {
            ops_in_publish, publish_err: r.as_ref().err().map(|e| e.to_string()), epoch_before: before.epoch(), epoch_after: after.epoch(),
            hash_unchanged: before.hash() == after.hash(), txn_left_open, old_value_still_proved, retry_ok: retry.is_ok(),
            final_matches_reference: fin.epoch() == reference.epoch() && fin.hash() == reference.hash(),
        })
    }

    /// C09 chain witness: directory A publishes {a,b} then {c}; directory B publishes {b} then {c} (it never held a). The audit
    /// (hashes of A for epochs 0,1 - then B's hash for epoch 2; proof 0->1 from A, proof 1->2 from B) claims a history in which
    /// epoch 2 does not descend from epoch 1. Returns Ok(true) iff audit_verify ACCEPTS it; every proof of a chain must reproduce ITS start hash.
    pub async fn c09_chain_splice<TC: Configuration>() -> Result<bool, AkdError> {
        let vrf = HardCodedAkdVRF {};
        let kv = |k: &str, v: &str| (AkdLabel::from(k), AkdValue::from(v));
        let a = Directory::<TC, _, _>::new(StorageManager::new_no_cache(AsyncInMemoryDatabase::new()), vrf.clone(), AzksParallelismConfig::disabled()).await?;
        let b = Directory::<TC, _, _>::new(StorageManager::new_no_cache(AsyncInMemoryDatabase::new()), vrf.clone(), AzksParallelismConfig::disabled()).await?;
        let h0 = a.get_epoch_hash().await?;
        let a1 = a.publish(vec![kv("a", "1"), kv("b", "1")]).await?;
        let a2 = a.publish(vec![kv("c", "1")]).await?;
        let _ = b.publish(vec![kv("b", "1")]).await?;
        let b2 = b.publish(vec![kv("c", "1")]).await?;
        let pa = a.audit(0, 2).await?;
        let pb = b.audit(1, 2).await?;
        // honest chain of A verifies
        if crate::auditor::audit_verify::<TC>(vec![h0.hash(), a1.hash(), a2.hash()], pa.clone()).await.is_err() {
            return Err(AkdError::TestErr("c09 chain: the honest audit did not verify".to_string()));
        }
        let spliced = crate::AppendOnlyProof { proofs: vec![pa.proofs[0].clone(), pb.proofs[0].clone()], epochs: vec![0, 1] };
        Ok(crate::auditor::audit_verify::<TC>(vec![h0.hash(), a1.hash(), b2.hash()], spliced).await.is_ok())
    }

    /// C05 completeness on the EMPTY tree: does the server's non-membership proof for a label verify against the empty tree's root hash?
    /// Returns Ok(true) iff the verifier accepts it.
    pub async fn c05_empty_tree_nonmembership<TC: Configuration>() -> Result<bool, AkdError> {
        let db = StorageManager::new_no_cache(AsyncInMemoryDatabase::new());
        let azks = Azks::new::<TC, _>(&db).await?;
        let root_hash = azks.get_root_hash::<TC, _>(&db).await?;
        let proof = azks.get_non_membership_proof::<TC, _>(&db, lbl(0x40)).await?;
        Ok(verify_nonmembership_for_tests_only::<TC>(root_hash, &proof).is_ok())
    }

    /// C05 (known finding D15): a membership "proof" with NO sibling proofs whose hash value is the root node's value verifies for ANY
    /// label - the label of a sibling-less proof is bound by nothing (the root hash commits to the root's value, not to a label).
    /// Returns Ok(true) iff verify_membership accepts (absent 256-bit label, root value, []) against the real root hash.
    pub async fn c05_zero_sibling_membership<TC: Configuration>() -> Result<bool, AkdError> {
        let db = StorageManager::new_no_cache(AsyncInMemoryDatabase::new());
        let mut azks = Azks::new::<TC, _>(&db).await?;
        azks.batch_insert_nodes::<TC, _>(&db, vec![el(0x00, 1), el(0x20, 2), el(0x80, 3)], InsertMode::Directory, AzksParallelismConfig::disabled()).await?;
        let root_hash = azks.get_root_hash::<TC, _>(&db).await?;
        let root = TreeNode::get_from_storage(&db, &NodeKey(NodeLabel::root()), azks.get_latest_epoch()).await?;
        let forged = crate::MembershipProof { label: lbl(0x40), hash_val: root.hash, sibling_proofs: vec![] };
        Ok(crate::client::verify_membership_for_tests_only::<TC>(root_hash, &forged).is_ok())
    }

    /// C15 (all-states read): database holds (user, epoch e_db, "A"), the transaction holds (user, epoch e_t, "B") - the same epoch is a
    /// pending REWRITE of a committed record. Returns the (epoch, value) lists of get_user_data inside the transaction and after commit (sorted).
    pub async fn c15_user_data(e_db: u64, e_t: u64) -> Result<(Vec<(u64, Vec<u8>)>, Vec<(u64, Vec<u8>)>), AkdError> {
        use crate::storage::types::ValueState;
        let db = AsyncInMemoryDatabase::new();
        let m = StorageManager::new_no_cache(db.clone());
        let user = AkdLabel::from("u");
        let st = |e: u64, v: u64, val: &str| DbRecord::ValueState(ValueState {
            value: AkdValue(val.as_bytes().to_vec()), version: v, label: NodeLabel::new([1u8; 32], 256), epoch: e, username: user.clone() });
        m.set(st(e_db, 1, "A")).await.map_err(AkdError::Storage)?;
        if !m.begin_transaction() { return Err(AkdError::TestErr("no txn".to_string())); }
        m.set(st(e_t, if e_t == e_db { 1 } else { 2 }, "B")).await.map_err(AkdError::Storage)?;
        m.set(DbRecord::Azks(Azks { latest_epoch: e_t.max(e_db), num_nodes: 1 })).await.map_err(AkdError::Storage)?;
        let norm = |k: crate::storage::types::KeyData| { let mut v: Vec<(u64, Vec<u8>)> = k.states.into_iter().map(|s| (s.epoch, s.value.0)).collect(); v.sort(); v };
        let inside = norm(m.get_user_data(&user).await.map_err(AkdError::Storage)?);
        m.commit_transaction().await.map_err(AkdError::Storage)?;
        let after = norm(m.get_user_data(&user).await.map_err(AkdError::Storage)?);
        Ok((inside, after))
    }

    /// C15 (several pending states of ONE user in one transaction, values NOT ordered like their epochs): every single-state query and
    /// the bulk versions query inside the transaction vs the same query after commit. Returns descriptions of what differs.
    pub async fn c15_many_pending(cache: bool) -> Result<Vec<String>, AkdError> {
        use crate::storage::types::{ValueState, ValueStateRetrievalFlag as F};
        let db = AsyncInMemoryDatabase::new();
        let m = if cache { StorageManager::new(db.clone(), None, None, None) } else { StorageManager::new_no_cache(db.clone()) };
        let user = AkdLabel::from("u");
        let st = |e: u64, v: u64, val: &str| DbRecord::ValueState(ValueState {
            value: AkdValue(val.as_bytes().to_vec()), version: v, label: NodeLabel::new([v as u8; 32], 256), epoch: e, username: user.clone() });
        m.set(st(1, 1, "m")).await.map_err(AkdError::Storage)?;
        if !m.begin_transaction() { return Err(AkdError::TestErr("no txn".to_string())); }
        // pending: epochs 2, 3, 4 with values that sort the other way round
        for (e, v, val) in [(2u64, 2u64, "zz"), (3, 3, "kk"), (4, 4, "aa")] { m.set(st(e, v, val)).await.map_err(AkdError::Storage)?; }
        m.set(DbRecord::Azks(Azks { latest_epoch: 4, num_nodes: 1 })).await.map_err(AkdError::Storage)?;
        let flags = [F::MaxEpoch, F::MinEpoch, F::LeqEpoch(1), F::LeqEpoch(2), F::LeqEpoch(3), F::LeqEpoch(9), F::SpecificEpoch(3), F::SpecificVersion(2)];
        let mut inside = vec![];
        for f in flags.iter() {
            let a = m.get_user_state(&user, *f).await.ok().map(|s| (s.epoch, s.version, s.value.0));
            let b = m.get_user_state_versions(&[user.clone()], *f).await.ok().and_then(|mut h| h.remove(&user)).map(|(v, val)| (v, val.0));
            inside.push((a, b));
        }
        m.commit_transaction().await.map_err(AkdError::Storage)?;
        let mut bad = vec![];
        for (i, f) in flags.iter().enumerate() {
            let a = m.get_user_state(&user, *f).await.ok().map(|s| (s.epoch, s.version, s.value.0));
            let b = m.get_user_state_versions(&[user.clone()], *f).await.ok().and_then(|mut h| h.remove(&user)).map(|(v, val)| (v, val.0));
            if inside[i].0 != a { bad.push(format!("get_user_state({f:?}) answered {:?} inside the transaction and {:?} after the commit", inside[i].0, a)); }
            if inside[i].1 != b { bad.push(format!("get_user_state_versions({f:?}) answered {:?} inside the transaction and {:?} after the commit", inside[i].1, b)); }
        }
        Ok(bad)
    }
    /// C15 (rollback discards every pending write, also through the cache): committed node N and epoch record; in a transaction write
    /// a different node under N's key, a new node and a newer epoch record through the path `which` (0: set, 1: batch_set); roll back;
    /// read all three through the manager. Returns descriptions of what is not the committed state.
    pub async fn c15_rollback_with_cache(cache: bool, which: u8) -> Result<Vec<String>, AkdError> {
        let db = AsyncInMemoryDatabase::new();
        let m = if cache { StorageManager::new(db.clone(), None, None, None) } else { StorageManager::new_no_cache(db.clone()) };
        let node = |first: u8, tag: u8| {
            let mut n = crate::tree_node::new_leaf_node::<akd_core::WhatsAppV1Configuration>(lbl(first), &AzksValue([tag; 32]), 1);
            n.last_epoch = tag as u64;
            DbRecord::TreeNode(crate::tree_node::TreeNodeWithPreviousValue::from_tree_node(n))
        };
        m.batch_set(vec![node(0x10, 1), DbRecord::Azks(Azks { latest_epoch: 1, num_nodes: 2 })]).await.map_err(AkdError::Storage)?;
        if !m.begin_transaction() { return Err(AkdError::TestErr("no txn".to_string())); }
        let pending = vec![node(0x10, 2), node(0x20, 2), DbRecord::Azks(Azks { latest_epoch: 2, num_nodes: 3 })];
        if which == 0 { for r in pending { m.set(r).await.map_err(AkdError::Storage)?; } } else { m.batch_set(pending).await.map_err(AkdError::Storage)?; }
        m.rollback_transaction().map_err(AkdError::Storage)?;
        let mut bad = vec![];
        match m.get::<crate::tree_node::TreeNodeWithPreviousValue>(&NodeKey(lbl(0x10))).await {
            Ok(DbRecord::TreeNode(t)) if t.latest_node.last_epoch == 1 => {}
            other => bad.push(format!("the rewritten node is not the committed one after the rollback: {:?}", other.map(|_| "a different record"))),
        }
        if m.get::<crate::tree_node::TreeNodeWithPreviousValue>(&NodeKey(lbl(0x20))).await.is_ok() { bad.push("a node that was only pending is readable after the rollback".to_string()); }
        match m.get::<Azks>(&crate::append_only_zks::DEFAULT_AZKS_KEY).await { Ok(DbRecord::Azks(a)) if a.latest_epoch == 1 => {}, _ => bad.push("the epoch record is not the committed one after the rollback".to_string()) }
        Ok(bad)
    }

    /// C15 (pending writes survive a refused begin): begin, set X, begin again (refused: a transaction is open), then read X through
    /// the manager and commit. Returns (second begin refused, X readable before commit, X in the database after commit).
    pub async fn c15_refused_begin() -> Result<(bool, bool, bool), AkdError> {
        let db = AsyncInMemoryDatabase::new();
        let m = StorageManager::new_no_cache(db.clone());
        if !m.begin_transaction() { return Err(AkdError::TestErr("no txn".to_string())); }
        m.set(DbRecord::Azks(Azks { latest_epoch: 7, num_nodes: 3 })).await.map_err(AkdError::Storage)?;
        let refused = !m.begin_transaction();
        let readable = matches!(m.get::<Azks>(&crate::append_only_zks::DEFAULT_AZKS_KEY).await, Ok(DbRecord::Azks(a)) if a.latest_epoch == 7);
        let _ = m.commit_transaction().await;
        let stored = matches!(db.get::<Azks>(&crate::append_only_zks::DEFAULT_AZKS_KEY).await, Ok(DbRecord::Azks(a)) if a.latest_epoch == 7);
        Ok((refused, readable, stored))
    }

    /// C16 (flush): through a cached manager only the epoch record has been touched (others = 0) or also `others` node records;
    /// the database then moves to epoch 2 behind the manager's back (another writer), the cache is flushed, the epoch record is read.
    /// Returns (epoch the manager's read reports, epoch the database holds): equal after a flush.
    pub async fn c16_flush_epoch_record(others: u8) -> Result<(u64, u64), AkdError> {
        let db = AsyncInMemoryDatabase::new();
        let m = StorageManager::new(db.clone(), None, None, None);
        m.set(DbRecord::Azks(Azks { latest_epoch: 1, num_nodes: 1 })).await.map_err(AkdError::Storage)?;
        for i in 0..others {
            let node = crate::tree_node::new_leaf_node::<crate::ExperimentalConfiguration<crate::ExampleLabel>>(lbl(i + 1), &AzksValue([i; 32]), 1);
            node.write_to_storage(&m, true).await?;
        }
        let _ = m.get::<Azks>(&crate::append_only_zks::DEFAULT_AZKS_KEY).await.map_err(AkdError::Storage)?;
        db.set(DbRecord::Azks(Azks { latest_epoch: 2, num_nodes: 1 })).await.map_err(AkdError::Storage)?;
        m.flush_cache().await;
        let via_manager = match m.get::<Azks>(&crate::append_only_zks::DEFAULT_AZKS_KEY).await.map_err(AkdError::Storage)? { DbRecord::Azks(a) => a.latest_epoch, _ => 0 };
        let in_db = match db.get::<Azks>(&crate::append_only_zks::DEFAULT_AZKS_KEY).await.map_err(AkdError::Storage)? { DbRecord::Azks(a) => a.latest_epoch, _ => 0 };
        Ok((via_manager, in_db))
    }

    /// C13 (proofs served by a reader `lag` epochs behind storage): 8 labels are published in epoch 1; `lag` further epochs each update
    /// label "b"; the epoch record is reset to epoch 1 (a reader that still holds the old epoch record); a read-only directory then
    /// answers lookup and key-history requests for every label. Each answer must be an error or verify against (1, root hash of epoch 1).
    /// Returns the list of (request, what went wrong).
    pub async fn c13_lagging_proofs<TC: Configuration>(lag: u64, cached_reader: bool) -> Result<Vec<(String, String)>, AkdError> {
        let db = AsyncInMemoryDatabase::new();
        let akd = Directory::<TC, _, _>::new(StorageManager::new_no_cache(db.clone()), HardCodedAkdVRF {}, AzksParallelismConfig::disabled()).await?;
        let names = ["a", "b", "c", "d", "e", "f", "g", "h"];
        akd.publish(names.iter().map(|n| (AkdLabel::from(*n), AkdValue::from("1"))).collect()).await?;
        let h1 = akd.get_epoch_hash().await?;
        let checkpoint = akd.retrieve_azks().await?;
        // cached reader: a second instance with an object cache that has served one lookup at epoch 1 (epoch record, root and the
        // nodes around "a" are cached) and keeps answering from that view while storage moves on
        let reader_storage = if cached_reader { StorageManager::new(db.clone(), Some(std::time::Duration::from_secs(3600)), None, Some(std::time::Duration::from_secs(3600))) } else { StorageManager::new_no_cache(db.clone()) };
        let warm = if cached_reader { Some(ReadOnlyDirectory::<TC, _, _>::new(reader_storage.clone(), HardCodedAkdVRF {}, AzksParallelismConfig::disabled()).await?) } else { None };
        if let Some(w) = &warm { let _ = w.lookup(AkdLabel::from("a")).await?; }
        for k in 0..lag {
            akd.publish(vec![(AkdLabel::from("b"), AkdValue(format!("v{}", k + 2).into_bytes()))]).await?;
        }
        let ro = match warm {
            Some(w) => w,
            None => {
                db.set(DbRecord::Azks(checkpoint)).await.map_err(AkdError::Storage)?;
                ReadOnlyDirectory::<TC, _, _>::new(reader_storage, HardCodedAkdVRF {}, AzksParallelismConfig::disabled()).await?
            }
        };
        let pk = akd.get_public_key().await?;
        let mut bad = vec![];
        for n in names {
            let label = AkdLabel::from(n);
            if let Ok((proof, eh)) = ro.lookup(label.clone()).await {
                if eh.epoch() != h1.epoch() || eh.hash() != h1.hash() {
                    bad.push((format!("lookup({n})"), format!("answered with (epoch {}, a root hash the directory did not publish for it)", eh.epoch())));
                } else if let Err(e) = lookup_verify::<TC>(pk.as_bytes(), eh.hash(), eh.epoch(), label.clone(), proof) {
                    bad.push((format!("lookup({n})"), format!("returned Ok with the published pair of epoch 1, but the proof does not verify against it: {e}")));
                }
            }
            if let Ok((proof, eh)) = ro.key_history(&label, HistoryParams::Complete).await {
                if eh.epoch() != h1.epoch() || eh.hash() != h1.hash() {
                    bad.push((format!("key_history({n})"), format!("answered with (epoch {}, a root hash the directory did not publish for it)", eh.epoch())));
                } else if let Err(e) = key_history_verify::<TC>(pk.as_bytes(), eh.hash(), eh.epoch(), label.clone(), proof, HistoryVerificationParams::default()) {
                    bad.push((format!("key_history({n})"), format!("returned Ok with the published pair of epoch 1, but the proof does not verify against it: {e}")));
                }
            }
        }
        Ok(bad)
    }

    /// C04 (BOUNDED end-to-end cross-check): one 5-epoch history (new labels, updates, a publish that only re-submits current values,
    /// a batch that names one label twice with different values); after every publish, every pair 0 <= s < e <= current is audited
    /// against the published hashes, and ranges with s >= e or e > current must be refused. Returns the list of what went wrong.
    pub async fn c04_all_ranges<TC: Configuration>(parallel: bool) -> Result<Vec<String>, AkdError> {
        let par = if parallel { AzksParallelismConfig::default() } else { AzksParallelismConfig::disabled() };
        let dir = Directory::<TC, _, _>::new(StorageManager::new_no_cache(AsyncInMemoryDatabase::new()), HardCodedAkdVRF {}, par).await?;
        let kv = |k: &str, v: &str| (AkdLabel::from(k), AkdValue::from(v));
        let batches: Vec<Vec<(AkdLabel, AkdValue)>> = vec![
            vec![kv("a", "1"), kv("b", "1"), kv("c", "1")],
            vec![kv("a", "2"), kv("d", "1")],
            vec![kv("a", "2"), kv("d", "1")],                 // nothing changes: no new epoch
            vec![kv("e", "1"), kv("e", "2"), kv("f", "1")],   // one label twice: must be refused without effect
            vec![kv("b", "2"), kv("g", "1"), kv("h", "1")],
            vec![kv("a", "3")],
        ];
        let mut bad = vec![];
        let mut hashes = vec![dir.get_epoch_hash().await?.hash()];
        for (i, b) in batches.into_iter().enumerate() {
            let before = dir.get_epoch_hash().await?;
            let r = dir.publish(b).await;
            let after = dir.get_epoch_hash().await?;
            match (i, &r) {
                (3, Ok(_)) => bad.push("a batch naming the label e twice (different values) was accepted".to_string()),
                (3, Err(_)) => if after.epoch() != before.epoch() || after.hash() != before.hash() { bad.push("the refused batch changed the directory".to_string()) },
                (2, Ok(eh)) => if eh.epoch() != before.epoch() { bad.push("re-submitting current values created an epoch".to_string()) },
                (_, Err(e)) => bad.push(format!("publish #{i} failed: {e}")),
                _ => {}
            }
            if after.epoch() as usize == hashes.len() { hashes.push(after.hash()); }
            let cur = after.epoch();
            for s in 0..=cur + 1 {
                for e in 0..=cur + 1 {
                    let res = dir.audit(s, e).await;
                    if s < e && e <= cur {
                        match res {
                            Ok(proof) => {
                                let hs: Vec<_> = hashes[s as usize..=e as usize].to_vec();
                                if let Err(err) = crate::auditor::audit_verify::<TC>(hs, proof).await {
                                    bad.push(format!("after publish #{i} (epoch {cur}): the append-only proof for ({s}, {e}) does not verify against the published hashes: {err}"));
                                }
                            }
                            Err(err) => bad.push(format!("after publish #{i} (epoch {cur}): no append-only proof for ({s}, {e}): {err}")),
                        }
                    } else if res.is_ok() {
                        bad.push(format!("after publish #{i} (epoch {cur}): the range ({s}, {e}) was not refused"));
                    }
                }
            }
        }
        Ok(bad)
    }

    /// C02 / C03 (BOUNDED end-to-end cross-check): `n` labels are published in two batches (every label gets two versions), with the
    /// given insertion parallelism, on whatever runtime the caller drives this future with; afterwards EVERY label's lookup answer and
    /// key-history answers (Complete, MostRecent(1), MostRecent(5)) must verify against the epoch hash returned with them and yield the
    /// latest value / all versions newest first. Returns the list of what went wrong.
    pub async fn c0203_all_answers<TC: Configuration>(n: usize, parallel: bool) -> Result<Vec<String>, AkdError> {
        let par = if parallel { AzksParallelismConfig::default() } else { AzksParallelismConfig::disabled() };
        let dir = Directory::<TC, _, _>::new(StorageManager::new_no_cache(AsyncInMemoryDatabase::new()), HardCodedAkdVRF {}, par).await?;
        let name = |i: usize| AkdLabel(format!("user-{i}").into_bytes());
        dir.publish((0..n).map(|i| (name(i), AkdValue(format!("v1-{i}").into_bytes()))).collect()).await?;
        dir.publish((0..n).map(|i| (name(i), AkdValue(format!("v2-{i}").into_bytes()))).collect()).await?;
        // third publish: the even users re-submit the value they already have (no new version, their latest update stays in epoch 2),
        // the odd users change theirs; a fourth publish carrying only unchanged values creates no epoch at all
        let third = |i: usize| if i % 2 == 0 { format!("v2-{i}") } else { format!("v3-{i}") };
        dir.publish((0..n).map(|i| (name(i), AkdValue(third(i).into_bytes()))).collect()).await?;
        let before = dir.get_epoch_hash().await?;
        let again = dir.publish((0..n).map(|i| (name(i), AkdValue(third(i).into_bytes()))).collect()).await?;
        let pk = dir.get_public_key().await?;
        let mut bad = vec![];
        let top = if n >= 2 { 3u64 } else { 2u64 };
        if before.epoch() != top { bad.push(format!("after three publishes (the third changing only the odd users) the directory is at epoch {} instead of {top}", before.epoch())); }
        if again.epoch() != before.epoch() || again.hash() != before.hash() { bad.push(format!("a publish carrying only unchanged values moved the directory from epoch {} to epoch {}", before.epoch(), again.epoch())); }
        match dir.lookup(AkdLabel::from("never-published")).await { Ok(_) => bad.push("lookup of a label that was never published produced a proof".to_string()), Err(_) => {} }
        for i in 0..n {
            let want = AkdValue(third(i).into_bytes());
            let (want_ver, want_ep) = if i % 2 == 0 { (2u64, 2u64) } else { (3u64, 3u64) };
            match dir.lookup(name(i)).await {
                Ok((proof, eh)) => match lookup_verify::<TC>(pk.as_bytes(), eh.hash(), eh.epoch(), name(i), proof) {
                    Ok(r) => if r.value != want || r.version != want_ver || r.epoch != want_ep { bad.push(format!("lookup(user-{i}) verified to (version {}, epoch {}) instead of (version {want_ver}, epoch {want_ep}): the version counts the DISTINCT successive values", r.version, r.epoch)) },
                    Err(e) => bad.push(format!("lookup(user-{i}) does not verify: {e}")),
                },
                Err(e) => bad.push(format!("lookup(user-{i}) failed: {e}")),
            }
            match dir.batch_lookup(&[name(i)]).await {
                Ok((proofs, eh)) => match proofs.into_iter().next() {
                    Some(proof) => match lookup_verify::<TC>(pk.as_bytes(), eh.hash(), eh.epoch(), name(i), proof) {
                        Ok(r) => if r.value != want || r.version != want_ver || r.epoch != want_ep { bad.push(format!("batch_lookup(user-{i}) verified to (version {}, epoch {}) instead of (version {want_ver}, epoch {want_ep})", r.version, r.epoch)) },
                        Err(e) => bad.push(format!("batch_lookup(user-{i}) does not verify: {e}")),
                    },
                    None => bad.push(format!("batch_lookup(user-{i}) returned no proof")),
                },
                Err(e) => bad.push(format!("batch_lookup(user-{i}) failed: {e}")),
            }
            let total = want_ver as usize;
            for (params, want_n) in [(HistoryParams::Complete, total), (HistoryParams::MostRecent(1), 1), (HistoryParams::MostRecent(5), total), (HistoryParams::MostRecent(usize::MAX), total)] {
                match dir.key_history(&name(i), params).await {
                    Ok((proof, eh)) => match key_history_verify::<TC>(pk.as_bytes(), eh.hash(), eh.epoch(), name(i), proof, HistoryVerificationParams::Default { history_params: params }) {
                        Ok(rs) => if rs.len() != want_n || rs[0].version != want_ver || rs[0].value != want { bad.push(format!("key_history(user-{i}, {params:?}) verified to {} entries starting at version {}", rs.len(), rs.first().map(|r| r.version).unwrap_or(0))) },
                        Err(e) => bad.push(format!("key_history(user-{i}, {params:?}) does not verify: {e}")),
                    },
                    Err(e) => bad.push(format!("key_history(user-{i}, {params:?}) failed: {e}")),
                }
            }
        }
        // a batch that names a label twice in a row: one proof per requested label, each the label's own
        if n >= 2 {
            let req = vec![name(0), name(1), name(1), name(0)];
            match dir.batch_lookup(&req).await {
                Ok((proofs, eh)) => {
                    if proofs.len() != req.len() { bad.push(format!("batch_lookup of {} labels (one repeated) returned {} proofs", req.len(), proofs.len())); }
                    for (l, proof) in req.iter().zip(proofs.into_iter()) {
                        if let Err(e) = lookup_verify::<TC>(pk.as_bytes(), eh.hash(), eh.epoch(), l.clone(), proof) { bad.push(format!("batch_lookup with a repeated label: the proof at the position of {:?} does not verify for it: {e}", l)); }
                    }
                }
                Err(e) => bad.push(format!("batch_lookup with a repeated label failed: {e}")),
            }
        }
        Ok(bad)
    }

    // ---- C18: the labels a publish places in the tree follow the VRF key of THAT directory (two keys in one process)
    #[derive(Clone)]
    pub struct SeedVRF(pub [u8; 32]);
    #[async_trait::async_trait]
    impl VRFKeyStorage for SeedVRF {
        async fn retrieve(&self) -> Result<Vec<u8>, akd_core::ecvrf::VrfError> { Ok(self.0.to_vec()) }
    }
    /// For each of `seeds` in turn (same process): the batch call get_node_labels (what publish uses) must return, for every tuple,
    /// the label the single call returns and the label the VRF proof of that tuple verifies to under that key's public key; and two
    /// different keys must not produce the same label for the same tuple. Returns descriptions of what fails.
    pub async fn c18_labels_follow_key<TC: Configuration>(seeds: Vec<[u8; 32]>, tuples: Vec<(Vec<u8>, bool, u64)>) -> Result<Vec<String>, AkdError> {
        let mut bad = vec![];
        let batch: Vec<(AkdLabel, VersionFreshness, u64, AkdValue)> = tuples.iter()
            .map(|(l, f, v)| (AkdLabel(l.clone()), if *f { VersionFreshness::Fresh } else { VersionFreshness::Stale }, *v, AkdValue(vec![1]))).collect();
        let mut per_key: Vec<Vec<NodeLabel>> = vec![];
        for (ki, seed) in seeds.iter().enumerate() {
            let vrf = SeedVRF(*seed);
            let pk = vrf.get_vrf_public_key().await.map_err(|e| AkdError::TestErr(format!("{e}")))?;
            let got = vrf.get_node_labels::<TC>(&batch).await.map_err(|e| AkdError::TestErr(format!("{e}")))?;
            if got.len() != batch.len() { bad.push(format!("key #{ki}: get_node_labels returned {} labels for {} tuples", got.len(), batch.len())); }
            let mut mine = vec![];
            for t in &batch {
                let placed = match got.iter().find(|(k, _)| k == t) { Some((_, l)) => *l, None => { bad.push(format!("key #{ki}: no label returned for tuple ({:?}, {:?}, {})", t.0, t.1, t.2)); continue; } };
                let single = vrf.get_node_label::<TC>(&t.0, t.1, t.2).await.map_err(|e| AkdError::TestErr(format!("{e}")))?;
                let proof = vrf.get_label_proof::<TC>(&t.0, t.1, t.2).await.map_err(|e| AkdError::TestErr(format!("{e}")))?;
                let from_proof = vrf.get_node_label_from_vrf_proof(proof.clone()).await;
                let verifies = pk.verify(&proof, &TC::get_hash_from_label_input(&t.0, t.1, t.2)).is_ok();
                if placed != single || placed != from_proof || !verifies {
                    bad.push(format!("key #{ki}, tuple ({:?}, {:?}, {}): label placed in the tree by the batch call differs from the label of the single call / of the VRF proof (verifies under the key's public key: {verifies})", t.0, t.1, t.2));
                }
                mine.push(placed);
            }
            per_key.push(mine);
        }
        for a in 0..per_key.len() { for b in a + 1..per_key.len() {
            if seeds[a] != seeds[b] { for i in 0..per_key[a].len().min(per_key[b].len()) {
                if per_key[a][i] == per_key[b][i] { bad.push(format!("keys #{a} and #{b} give the same node label for tuple #{i}")); }
            } }
        } }
        Ok(bad)
    }

    // ---- C19 (malformed input is rejected cleanly): counters at u64::MAX in attacker-supplied proofs. A panic is not a rejection.
    /// which = 0: a history proof whose second entry claims version u64::MAX, handed to key_history_verify;
    /// which = 1: an append-only proof whose epoch list holds u64::MAX, handed to audit_verify. Returns "ok", "err" or "panic".
    pub fn c19_counter_at_max<TC: Configuration>(which: u8) -> String {
        let dummy_mp = || crate::MembershipProof { label: lbl(1), hash_val: AzksValue([0u8; 32]), sibling_proofs: vec![] };
        let up = |version: u64| UpdateProof { epoch: 1, value: AkdValue(vec![1]), version, existence_vrf_proof: vec![0u8; 80], existence_proof: dummy_mp(),
            previous_version_vrf_proof: None, previous_version_proof: None, commitment_nonce: vec![] };
        let r = std::panic::catch_unwind(|| {
            if which == 0 {
                let proof = HistoryProof { update_proofs: vec![up(5), up(u64::MAX)], past_marker_vrf_proofs: vec![], existence_of_past_marker_proofs: vec![],
                    future_marker_vrf_proofs: vec![], non_existence_of_future_marker_proofs: vec![] };
                key_history_verify::<TC>(&[0u8; 32], [0u8; 32], 10, AkdLabel::from("a"), proof, HistoryVerificationParams::default()).is_ok()
            } else {
                let proof = crate::AppendOnlyProof { proofs: vec![SingleAppendOnlyProof { inserted: vec![], unchanged_nodes: vec![] }], epochs: vec![u64::MAX] };
                let rt = tokio::runtime::Builder::new_current_thread().enable_all().build().unwrap();
                rt.block_on(crate::auditor::audit_verify::<TC>(vec![[0u8; 32], [0u8; 32]], proof)).is_ok()
            }
        });
        match r { Ok(true) => "ok".to_string(), Ok(false) => "err".to_string(), Err(_) => "panic".to_string() }
    }

    // ---- C11 (BOUNDED: the property's own scenario at ONE crash point - everything of epoch 3 written except the epoch record):
    // epoch 1 publishes alice and bob, epoch 2 only bob, epoch 3 both; the epoch record is put back to epoch 2; a fresh read-only instance
    // must report epoch 2 and its root hash, its lookups / histories must verify to alice's epoch-1 value and bob's epoch-2 value, and
    // once the epoch-3 record is written a fresh instance serves epoch 3.
    pub async fn c11_partial_commit<TC: Configuration>(cache: bool) -> Result<Vec<String>, AkdError> {
        let db = AsyncInMemoryDatabase::new();
        let mk = || if cache { StorageManager::new(db.clone(), None, None, None) } else { StorageManager::new_no_cache(db.clone()) };
        let dir = Directory::<TC, _, _>::new(StorageManager::new_no_cache(db.clone()), HardCodedAkdVRF {}, AzksParallelismConfig::disabled()).await?;
        let kv = |k: &str, v: &str| (AkdLabel::from(k), AkdValue::from(v));
        let e1 = dir.publish(vec![kv("alice", "alice_1"), kv("bob", "bob_1")]).await?;
        let e2 = dir.publish(vec![kv("bob", "bob_2")]).await?;
        let rec2 = db.get::<Azks>(&crate::append_only_zks::DEFAULT_AZKS_KEY).await.map_err(AkdError::Storage)?;
        let e3 = dir.publish(vec![kv("alice", "alice_3"), kv("bob", "bob_3")]).await?;
        let rec3 = db.get::<Azks>(&crate::append_only_zks::DEFAULT_AZKS_KEY).await.map_err(AkdError::Storage)?;
        db.set(rec2).await.map_err(AkdError::Storage)?;      // the commit of epoch 3 has written everything but the epoch record
        let pk = dir.get_public_key().await?;
        let mut bad = vec![];
        let reader = ReadOnlyDirectory::<TC, _, _>::new(mk(), HardCodedAkdVRF {}, AzksParallelismConfig::disabled()).await?;
        let eh = reader.get_epoch_hash().await?;
        if eh.epoch() != e2.epoch() || eh.hash() != e2.hash() { bad.push(format!("the reader of the partial commit reports epoch {} instead of (2, root hash of epoch 2)", eh.epoch())); }
        for (name, want, ver) in [("alice", "alice_1", 1u64), ("bob", "bob_2", 2u64)] {
            match reader.lookup(AkdLabel::from(name)).await {
                Ok((proof, h)) => match lookup_verify::<TC>(pk.as_bytes(), h.hash(), h.epoch(), AkdLabel::from(name), proof) {
                    Ok(r) => if r.value != AkdValue::from(want) || r.version != ver { bad.push(format!("lookup({name}) at the partial commit verified to {:?} (version {}) instead of {want}", String::from_utf8_lossy(&r.value.0), r.version)); },
                    Err(e) => bad.push(format!("lookup({name}) at the partial commit does not verify: {e}")),
                },
                Err(e) => bad.push(format!("lookup({name}) at the partial commit failed: {e}")),
            }
            match reader.key_history(&AkdLabel::from(name), HistoryParams::Complete).await {
                Ok((proof, h)) => match key_history_verify::<TC>(pk.as_bytes(), h.hash(), h.epoch(), AkdLabel::from(name), proof, HistoryVerificationParams::default()) {
                    Ok(rs) => if rs.first().map(|r| r.value.clone()) != Some(AkdValue::from(want)) { bad.push(format!("key_history({name}) at the partial commit starts with a value of the unfinished epoch")); },
                    Err(e) => bad.push(format!("key_history({name}) at the partial commit does not verify: {e}")),
                },
                Err(e) => bad.push(format!("key_history({name}) at the partial commit failed: {e}")),
            }
        }
        if let Ok(p) = reader.audit(1, 2).await { if crate::auditor::audit_verify::<TC>(vec![e1.hash(), e2.hash()], p).await.is_err() { bad.push("the audit proof 1 -> 2 served at the partial commit does not verify".to_string()); } }
        db.set(rec3).await.map_err(AkdError::Storage)?;
        let reader3 = ReadOnlyDirectory::<TC, _, _>::new(mk(), HardCodedAkdVRF {}, AzksParallelismConfig::disabled()).await?;
        let eh3 = reader3.get_epoch_hash().await?;
        if eh3.epoch() != e3.epoch() || eh3.hash() != e3.hash() { bad.push("after the epoch record was written a fresh reader does not serve epoch 3".to_string()); }
        Ok(bad)
    }

    // ---- C13: a request racing a publish (deterministic: the database wrapper runs a publish of ANOTHER directory instance over the
    // same database at a chosen read of the request)
    #[derive(Clone)]
    pub struct HookDb<TC> { inner: AsyncInMemoryDatabase, armed: Arc<AtomicBool>, _tc: std::marker::PhantomData<TC>, mode: Arc<std::sync::atomic::AtomicU8>, seen: Arc<std::sync::Mutex<Option<String>>> }
    impl<TC: Configuration> HookDb<TC> {
        async fn fire(&self) {
            if self.armed.swap(false, Ordering::SeqCst) {
                if let Ok(other) = Directory::<TC, _, _>::new(StorageManager::new_no_cache(self.inner.clone()), HardCodedAkdVRF {}, AzksParallelismConfig::disabled()).await {
                    let _ = other.publish(vec![(AkdLabel::from("a"), AkdValue::from("a-next")), (AkdLabel::from("z"), AkdValue::from("z1"))]).await;
                }
            }
        }
    }
    #[async_trait::async_trait]
    impl<TC: Configuration> Database for HookDb<TC> {
        async fn set(&self, record: DbRecord) -> Result<(), StorageError> { self.inner.set(record).await }
        async fn batch_set(&self, records: Vec<DbRecord>, state: DbSetState) -> Result<(), StorageError> {
            // mode 2: right after the storage operation that carries the epoch record, a FRESH uncached reader instance looks up "a"
            let has_epoch = records.iter().any(|r| matches!(r, DbRecord::Azks(_)));
            let r = self.inner.batch_set(records, state).await;
            if has_epoch && self.mode.load(Ordering::SeqCst) == 2 && self.armed.swap(false, Ordering::SeqCst) {
                let mut what = None;
                if let Ok(reader) = Directory::<TC, _, _>::new(StorageManager::new_no_cache(self.inner.clone()), HardCodedAkdVRF {}, AzksParallelismConfig::disabled()).await {
                    if let Ok(pk) = reader.get_public_key().await {
                        let la = AkdLabel::from("a");
                        if let Ok((proof, eh)) = reader.lookup(la.clone()).await {
                            if let Err(e) = lookup_verify::<TC>(pk.as_bytes(), eh.hash(), eh.epoch(), la, proof) { what = Some(format!("a reader served right after the storage operation that wrote the epoch record of epoch {} answered lookup(a) with a proof that does not verify: {e}", eh.epoch())); }
                        }
                    }
                }
                *self.seen.lock().unwrap() = what;
            }
            r
        }
        async fn get<St: Storable>(&self, id: &St::StorageKey) -> Result<DbRecord, StorageError> {
            // mode 1: the other instance's publish runs right BEFORE this instance's read of the epoch record
            if self.mode.load(Ordering::SeqCst) == 1 && matches!(St::data_type(), crate::storage::types::StorageType::Azks) { self.fire().await; }
            self.inner.get::<St>(id).await
        }
        async fn batch_get<St: Storable>(&self, ids: &[St::StorageKey]) -> Result<Vec<DbRecord>, StorageError> { self.inner.batch_get::<St>(ids).await }
        async fn get_user_data(&self, username: &AkdLabel) -> Result<KeyData, StorageError> { if self.mode.load(Ordering::SeqCst) == 0 { self.fire().await; } self.inner.get_user_data(username).await }
        async fn get_user_state(&self, username: &AkdLabel, flag: ValueStateRetrievalFlag) -> Result<ValueState, StorageError> { if self.mode.load(Ordering::SeqCst) == 0 { self.fire().await; } self.inner.get_user_state(username, flag).await }
        async fn get_user_state_versions(&self, usernames: &[AkdLabel], flag: ValueStateRetrievalFlag) -> Result<HashMap<AkdLabel, (u64, AkdValue)>, StorageError> {
            if self.mode.load(Ordering::SeqCst) == 0 { self.fire().await; }
            self.inner.get_user_state_versions(usernames, flag).await
        }
    }
    /// C13 / C11: a publish that updates label a; right after the storage operation that writes the epoch record a fresh uncached reader
    /// looks a up. Returns Some(description) if the reader got an answer that does not verify.
    pub async fn c13_reader_after_epoch_record<TC: Configuration>() -> Result<Option<String>, AkdError> {
        let armed = Arc::new(AtomicBool::new(false));
        let db = HookDb::<TC> { inner: AsyncInMemoryDatabase::new(), armed: armed.clone(), _tc: std::marker::PhantomData, mode: Arc::new(std::sync::atomic::AtomicU8::new(2)), seen: Arc::new(std::sync::Mutex::new(None)) };
        let dir = Directory::<TC, _, _>::new(StorageManager::new_no_cache(db.clone()), HardCodedAkdVRF {}, AzksParallelismConfig::disabled()).await?;
        let kv = |k: &str, v: &str| (AkdLabel::from(k), AkdValue::from(v));
        dir.publish(vec![kv("a", "a1"), kv("b", "b1"), kv("c", "c1")]).await?;
        armed.store(true, Ordering::SeqCst);
        dir.publish(vec![kv("a", "a2"), kv("d", "d1")]).await?;
        let r = db.seen.lock().unwrap().clone();
        Ok(r)
    }
    /// C12 probe: publish P2 (labels b, e) reads the epoch record, then - before it begins its transaction - another instance over the
    /// same database completes publish P1 (labels a, z). Returns (P2 result epoch or None, epoch afterwards, P1's label a verifies to
    /// P1's value afterwards, P2's label b verifies to P2's value afterwards).
    pub async fn c12_publish_overtaken<TC: Configuration>() -> Result<(Option<u64>, u64, bool, bool), AkdError> {
        let armed = Arc::new(AtomicBool::new(false));
        let db = HookDb::<TC> { inner: AsyncInMemoryDatabase::new(), armed: armed.clone(), _tc: std::marker::PhantomData, mode: Arc::new(std::sync::atomic::AtomicU8::new(0)), seen: Arc::new(std::sync::Mutex::new(None)) };
        let dir = Directory::<TC, _, _>::new(StorageManager::new_no_cache(db.clone()), HardCodedAkdVRF {}, AzksParallelismConfig::disabled()).await?;
        let kv = |k: &str, v: &str| (AkdLabel::from(k), AkdValue::from(v));
        dir.publish(vec![kv("a", "a1"), kv("b", "b1"), kv("c", "c1")]).await?;
        armed.store(true, Ordering::SeqCst);
        let r2 = dir.publish(vec![kv("b", "b2"), kv("e", "e1")]).await;   // P1 = [(a, a-next), (z, z1)] runs inside, at P2's versions read
        let after = dir.get_epoch_hash().await?;
        let pk = dir.get_public_key().await?;
        let check = |name: &'static str, want: &'static str| { let dir = &dir; let pk = &pk; async move {
            match dir.lookup(AkdLabel::from(name)).await {
                Ok((proof, eh)) => matches!(lookup_verify::<TC>(pk.as_bytes(), eh.hash(), eh.epoch(), AkdLabel::from(name), proof), Ok(r) if r.value == AkdValue::from(want)),
                Err(_) => false,
            } } };
        let a_ok = check("a", "a-next").await;
        let b_ok = check("b", "b2").await;
        Ok((r2.ok().map(|e| e.epoch()), after.epoch(), a_ok, b_ok))
    }
    /// A directory instance (no cache) has published two epochs; while it serves a request (which: 0 lookup, 1 key history), right after
    /// its read of the epoch record, ANOTHER instance over the same database publishes the next epoch. The answer must be an error or
    /// verify against the (epoch, root hash) pair returned with it. Returns Some(description) if it is Ok but does not verify.
    pub async fn c13_request_racing_publish<TC: Configuration>(which: u8) -> Result<Option<String>, AkdError> {
        let armed = Arc::new(AtomicBool::new(false));
        let db = HookDb::<TC> { inner: AsyncInMemoryDatabase::new(), armed: armed.clone(), _tc: std::marker::PhantomData, mode: Arc::new(std::sync::atomic::AtomicU8::new(0)), seen: Arc::new(std::sync::Mutex::new(None)) };
        let dir = Directory::<TC, _, _>::new(StorageManager::new_no_cache(db.clone()), HardCodedAkdVRF {}, AzksParallelismConfig::disabled()).await?;
        let kv = |k: &str, v: &str| (AkdLabel::from(k), AkdValue::from(v));
        dir.publish(vec![kv("a", "a1"), kv("b", "b1"), kv("c", "c1")]).await?;
        dir.publish(vec![kv("a", "a2"), kv("d", "d1")]).await?;
        let pk = dir.get_public_key().await?;
        let la = AkdLabel::from("a");
        if which >= 2 { db.mode.store(1, Ordering::SeqCst); }
        let which = which % 2;
        armed.store(true, Ordering::SeqCst);
        if which == 0 {
            match dir.lookup(la.clone()).await {
                Ok((proof, eh)) => Ok(lookup_verify::<TC>(pk.as_bytes(), eh.hash(), eh.epoch(), la, proof).err().map(|e| format!("lookup answered Ok for epoch {} but the proof does not verify against the hash returned with it: {e}", eh.epoch()))),
                Err(_) => Ok(None),
            }
        } else {
            match dir.key_history(&la, HistoryParams::Complete).await {
                Ok((proof, eh)) => Ok(key_history_verify::<TC>(pk.as_bytes(), eh.hash(), eh.epoch(), la, proof, HistoryVerificationParams::default()).err().map(|e| format!("key_history answered Ok for epoch {} but the proof does not verify against the hash returned with it: {e}", eh.epoch()))),
                Err(_) => Ok(None),
            }
        }
    }

    /// C14 (BOUNDED): one 4-epoch history is run under every combination of {sequential, parallel insertion} x {no cache, default cache, 64-byte memory limit, 2 ms item lifetime} x
    /// {one long-lived instance, instance dropped and re-created over the same storage before every call} (x the runtime the caller
    /// drives it with); every variant must publish the SAME epoch hashes and verify every label to the same (value, version, epoch).
    pub async fn c14_variants<TC: Configuration>() -> Result<Vec<String>, AkdError> {
        let kv = |k: &str, v: &str| (AkdLabel::from(k), AkdValue::from(v));
        let batches: Vec<Vec<(AkdLabel, AkdValue)>> = vec![
            (0..12).map(|i| (AkdLabel(format!("u{i}").into_bytes()), AkdValue(format!("a{i}").into_bytes()))).collect(),
            vec![kv("u1", "b1"), kv("u5", "b5"), kv("x", "x1")],
            (0..12).rev().map(|i| (AkdLabel(format!("u{i}").into_bytes()), AkdValue(format!("c{i}").into_bytes()))).collect(),
            vec![kv("y", "y1")],
        ];
        let mut reference: Option<(Vec<(u64, crate::Digest)>, Vec<(u64, u64, Vec<u8>)>)> = None;
        let mut bad = vec![];
        // cache: 0 none, 1 default, 2 tiny memory limit (64 bytes, cleaned every 2 ms), 3 shortest item lifetime (2 ms, cleaned every 2 ms)
        for par in [false, true] { for cache in 0..4u8 { for restart in [false, true] {
            let db = AsyncInMemoryDatabase::new();
            let ms = |n: u64| Some(std::time::Duration::from_millis(n));
            let mk = || async {
                let st = match cache {
                    0 => StorageManager::new_no_cache(db.clone()),
                    1 => StorageManager::new(db.clone(), None, None, None),
                    2 => StorageManager::new(db.clone(), None, Some(64), ms(2)),
                    _ => StorageManager::new(db.clone(), ms(2), None, ms(2)),
                };
                Directory::<TC, _, _>::new(st, HardCodedAkdVRF {}, if par { AzksParallelismConfig::default() } else { AzksParallelismConfig::disabled() }).await
            };
            let mut dir = mk().await?;
            let mut hashes = vec![];
            for b in batches.iter() {
                if restart { dir = mk().await?; }
                let eh = dir.publish(b.clone()).await?;
                hashes.push((eh.epoch(), eh.hash()));
                if cache >= 2 { tokio::time::sleep(std::time::Duration::from_millis(3)).await; }   // let a clean tick pass
            }
            if restart { dir = mk().await?; }
            let pk = dir.get_public_key().await?;
            let mut answers = vec![];
            for name in ["u0", "u1", "u5", "u11", "x", "y"] {
                let (proof, eh) = dir.lookup(AkdLabel::from(name)).await?;
                match lookup_verify::<TC>(pk.as_bytes(), eh.hash(), eh.epoch(), AkdLabel::from(name), proof) {
                    Ok(r) => answers.push((r.version, r.epoch, r.value.0)),
                    Err(e) => bad.push(format!("variant (parallel={par}, cache={cache}, restart={restart}): lookup({name}) does not verify: {e}")),
                }
            }
            match &reference {
                None => reference = Some((hashes, answers)),
                Some((h0, a0)) => {
                    if *h0 != hashes { bad.push(format!("variant (parallel={par}, cache={cache}, restart={restart}) published different epoch hashes than the sequential / uncached / long-lived run")); }
                    if *a0 != answers { bad.push(format!("variant (parallel={par}, cache={cache}, restart={restart}) verifies labels to different results")); }
                }
            }
        } } }
        Ok(bad)
    }

    // ---- C12: two publish calls on CLONES of one directory, deterministically interleaved: the database wrapper runs a prepared
    // future (the other clone's publish) at the first bulk-versions read after it was armed
    type Pending = Arc<tokio::sync::Mutex<Option<std::pin::Pin<Box<dyn std::future::Future<Output = Option<(u64, crate::Digest)>> + Send>>>>>;
    #[derive(Clone)]
    pub struct RunAtReadDb { inner: AsyncInMemoryDatabase, pending: Pending, result: Arc<std::sync::Mutex<Option<Option<(u64, crate::Digest)>>>>, at_commit: Arc<AtomicBool> }
    impl RunAtReadDb {
        async fn fire(&self) {
            let fut = self.pending.lock().await.take();
            if let Some(f) = fut { let r = f.await; *self.result.lock().unwrap() = Some(r); }
        }
    }
    #[async_trait::async_trait]
    impl Database for RunAtReadDb {
        async fn set(&self, record: DbRecord) -> Result<(), StorageError> { self.inner.set(record).await }
        async fn batch_set(&self, records: Vec<DbRecord>, state: DbSetState) -> Result<(), StorageError> {
            // the commit write has been issued but has not reached storage yet: this is where the other call runs
            if matches!(state, DbSetState::TransactionCommit) && self.at_commit.load(Ordering::SeqCst) { self.fire().await; }
            self.inner.batch_set(records, state).await
        }
        async fn get<St: Storable>(&self, id: &St::StorageKey) -> Result<DbRecord, StorageError> { self.inner.get::<St>(id).await }
        async fn batch_get<St: Storable>(&self, ids: &[St::StorageKey]) -> Result<Vec<DbRecord>, StorageError> { self.inner.batch_get::<St>(ids).await }
        async fn get_user_data(&self, username: &AkdLabel) -> Result<KeyData, StorageError> { self.inner.get_user_data(username).await }
        async fn get_user_state(&self, username: &AkdLabel, flag: ValueStateRetrievalFlag) -> Result<ValueState, StorageError> { self.inner.get_user_state(username, flag).await }
        async fn get_user_state_versions(&self, usernames: &[AkdLabel], flag: ValueStateRetrievalFlag) -> Result<HashMap<AkdLabel, (u64, AkdValue)>, StorageError> {
            if !self.at_commit.load(Ordering::SeqCst) { self.fire().await; }
            self.inner.get_user_state_versions(usernames, flag).await
        }
    }
    pub struct C12Outcome { pub p1: Option<(u64, crate::Digest)>, pub p2: Option<(u64, crate::Digest)>, pub final_epoch: u64, pub audits_ok: bool, pub a_ok: bool, pub b_ok: bool }
    /// Publish P2 = [(b,b2),(e,e1)] on one clone reads the epoch record; before it begins its transaction, publish P1 = [(a,a2),(z,z1)] on
    /// ANOTHER CLONE runs to completion. Afterwards: the epochs / hashes both calls returned, the final epoch, whether every returned
    /// (epoch, hash) pair is still what audit proofs verify against, and whether both calls' values are served.
    pub async fn c12_overtaken_on_clone<TC: Configuration>(cache: bool) -> Result<C12Outcome, AkdError> { c12_overtaken_where::<TC>(cache, false).await }
    /// The same, but the other clone's publish runs while THIS call's commit write has been issued and has not reached storage yet
    pub async fn c12_overtaken_at_commit<TC: Configuration>(cache: bool) -> Result<C12Outcome, AkdError> { c12_overtaken_where::<TC>(cache, true).await }
    async fn c12_overtaken_where<TC: Configuration>(cache: bool, at_commit: bool) -> Result<C12Outcome, AkdError> {
        let pending: Pending = Arc::new(tokio::sync::Mutex::new(None));
        let result = Arc::new(std::sync::Mutex::new(None));
        let db = RunAtReadDb { inner: AsyncInMemoryDatabase::new(), pending: pending.clone(), result: result.clone(), at_commit: Arc::new(AtomicBool::new(false)) };
        let at_commit_flag = db.at_commit.clone();
        let st = if cache { StorageManager::new(db.clone(), None, None, None) } else { StorageManager::new_no_cache(db.clone()) };
        let dir = Directory::<TC, _, _>::new(st, HardCodedAkdVRF {}, AzksParallelismConfig::disabled()).await?;
        let kv = |k: &str, v: &str| (AkdLabel::from(k), AkdValue::from(v));
        let h0 = dir.get_epoch_hash().await?.hash();
        let e1 = dir.publish(vec![kv("a", "a1"), kv("b", "b1"), kv("c", "c1")]).await?;
        let other = dir.clone();
        let p1_batch = vec![kv("a", "a2"), kv("z", "z1")];
        *pending.lock().await = Some(Box::pin(async move { other.publish(p1_batch).await.ok().map(|e| (e.epoch(), e.hash())) }));
        at_commit_flag.store(at_commit, Ordering::SeqCst);
        let p2 = dir.publish(vec![kv("b", "b2"), kv("e", "e1")]).await.ok().map(|e| (e.epoch(), e.hash()));
        let p1 = result.lock().unwrap().clone().flatten();
        let fin = dir.get_epoch_hash().await?;
        // every pair a call returned must be the pair audits verify against
        let mut hashes = vec![h0, e1.hash()];
        let mut audits_ok = true;
        let mut pairs: Vec<(u64, crate::Digest)> = p1.iter().chain(p2.iter()).cloned().collect();
        pairs.sort_by_key(|p| p.0);
        for (ep, h) in pairs.iter() {
            if *ep as usize != hashes.len() { audits_ok = false; break; }   // epochs must be distinct and consecutive
            hashes.push(*h);
        }
        if audits_ok && fin.epoch() as usize + 1 == hashes.len() {
            match dir.audit(0, fin.epoch()).await {
                Ok(proof) => { if crate::auditor::audit_verify::<TC>(hashes.clone(), proof).await.is_err() { audits_ok = false; } }
                Err(_) => audits_ok = false,
            }
        } else { audits_ok = false; }
        let pk = dir.get_public_key().await?;
        let mut ok = [false, false];
        for (i, (name, want)) in [("a", "a2"), ("b", "b2")].iter().enumerate() {
            if let Ok((proof, eh)) = dir.lookup(AkdLabel::from(*name)).await {
                ok[i] = matches!(lookup_verify::<TC>(pk.as_bytes(), eh.hash(), eh.epoch(), AkdLabel::from(*name), proof), Ok(r) if r.value == AkdValue::from(*want));
            }
        }
        Ok(C12Outcome { p1, p2, final_epoch: fin.epoch(), audits_ok, a_ok: ok[0], b_ok: ok[1] })
    }

    // ---- C05 (BOUNDED check of the two ASSUMED tree invariants of unit azks_proofs): after every publish of a random history the stored
    // tree, as read at the latest epoch, is `shaped` (canonical labels; a child extends its parent by its direction bit; leaves are the
    // 256-bit nodes; only the root may lack a child; a record is stored under its own label) and `consistent` (every non-leaf node stores
    // the parent hash of its two children as read, leaf values hashed with their epoch).
    pub async fn c05_tree_invariants<TC: Configuration>(seed: u64, steps: usize, nlabels: u64, parallel: bool) -> Result<Vec<String>, AkdError> {
        let db = StorageManager::new_no_cache(AsyncInMemoryDatabase::new());
        let dir = Directory::<TC, _, _>::new(db.clone(), HardCodedAkdVRF {}, if parallel { AzksParallelismConfig::default() } else { AzksParallelismConfig::disabled() }).await?;
        let mut rng = seed.wrapping_mul(0x9E3779B97F4A7C15) | 1;
        let mut next = move || { rng ^= rng << 13; rng ^= rng >> 7; rng ^= rng << 17; rng };
        let bit = |l: &NodeLabel, i: u32| (l.label_val[(i / 8) as usize] >> (7 - (i % 8))) & 1;
        let mut bad = vec![];
        for step in 0..steps {
            let n = 1 + (next() % 5) as usize;
            let mut batch: Vec<(AkdLabel, AkdValue)> = vec![];
            for _ in 0..n {
                let l = next() % nlabels;
                let name = AkdLabel(format!("label-{l}").into_bytes());
                if batch.iter().any(|b| b.0 == name) { continue; }
                batch.push((name, AkdValue(format!("v{}-{}", step, next() % 3).into_bytes())));
            }
            dir.publish(batch).await?;
            let epoch = dir.get_epoch_hash().await?.epoch();
            // walk the whole stored tree
            let mut stack = vec![NodeLabel::root()];
            let mut seen = 0usize;
            while let Some(l) = stack.pop() {
                let node = match TreeNode::get_from_storage(&db, &NodeKey(l), epoch).await { Ok(n) => n, Err(e) => { bad.push(format!("step {step}: a named child {l:?} cannot be read at epoch {epoch}: {e}")); continue; } };
                seen += 1;
                if node.label != l { bad.push(format!("step {step}: the record stored under {l:?} carries label {:?}", node.label)); }
                for i in l.label_len..256 { if l.label_len < 256 && bit(&l, i) != 0 { bad.push(format!("step {step}: label {l:?} is not canonical")); break; } }
                let is_leaf = matches!(node.node_type, crate::tree_node::TreeNodeType::Leaf);
                if is_leaf != (l.label_len == 256) { bad.push(format!("step {step}: node {l:?}: leaf flag {is_leaf} but length {}", l.label_len)); }
                if is_leaf { continue; }
                if l.label_len != 0 && (node.left_child.is_none() || node.right_child.is_none()) { bad.push(format!("step {step}: interior node {l:?} other than the root lacks a child")); }
                let mut kids: Vec<Option<TreeNode>> = vec![];
                for (d, c) in [(0u8, node.left_child), (1u8, node.right_child)] {
                    match c {
                        Some(cl) => {
                            if !(cl.label_len > l.label_len && (0..l.label_len).all(|i| bit(&cl, i) == bit(&l, i)) && bit(&cl, l.label_len) == d) {
                                bad.push(format!("step {step}: child {cl:?} of {l:?} in direction {d} does not extend it by that bit"));
                            }
                            kids.push(TreeNode::get_from_storage(&db, &NodeKey(cl), epoch).await.ok());
                            stack.push(cl);
                        }
                        None => kids.push(None),
                    }
                }
                let lv = node_to_azks_value::<TC>(&kids[0], NodeHashingMode::WithLeafEpoch);
                let rv = node_to_azks_value::<TC>(&kids[1], NodeHashingMode::WithLeafEpoch);
                let ll = kids[0].as_ref().map(|k| k.label).unwrap_or_else(TC::empty_label);
                let rl = kids[1].as_ref().map(|k| k.label).unwrap_or_else(TC::empty_label);
                if node.hash != TC::compute_parent_hash_from_children(&lv, &ll.value::<TC>(), &rv, &rl.value::<TC>()) {
                    bad.push(format!("step {step}: node {l:?} does not store the parent hash of its children as read at epoch {epoch}"));
                }
                if bad.len() > 3 { break; }
            }
            if seen < 1 { bad.push(format!("step {step}: no root")); }
            if bad.len() > 3 { break; }
        }
        Ok(bad)
    }

    // ---- C01 (BOUNDED differential check): the directory's root hash against an INDEPENDENT computation of the hash of the canonical
    // compressed binary trie over the leaves the statement lists (written from the statement and the crate documentation, sharing only
    // the configuration's hash primitives and the VRF with the code under test)
    fn c01_bit(l: &NodeLabel, i: u32) -> u8 { (l.label_val[(i / 8) as usize] >> (7 - (i % 8))) & 1 }
    fn c01_prefix(l: &NodeLabel, len: u32) -> NodeLabel {
        let mut v = [0u8; 32];
        for i in 0..len { if c01_bit(l, i) == 1 { v[(i / 8) as usize] |= 1 << (7 - (i % 8)); } }
        NodeLabel::new(v, len)
    }
    /// (label of the subtree root, the value its parent hashes) of the canonical trie over `leaves` (all 256-bit labels, distinct), non-empty
    fn c01_subtree<TC: Configuration>(leaves: &[(NodeLabel, AzksValue, u64)]) -> (NodeLabel, AzksValue) {
        if leaves.len() == 1 {
            let (l, v, e) = leaves[0];
            return (l, AzksValue(TC::hash_leaf_with_commitment(v, e).0));
        }
        let mut lcp = 0u32;
        while lcp < 256 && leaves.iter().all(|x| c01_bit(&x.0, lcp) == c01_bit(&leaves[0].0, lcp)) { lcp += 1; }
        let left: Vec<_> = leaves.iter().filter(|x| c01_bit(&x.0, lcp) == 0).cloned().collect();
        let right: Vec<_> = leaves.iter().filter(|x| c01_bit(&x.0, lcp) == 1).cloned().collect();
        let (ll, lv) = c01_subtree::<TC>(&left);
        let (rl, rv) = c01_subtree::<TC>(&right);
        (c01_prefix(&leaves[0].0, lcp), TC::compute_parent_hash_from_children(&lv, &ll.value::<TC>(), &rv, &rl.value::<TC>()))
    }
    fn c01_root_hash<TC: Configuration>(leaves: &[(NodeLabel, AzksValue, u64)]) -> crate::Digest {
        if leaves.is_empty() { return TC::compute_root_hash_from_val(&TC::empty_root_value()); }
        let side = |b: u8| -> (NodeLabel, AzksValue) {
            let sub: Vec<_> = leaves.iter().filter(|x| c01_bit(&x.0, 0) == b).cloned().collect();
            if sub.is_empty() { (TC::empty_label(), TC::empty_node_hash()) } else { c01_subtree::<TC>(&sub) }
        };
        let (ll, lv) = side(0);
        let (rl, rv) = side(1);
        TC::compute_root_hash_from_val(&TC::compute_parent_hash_from_children(&lv, &ll.value::<TC>(), &rv, &rl.value::<TC>()))
    }
    /// Runs a seeded random history of `steps` publish calls over `nlabels` labels (batches of 1..=4 entries; some re-submit current
    /// values only, some name a label twice) and after every call compares (epoch, root hash) with the statement of C01.
    pub async fn c01_history<TC: Configuration>(seed: u64, steps: usize, nlabels: u64, parallel: bool) -> Result<Vec<String>, AkdError> {
        let vrf = HardCodedAkdVRF {};
        let ck = TC::hash(&vrf.retrieve().await?);
        let dir = Directory::<TC, _, _>::new(StorageManager::new_no_cache(AsyncInMemoryDatabase::new()), vrf.clone(),
            if parallel { AzksParallelismConfig::default() } else { AzksParallelismConfig::disabled() }).await?;
        let mut rng = seed.wrapping_mul(0x9E3779B97F4A7C15) | 1;
        let mut next = move || { rng ^= rng << 13; rng ^= rng >> 7; rng ^= rng << 17; rng };
        let mut state: HashMap<u64, (u64, Vec<u8>)> = HashMap::new();   // label index -> (version, current value)
        let mut leaves: Vec<(NodeLabel, AzksValue, u64)> = vec![];
        let mut epoch = 0u64;
        let mut bad = vec![];
        for step in 0..steps {
            let kind = next() % 8;
            let n = 1 + (next() % 4) as usize;
            let mut batch: Vec<(u64, Vec<u8>)> = vec![];
            for _ in 0..n {
                let l = next() % nlabels;
                if batch.iter().any(|b| b.0 == l) { continue; }
                let v = if kind == 0 { state.get(&l).map(|s| s.1.clone()).unwrap_or_else(|| vec![1]) } else { format!("v{}-{}", step, next() % 3).into_bytes() };
                batch.push((l, v));
            }
            let duplicate = kind == 1 && !batch.is_empty();
            if duplicate { let d = (batch[0].0, b"other".to_vec()); batch.push(d); }
            let name = |l: u64| AkdLabel(format!("label-{l}").into_bytes());
            let r = dir.publish(batch.iter().map(|(l, v)| (name(*l), AkdValue(v.clone()))).collect()).await;
            if duplicate {
                if r.is_ok() { bad.push(format!("step {step}: a batch that names a label twice was accepted")); }
            } else {
                // the statement: entries whose value differs from the current one (or whose label is new) change the directory
                let changed: Vec<(u64, Vec<u8>)> = batch.iter().filter(|(l, v)| state.get(l).map(|s| &s.1 != v).unwrap_or(true)).cloned().collect();
                if !changed.is_empty() { epoch += 1; }
                for (l, v) in changed {
                    let ver = state.get(&l).map(|s| s.0 + 1).unwrap_or(1);
                    if ver > 1 {
                        let sl = vrf.get_node_label::<TC>(&name(l), VersionFreshness::Stale, ver - 1).await?;
                        leaves.push((sl, TC::stale_azks_value(), epoch));
                    }
                    let fl = vrf.get_node_label::<TC>(&name(l), VersionFreshness::Fresh, ver).await?;
                    leaves.push((fl, TC::compute_fresh_azks_value(&ck, &fl, ver, &AkdValue(v.clone())), epoch));
                    state.insert(l, (ver, v));
                }
                if let Err(e) = &r { bad.push(format!("step {step}: publish failed: {e}")); }
            }
            let eh = dir.get_epoch_hash().await?;
            if eh.epoch() != epoch { bad.push(format!("step {step}: the directory is at epoch {} but {} publishes changed a value", eh.epoch(), epoch)); }
            else if eh.hash() != c01_root_hash::<TC>(&leaves) { bad.push(format!("step {step} (epoch {epoch}, {} leaves): the root hash is not the hash of the canonical trie over the leaves the history prescribes", leaves.len())); }
            if let (Ok(ret), false) = (&r, duplicate) { if ret.epoch() != eh.epoch() || ret.hash() != eh.hash() { bad.push(format!("step {step}: publish returned a pair other than the directory's epoch hash")); } }
            if bad.len() > 3 { break; }
        }
        Ok(bad)
    }

    /// C01 / C11 (retry after an interrupted commit): a publish whose records all reached storage EXCEPT the epoch record (emulated by
    /// restoring the previous epoch record) is retried with the same batch. The retry must create the epoch (it changes values as far as
    /// the directory's epoch record knows) and end at the canonical root of that history. Returns what went wrong, if anything.
    pub async fn c01_retry_after_interrupted_commit<TC: Configuration>() -> Result<Option<String>, AkdError> {
        let vrf = HardCodedAkdVRF {};
        let ck = TC::hash(&vrf.retrieve().await?);
        let db = AsyncInMemoryDatabase::new();
        let dir = Directory::<TC, _, _>::new(StorageManager::new_no_cache(db.clone()), vrf.clone(), AzksParallelismConfig::disabled()).await?;
        let kv = |k: &str, v: &str| (AkdLabel::from(k), AkdValue::from(v));
        dir.publish(vec![kv("a", "a1"), kv("b", "b1")]).await?;
        let checkpoint = dir.retrieve_azks().await?;
        let batch = vec![kv("a", "a2"), kv("c", "c1")];
        dir.publish(batch.clone()).await?;
        db.set(DbRecord::Azks(checkpoint)).await.map_err(AkdError::Storage)?;      // the epoch record of epoch 2 never made it
        let dir2 = Directory::<TC, _, _>::new(StorageManager::new_no_cache(db.clone()), vrf.clone(), AzksParallelismConfig::disabled()).await?;
        let r = dir2.publish(batch).await?;
        if r.epoch() != 2 { return Ok(Some(format!("the retried publish returned epoch {} (the epoch record said 1, the batch changes values: epoch 2 is required)", r.epoch()))); }
        let mut leaves = vec![];
        for (name, ver, val, ep) in [("a", 1u64, "a1", 1u64), ("b", 1, "b1", 1), ("a", 2, "a2", 2), ("c", 1, "c1", 2)] {
            let l = vrf.get_node_label::<TC>(&AkdLabel::from(name), VersionFreshness::Fresh, ver).await?;
            leaves.push((l, TC::compute_fresh_azks_value(&ck, &l, ver, &AkdValue::from(val)), ep));
        }
        let sl = vrf.get_node_label::<TC>(&AkdLabel::from("a"), VersionFreshness::Stale, 1).await?;
        leaves.push((sl, TC::stale_azks_value(), 2));
        if r.hash() != c01_root_hash::<TC>(&leaves) { return Ok(Some("after the retry the root hash is not the canonical one for the history".to_string())); }
        Ok(None)
    }

    /// C10 with PARALLEL insertion and a batch large enough to spawn tasks: publish 24 labels; the second publish (all 24 updated) fails at
    /// database operation k; everything the call left running gets its chance to run; then a DIFFERENT small batch is published and the
    /// result compared with a directory that never saw the failed call. Returns (failed, records before, records after the failed call,
    /// final state matches the reference, every lookup of the final state verifies).
    pub async fn c10_stray_writes<TC: Configuration>(k: i64, cache: bool) -> Result<(bool, usize, usize, bool, bool), AkdError> {
        use std::sync::atomic::AtomicI64;
        let b1: Vec<(AkdLabel, AkdValue)> = (0..24).map(|i| (AkdLabel(format!("u{i}").into_bytes()), AkdValue(format!("a{i}").into_bytes()))).collect();
        let b2: Vec<(AkdLabel, AkdValue)> = (0..24).map(|i| (AkdLabel(format!("u{i}").into_bytes()), AkdValue(format!("b{i}").into_bytes()))).collect();
        let b3 = vec![(AkdLabel::from("u3"), AkdValue::from("c3")), (AkdLabel::from("fresh"), AkdValue::from("f1"))];
        let mk = |db: FaultyDb| if cache { StorageManager::new(db, None, None, None) } else { StorageManager::new_no_cache(db) };
        let rdb = FaultyDb { inner: AsyncInMemoryDatabase::new(), ops: Arc::new(AtomicI64::new(0)), fail_at: Arc::new(AtomicI64::new(-1)) };
        let rdir = Directory::<TC, _, _>::new(mk(rdb), HardCodedAkdVRF {}, AzksParallelismConfig::default()).await?;
        rdir.publish(b1.clone()).await?;
        let reference = rdir.publish(b3.clone()).await?;
        let db = FaultyDb { inner: AsyncInMemoryDatabase::new(), ops: Arc::new(AtomicI64::new(0)), fail_at: Arc::new(AtomicI64::new(-1)) };
        let dir = Directory::<TC, _, _>::new(mk(db.clone()), HardCodedAkdVRF {}, AzksParallelismConfig::default()).await?;
        dir.publish(b1.clone()).await?;
        let before = db.inner.size_of_db();
        db.ops.store(0, Ordering::SeqCst);
        db.fail_at.store(k, Ordering::SeqCst);
        let r = dir.publish(b2).await;
        db.fail_at.store(-1, Ordering::SeqCst);
        for _ in 0..512 { tokio::task::yield_now().await; }
        let after = db.inner.size_of_db();
        if r.is_ok() { return Ok((false, before, after, true, true)); }
        let fin = match dir.publish(b3).await { Ok(e) => e, Err(_) => return Ok((true, before, after, false, false)) };
        let same = fin.epoch() == reference.epoch() && fin.hash() == reference.hash();
        let pk = dir.get_public_key().await?;
        let mut all_verify = true;
        for i in [0usize, 3, 7, 23] {
            let name = AkdLabel(format!("u{i}").into_bytes());
            match dir.lookup(name.clone()).await {
                Ok((p, eh)) => if lookup_verify::<TC>(pk.as_bytes(), eh.hash(), eh.epoch(), name, p).is_err() { all_verify = false; },
                Err(_) => all_verify = false,
            }
        }
        Ok((true, before, after, same, all_verify))
    }
}
