#[doc(hidden)]
#[allow(missing_docs)]
pub mod vx_export {
    //! Added in the /verif overlay copy only.
    pub fn get_marker_version_log2(v: u64) -> u64 {
        super::get_marker_version_log2(v)
    }
}
