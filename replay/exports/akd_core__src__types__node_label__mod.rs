#[doc(hidden)]
#[allow(missing_docs)]
pub mod vx_export {
    //! Added in the /verif overlay copy only: public wrappers around module-private functions.
    use super::*;
    /// bit i (MSB first) through the real `get_bit_at`: Some(0/1), None on Err
    pub fn get_bit_at(l: &NodeLabel, i: u32) -> Option<u8> {
        match l.get_bit_at(i) {
            Ok(Bit::Zero) => Some(0),
            Ok(Bit::One) => Some(1),
            Err(_) => None,
        }
    }
    pub fn get_bit_from_slice(s: &[u8], i: u32) -> Option<u8> {
        match super::get_bit_from_slice(s, i) {
            Ok(Bit::Zero) => Some(0),
            Ok(Bit::One) => Some(1),
            Err(_) => None,
        }
    }
}
