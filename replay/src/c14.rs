//! C14 (BOUNDED): same history, every combination of insertion parallelism x cache x restart x runtime (single-threaded / 4 workers),
//! both configurations: identical epoch hashes and identical verified results. The deductive part: the two compile variants of
//! get_node_labels satisfy one contract (units vrf_labels, vrf_labels_seq) and both branches of the audit walk satisfy walk_spec.
use crate::{Failure, SearchResult};
use akd_core::{ExampleLabel, ExperimentalConfiguration, WhatsAppV1Configuration};

fn run(cfg: &str, multi: bool, rt: &tokio::runtime::Runtime, out: &mut Vec<Failure>) {
    let go = |rt: &tokio::runtime::Runtime| if cfg == "whatsapp_v1" {
        rt.block_on(akd::vx_export::c14_variants::<WhatsAppV1Configuration>())
    } else {
        rt.block_on(akd::vx_export::c14_variants::<ExperimentalConfiguration<ExampleLabel>>())
    };
    std::panic::set_hook(Box::new(|_| {}));
    let r = std::panic::catch_unwind(std::panic::AssertUnwindSafe(|| if multi { go(&tokio::runtime::Builder::new_multi_thread().worker_threads(4).enable_all().build().unwrap()) } else { go(rt) }));
    let _ = std::panic::take_hook();
    let r = match r { Ok(x) => x, Err(_) => Ok(vec!["a call PANICKED in one of the variants (every variant must produce results)".to_string()]) };
    if let Ok(bad) = r {
        if let Some(b) = bad.first() {
            out.push(Failure {
                clause: "replay/c14#variants".into(),
                case: vec!["c14".into(), cfg.into(), (multi as u8).to_string()],
                input: format!("[{cfg}, {} runtime] 4-epoch history (12 labels, updates, the 12 again in reverse order, one more) under {{sequential, parallel}} x {{no cache, default cache, 64-byte memory limit, 2 ms item lifetime}} x {{long-lived, re-created before every call}}", if multi { "4-worker" } else { "single-threaded" }),
                expected: "identical epoch hashes and identical verified lookup results in every variant".into(),
                observed: format!("{b} ({} problems)", bad.len()),
                finding_id: None,
            });
        }
    }
}

pub fn search(_seed: u64, _full: bool, rt: &tokio::runtime::Runtime) -> SearchResult {
    let mut out = vec![];
    let mut n = 0;
    for cfg in ["whatsapp_v1", "experimental"] { for multi in [false, true] { run(cfg, multi, rt, &mut out); n += 16; } }
    SearchResult { evaluations: n, failures: out, summary: "BOUNDED: one 4-epoch history under 16 variants (parallelism x cache {none, default, 64-byte memory limit, 2 ms lifetime} x restart) x 2 runtimes x both configurations".into() }
}

pub fn replay(case: &[&str], rt: &tokio::runtime::Runtime) -> (bool, String) {
    let mut out = vec![];
    run(case[0], case[1] == "1", rt, &mut out);
    match out.first() { Some(f) => (true, format!("{}: expected {}, observed {}", f.input, f.expected, f.observed)), None => (false, "holds".into()) }
}
