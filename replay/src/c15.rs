//! C15: bulk versions query inside a transaction vs after commit (contract manager/get_user_state_versions#E_bulk),
//! over well-formed data: versions increase with epochs, same epoch keeps the version.
use crate::{Failure, SearchResult};

fn run(e_db: u64, v_db: u64, e_t: u64, v_t: u64, flag: u8, rt: &tokio::runtime::Runtime, out: &mut Vec<Failure>) {
    let r = rt.block_on(akd::vx_export::c15_bulk_versions(e_db, v_db, e_t, v_t, flag));
    if let Ok((inside, after)) = r {
        if inside != after {
            out.push(Failure {
                clause: "manager/StorageManager.get_user_state_versions#E_bulk".into(),
                case: vec!["c15".into(), e_db.to_string(), v_db.to_string(), e_t.to_string(), v_t.to_string(), flag.to_string()],
                input: format!("database state (epoch {e_db}, version {v_db}, 'A'), pending state (epoch {e_t}, version {v_t}, 'B'), flag #{flag} (0 Max 1 Min 2 Leq(100) 3 SpecificEpoch 4 SpecificVersion): get_user_state_versions inside the transaction"),
                expected: format!("{after:?} (what the same query returns after commit)"),
                observed: format!("{inside:?}"),
                finding_id: None,
            });
        }
    }
}

fn run_user_data(e_db: u64, e_t: u64, rt: &tokio::runtime::Runtime, out: &mut Vec<Failure>) {
    if let Ok((inside, after)) = rt.block_on(akd::vx_export::c15_user_data(e_db, e_t)) {
        if inside != after {
            out.push(Failure {
                clause: "manager/StorageManager.get_user_data#overlay".into(),
                case: vec!["c15".into(), "userdata".into(), e_db.to_string(), e_t.to_string()],
                input: format!("database state (epoch {e_db}, 'A'), pending state (epoch {e_t}, 'B'): get_user_data inside the transaction"),
                expected: format!("{after:?} (what the same query returns after commit)"),
                observed: format!("{inside:?}"),
                finding_id: None,
            });
        }
    }
}

fn run_refused_begin(rt: &tokio::runtime::Runtime, out: &mut Vec<Failure>) {
    if let Ok((refused, readable, stored)) = rt.block_on(akd::vx_export::c15_refused_begin()) {
        if !refused || !readable || !stored {
            out.push(Failure {
                clause: "transaction/Transaction.begin_transaction#pending_kept".into(),
                case: vec!["c15".into(), "refusedbegin".into()],
                input: "begin_transaction, set(epoch record 7), begin_transaction again, get(epoch record), commit".into(),
                expected: "the second begin is refused, the pending record stays readable and is what the commit stores".into(),
                observed: format!("refused={refused} readable before commit={readable} stored after commit={stored}"),
                finding_id: None,
            });
        }
    }
}

pub fn search(_seed: u64, _full: bool, rt: &tokio::runtime::Runtime) -> SearchResult {
    let mut out = vec![];
    let mut n = 0;
    for (e_db, e_t) in [(1u64, 1u64), (1, 2), (2, 1), (5, 5)] { run_user_data(e_db, e_t, rt, &mut out); n += 1; }
    run_refused_begin(rt, &mut out); n += 1;
    // well-formed pairs: (e_db, v_db) vs (e_t, v_t)
    let pairs = [(1u64, 1u64, 5u64, 2u64), (5, 2, 1, 1), (3, 2, 3, 2), (2, 1, 7, 2), (7, 3, 2, 1), (1, 1, 2, 2)];
    for (e_db, v_db, e_t, v_t) in pairs {
        for flag in 0..5u8 {
            run(e_db, v_db, e_t, v_t, flag, rt, &mut out);
            n += 1;
        }
    }
    SearchResult { evaluations: n, failures: out, summary: "all-states read (get_user_data) inside a transaction vs after commit incl. a pending rewrite of a committed epoch; pending writes across a refused begin; bulk versions query inside a transaction vs after commit: one user, database and pending state in every epoch/version relation, all five retrieval flags".into() }
}

pub fn replay(case: &[&str], rt: &tokio::runtime::Runtime) -> (bool, String) {
    if case[0] == "userdata" || case[0] == "refusedbegin" {
        let mut out = vec![];
        if case[0] == "userdata" { run_user_data(case[1].parse().unwrap(), case[2].parse().unwrap(), rt, &mut out); } else { run_refused_begin(rt, &mut out); }
        return match out.first() { Some(f) => (true, format!("{}: expected {}, observed {}", f.input, f.expected, f.observed)), None => (false, "holds".into()) };
    }
    let v: Vec<u64> = case.iter().map(|s| s.parse().unwrap()).collect();
    let mut out = vec![];
    run(v[0], v[1], v[2], v[3], v[4] as u8, rt, &mut out);
    match out.first() { Some(f) => (true, format!("{}: expected {}, observed {}", f.input, f.expected, f.observed)), None => (false, "holds".into()) }
}
