//! C15: bulk versions query inside a transaction vs after commit (contract manager/get_user_state_versions#E_bulk),
//! over well-formed data: versions increase with epochs, same epoch keeps the version.
use crate::{Failure, SearchResult};

fn run(e_db: u64, v_db: u64, e_t: u64, v_t: u64, flag: u8, rt: &tokio::runtime::Runtime, out: &mut Vec<Failure>) {
    let r = rt.block_on(akd::vx_export::c15_bulk_versions(e_db, v_db, e_t, v_t, flag));
    if let Ok((inside, after)) = r {
        if inside != after {
            out.push(Failure {
                clause: "manager/StorageManager.get_user_state_versions#E_bulk".into(),
                case: vec!["c15".into(), e_db.to_string(), v_db.to_string(), e_t.to_string(), v_t.to_string(), flag.to_string()],
                input: format!("database state (epoch {e_db}, version {v_db}, 'A'), pending state (epoch {e_t}, version {v_t}, 'B'), flag #{flag} (0 Max 1 Min 2 Leq(100) 3 SpecificEpoch 4 SpecificVersion): get_user_state_versions inside the transaction"),
                expected: format!("{after:?} (what the same query returns after commit)"),
                observed: format!("{inside:?}"),
                finding_id: None,
            });
        }
    }
}

fn run_user_data(e_db: u64, e_t: u64, rt: &tokio::runtime::Runtime, out: &mut Vec<Failure>) {
    if let Ok((inside, after)) = rt.block_on(akd::vx_export::c15_user_data(e_db, e_t)) {
        if inside != after {
            out.push(Failure {
                clause: "manager/StorageManager.get_user_data#overlay".into(),
                case: vec!["c15".into(), "userdata".into(), e_db.to_string(), e_t.to_string()],
                input: format!("database state (epoch {e_db}, 'A'), pending state (epoch {e_t}, 'B'): get_user_data inside the transaction"),
                expected: format!("{after:?} (what the same query returns after commit)"),
                observed: format!("{inside:?}"),
                finding_id: None,
            });
        }
    }
}

fn run_refused_begin(rt: &tokio::runtime::Runtime, out: &mut Vec<Failure>) {
    if let Ok((refused, readable, stored)) = rt.block_on(akd::vx_export::c15_refused_begin()) {
        if !refused || !readable || !stored {
            out.push(Failure {
                clause: "transaction/Transaction.begin_transaction#pending_kept".into(),
                case: vec!["c15".into(), "refusedbegin".into()],
                input: "begin_transaction, set(epoch record 7), begin_transaction again, get(epoch record), commit".into(),
                expected: "the second begin is refused, the pending record stays readable and is what the commit stores".into(),
                observed: format!("refused={refused} readable before commit={readable} stored after commit={stored}"),
                finding_id: None,
            });
        }
    }
}

fn run_many_pending(cache: bool, rt: &tokio::runtime::Runtime, out: &mut Vec<Failure>) {
    if let Ok(bad) = rt.block_on(akd::vx_export::c15_many_pending(cache)) {
        if let Some(b) = bad.first() {
            out.push(Failure {
                clause: "transaction/Transaction.get_users_data#epoch_order".into(),
                case: vec!["c15".into(), "manypending".into(), (cache as u8).to_string()],
                input: format!("{} cache: committed state (epoch 1, 'm'); in ONE transaction pending states (2,'zz'), (3,'kk'), (4,'aa') of the same user; get_user_state / get_user_state_versions with 8 flags inside the transaction and after the commit", if cache { "with" } else { "without" }),
                expected: "the same answers".into(),
                observed: format!("{b} ({} differences)", bad.len()),
                finding_id: None,
            });
        }
    }
}

fn run_rollback(cache: bool, which: u8, rt: &tokio::runtime::Runtime, out: &mut Vec<Failure>) {
    if let Ok(bad) = rt.block_on(akd::vx_export::c15_rollback_with_cache(cache, which)) {
        if let Some(b) = bad.first() {
            out.push(Failure {
                clause: (if which == 0 { "manager/StorageManager.set#body" } else { "manager/StorageManager.batch_set#body" }).into(),
                case: vec!["c15".into(), "rollback".into(), (cache as u8).to_string(), which.to_string()],
                input: format!("{} cache: committed node N and epoch record 1; in a transaction {} a different node under N's key, a new node and epoch record 2; rollback; read all three", if cache { "with" } else { "without" }, if which == 0 { "set" } else { "batch_set" }),
                expected: "the committed state: rollback discards every pending write".into(),
                observed: format!("{b} ({} problems)", bad.len()),
                finding_id: None,
            });
        }
    }
}

pub fn search(_seed: u64, _full: bool, rt: &tokio::runtime::Runtime) -> SearchResult {
    let mut out = vec![];
    let mut n = 0;
    for cache in [false, true] { run_many_pending(cache, rt, &mut out); n += 16; for which in 0..2u8 { run_rollback(cache, which, rt, &mut out); n += 1; } }
    for (e_db, e_t) in [(1u64, 1u64), (1, 2), (2, 1), (5, 5)] { run_user_data(e_db, e_t, rt, &mut out); n += 1; }
    run_refused_begin(rt, &mut out); n += 1;
    // well-formed pairs: (e_db, v_db) vs (e_t, v_t)
    let pairs = [(1u64, 1u64, 5u64, 2u64), (5, 2, 1, 1), (3, 2, 3, 2), (2, 1, 7, 2), (7, 3, 2, 1), (1, 1, 2, 2)];
    for (e_db, v_db, e_t, v_t) in pairs {
        for flag in 0..5u8 {
            run(e_db, v_db, e_t, v_t, flag, rt, &mut out);
            n += 1;
        }
    }
    SearchResult { evaluations: n, failures: out, summary: "three pending states of one user whose values do not sort like their epochs x 8 flags x {single, bulk} query inside the transaction vs after commit; rollback after set / batch_set of a rewritten node, a new node and a newer epoch record, with and without cache; all-states read (get_user_data) inside a transaction vs after commit incl. a pending rewrite of a committed epoch; pending writes across a refused begin; bulk versions query inside a transaction vs after commit: one user, database and pending state in every epoch/version relation, all five retrieval flags".into() }
}

pub fn replay(case: &[&str], rt: &tokio::runtime::Runtime) -> (bool, String) {
    if case[0] == "manypending" || case[0] == "rollback" {
        let mut out = vec![];
        if case[0] == "manypending" { run_many_pending(case[1] == "1", rt, &mut out); } else { run_rollback(case[1] == "1", case[2].parse().unwrap(), rt, &mut out); }
        return match out.first() { Some(f) => (true, format!("{}: expected {}, observed {}", f.input, f.expected, f.observed)), None => (false, "holds".into()) };
    }
    if case[0] == "userdata" || case[0] == "refusedbegin" {
        let mut out = vec![];
        if case[0] == "userdata" { run_user_data(case[1].parse().unwrap(), case[2].parse().unwrap(), rt, &mut out); } else { run_refused_begin(rt, &mut out); }
        return match out.first() { Some(f) => (true, format!("{}: expected {}, observed {}", f.input, f.expected, f.observed)), None => (false, "holds".into()) };
    }
    let v: Vec<u64> = case.iter().map(|s| s.parse().unwrap()).collect();
    let mut out = vec![];
    run(v[0], v[1], v[2], v[3], v[4] as u8, rt, &mut out);
    match out.first() { Some(f) => (true, format!("{}: expected {}, observed {}", f.input, f.expected, f.observed)), None => (false, "holds".into()) }
}
