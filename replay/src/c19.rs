//! C19, BOUNDED stand-in for whole proofs (the composite converters are beyond Kani's reach here): real lookup / history /
//! append-only proofs of a small directory go proof -> protobuf message -> bytes -> message -> proof and must come back
//! identical and verify to the same result; truncated and bit-flipped encodings must decode to Err or Ok without panicking.
use crate::{Failure, SearchResult};
use akd::directory::Directory;
use akd::ecvrf::HardCodedAkdVRF;
use akd::storage::manager::StorageManager;
use akd::storage::memory::AsyncInMemoryDatabase;
use akd::{AkdLabel, AkdValue, AppendOnlyProof, HistoryParams, HistoryProof, HistoryVerificationParams, LookupProof};
use akd_core::proto::specs::types as pb;
use akd_core::Configuration;
use protobuf::Message;

fn fail(clause: &str, what: String, exp: &str, obs: String) -> Failure {
    Failure { clause: clause.to_string(), case: vec!["c19".into(), "wire".into()], input: what, expected: exp.into(), observed: obs, finding_id: None }
}

async fn run_cfg<TC: Configuration>(cfg: &str, seed: u64, out: &mut Vec<Failure>) -> u64 {
    let mut n = 0u64;
    let db = AsyncInMemoryDatabase::new();
    let akd = match Directory::<TC, _, _>::new(StorageManager::new_no_cache(db), HardCodedAkdVRF {}, akd::append_only_zks::AzksParallelismConfig::disabled()).await { Ok(a) => a, Err(_) => return 0 };
    let l = |s: &str| AkdLabel::from(s);
    let v = |s: &str| AkdValue::from(s);
    let _ = akd.publish(vec![(l("a"), v("1")), (l("b"), v("x"))]).await;
    let _ = akd.publish(vec![(l("a"), v("2"))]).await;
    let _ = akd.publish(vec![(l("a"), v("")), (l("c"), v("a much longer value than the others, to vary the field sizes"))]).await;
    let pk = match akd.get_public_key().await { Ok(p) => p, Err(_) => return 0 };

    // lookup proofs
    for name in ["a", "b", "c"] {
        if let Ok((proof, eh)) = akd.lookup(l(name)).await {
            let msg: pb::LookupProof = (&proof).into();
            let bytes = msg.write_to_bytes().unwrap();
            let back: Result<LookupProof, _> = pb::LookupProof::parse_from_bytes(&bytes).map_err(|e| e.to_string()).and_then(|m| (&m).try_into().map_err(|e: akd_core::proto::ConversionError| e.to_string()));
            n += 1;
            match back {
                Ok(b) if b == proof => {
                    let r1 = akd::client::lookup_verify::<TC>(pk.as_bytes(), eh.hash(), eh.epoch(), l(name), proof.clone());
                    let r2 = akd::client::lookup_verify::<TC>(pk.as_bytes(), eh.hash(), eh.epoch(), l(name), b);
                    if r1 != r2 { out.push(fail("proto/whole_proof#roundtrip", format!("[{cfg}] lookup proof of '{name}'"), "same verification result after the round trip", format!("{r1:?} vs {r2:?}"))); }
                }
                Ok(_) => out.push(fail("proto/whole_proof#roundtrip", format!("[{cfg}] lookup proof of '{name}'"), "identical proof after proto/bytes round trip", "a different proof".into())),
                Err(e) => out.push(fail("proto/whole_proof#roundtrip", format!("[{cfg}] lookup proof of '{name}'"), "identical proof after proto/bytes round trip", e)),
            }
            corrupt::<pb::LookupProof, LookupProof>(&bytes, seed, &format!("[{cfg}] lookup proof of '{name}'"), out, &mut n);
        }
    }
    // history proofs: complete (reaches version 1: previous-version fields absent) and most recent
    for params in [HistoryParams::Complete, HistoryParams::MostRecent(1), HistoryParams::MostRecent(2)] {
        if let Ok((proof, eh)) = akd.key_history(&l("a"), params).await {
            let msg: pb::HistoryProof = (&proof).into();
            let bytes = msg.write_to_bytes().unwrap();
            let back: Result<HistoryProof, _> = pb::HistoryProof::parse_from_bytes(&bytes).map_err(|e| e.to_string()).and_then(|m| (&m).try_into().map_err(|e: akd_core::proto::ConversionError| e.to_string()));
            n += 1;
            match back {
                Ok(b) if b == proof => {
                    let vp = HistoryVerificationParams::Default { history_params: params };
                    let r1 = akd::client::key_history_verify::<TC>(pk.as_bytes(), eh.hash(), eh.epoch(), l("a"), proof.clone(), vp);
                    let r2 = akd::client::key_history_verify::<TC>(pk.as_bytes(), eh.hash(), eh.epoch(), l("a"), b, vp);
                    if r1 != r2 { out.push(fail("proto/whole_proof#roundtrip", format!("[{cfg}] history proof {params:?}"), "same verification result after the round trip", format!("{r1:?} vs {r2:?}"))); }
                }
                Ok(b) => out.push(fail("proto/whole_proof#roundtrip", format!("[{cfg}] history proof of 'a' ({params:?}, {} update proofs)", proof.update_proofs.len()),
                    "identical proof after proto/bytes round trip", format!("previous-version fields of the oldest update: {:?} became {:?}",
                        proof.update_proofs.last().map(|u| (u.version, u.previous_version_vrf_proof.clone())), b.update_proofs.last().map(|u| (u.version, u.previous_version_vrf_proof.clone()))))),
                Err(e) => out.push(fail("proto/whole_proof#roundtrip", format!("[{cfg}] history proof {params:?}"), "identical proof after proto/bytes round trip", e)),
            }
            corrupt::<pb::HistoryProof, HistoryProof>(&bytes, seed, &format!("[{cfg}] history proof {params:?}"), out, &mut n);
        }
    }
    // append-only proofs
    for (s, e) in [(0u64, 1u64), (1, 3), (0, 3)] {
        if let Ok(proof) = akd.audit(s, e).await {
            let msg: pb::AppendOnlyProof = (&proof).into();
            let bytes = msg.write_to_bytes().unwrap();
            let back: Result<AppendOnlyProof, _> = pb::AppendOnlyProof::parse_from_bytes(&bytes).map_err(|e| e.to_string()).and_then(|m| (&m).try_into().map_err(|e: akd_core::proto::ConversionError| e.to_string()));
            n += 1;
            match back {
                Ok(b) if b == proof => {}
                Ok(_) => out.push(fail("proto/whole_proof#roundtrip", format!("[{cfg}] append-only proof ({s},{e})"), "identical proof after proto/bytes round trip", "a different proof".into())),
                Err(er) => out.push(fail("proto/whole_proof#roundtrip", format!("[{cfg}] append-only proof ({s},{e})"), "identical proof after proto/bytes round trip", er)),
            }
            corrupt::<pb::AppendOnlyProof, AppendOnlyProof>(&bytes, seed, &format!("[{cfg}] append-only proof ({s},{e})"), out, &mut n);
        }
    }
    n
}

/// truncations at every length and seeded single-bit flips: decoding must return (Err or Ok), never panic
fn corrupt<M: Message, T>(bytes: &[u8], seed: u64, what: &str, out: &mut Vec<Failure>, n: &mut u64)
where for<'a> T: TryFrom<&'a M> {
    let mut r = crate::rng::Rng(seed ^ 0xC19);
    let mut variants: Vec<Vec<u8>> = (0..bytes.len().min(400)).map(|k| bytes[..k].to_vec()).collect();
    for _ in 0..300 {
        let mut b = bytes.to_vec();
        if b.is_empty() { break; }
        let i = r.below(b.len() as u64) as usize;
        b[i] ^= 1 << r.below(8);
        variants.push(b);
    }
    for v in variants {
        *n += 1;
        let res = std::panic::catch_unwind(|| { if let Ok(m) = M::parse_from_bytes(&v) { let _ = T::try_from(&m).is_ok(); } });
        if res.is_err() && out.len() < 10 {
            out.push(fail("proto/whole_proof#no_panic", format!("{what}: corrupted encoding of {} bytes", v.len()), "Err or Ok, no panic", "panic".into()));
        }
    }
}

pub fn search(seed: u64, _full: bool, rt: &tokio::runtime::Runtime) -> SearchResult {
    std::panic::set_hook(Box::new(|_| {}));
    let mut out = vec![];
    let mut n = 0;
    n += rt.block_on(run_cfg::<akd_core::WhatsAppV1Configuration>("whatsapp_v1", seed, &mut out));
    n += rt.block_on(run_cfg::<akd_core::ExperimentalConfiguration<akd_core::ExampleLabel>>("experimental", seed, &mut out));
    // attacker-chosen counters at the top of their range: a panic is not a rejection
    for (cfg, f) in [("whatsapp_v1", akd::vx_export::c19_counter_at_max::<akd_core::WhatsAppV1Configuration> as fn(u8) -> String),
                     ("experimental", akd::vx_export::c19_counter_at_max::<akd_core::ExperimentalConfiguration<akd_core::ExampleLabel>> as fn(u8) -> String)] {
        for which in 0..2u8 {
            let r = f(which);
            n += 1;
            if r != "err" {
                out.push(Failure {
                    clause: (if which == 0 { "verify_history/verify_with_history_params#body" } else { "auditor/audit_verify#body" }).into(),
                    case: vec!["c19".into(), "countermax".into(), cfg.into(), which.to_string()],
                    input: format!("[{cfg}] {}", if which == 0 { "key_history_verify on a history proof whose second entry claims version u64::MAX" } else { "audit_verify on an append-only proof whose epoch list holds u64::MAX" }),
                    expected: "an error (in a build with overflow checks, as `cargo test` and debug builds are)".into(),
                    observed: r,
                    finding_id: None,
                });
            }
        }
    }
    let _ = std::panic::take_hook();
    SearchResult { evaluations: n, failures: out, summary: "counters at u64::MAX in a history proof / an audit proof are refused without panic; BOUNDED whole-proof check: real lookup / history (Complete, MostRecent) / append-only proofs of a 3-epoch directory through proto message and wire bytes and back (identical proof, same verification result); every truncation and 300 seeded bit flips of each encoding decode without panic; both configurations".into() }
}

pub fn replay(_case: &[&str], rt: &tokio::runtime::Runtime) -> (bool, String) {
    let r = search(0, false, rt);
    match r.failures.first() { Some(f) => (true, format!("{}: expected {}, observed {}", f.input, f.expected, f.observed)), None => (false, "holds".into()) }
}
