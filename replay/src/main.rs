//! vx-replay: executes the *real* akd code (overlay copy of /repo's working tree: original sources plus
//! appended public wrapper modules) against executable renderings of the contract clauses.
//!
//!   vx-replay search  <Cxx> <seed> <quick|full>   enumerate small domains + seeded random inputs; JSON result on the last line
//!   vx-replay finding <id>                         re-run the witness of a known finding
//!   vx-replay replay  <case...>                    re-execute one recorded case
mod c01;
mod c0203;
mod c04;
mod c05;
mod c0607;
mod c08;
mod c09;
mod c10;
mod c11;
mod c12;
mod c13;
mod c14;
mod c15;
mod c16;
mod c18;
mod c17;
mod c19;
mod json;
mod rng;

use json::J;

pub struct Failure {
    pub clause: String,
    pub case: Vec<String>,
    pub input: String,
    pub expected: String,
    pub observed: String,
    pub finding_id: Option<String>,
}

pub struct SearchResult {
    pub evaluations: u64,
    pub failures: Vec<Failure>,
    pub summary: String,
}

fn emit_search(r: SearchResult) {
    let fails: Vec<J> = r
        .failures
        .iter()
        .take(20)
        .map(|f| {
            let mut o = vec![
                ("clause", J::s(&f.clause)),
                ("case", J::Arr(f.case.iter().map(|c| J::s(c)).collect())),
                ("input", J::s(&f.input)),
                ("expected", J::s(&f.expected)),
                ("observed", J::s(&f.observed)),
            ];
            if let Some(id) = &f.finding_id {
                o.push(("finding_id", J::s(id)));
            }
            J::obj(o)
        })
        .collect();
    let out = J::obj(vec![
        ("evaluations", J::Num(r.evaluations as f64)),
        ("n_failures", J::Num(r.failures.len() as f64)),
        ("failures", J::Arr(fails)),
        ("summary", J::s(&r.summary)),
    ]);
    println!("{}", out.render());
}

fn main() {
    let args: Vec<String> = std::env::args().skip(1).collect();
    if args.is_empty() {
        eprintln!("usage: vx-replay search|finding|replay ...");
        std::process::exit(2);
    }
    let rt = tokio::runtime::Builder::new_current_thread().enable_all().build().unwrap();
    match args[0].as_str() {
        "search" => {
            let pid = args[1].as_str();
            let seed: u64 = args.get(2).and_then(|s| s.parse().ok()).unwrap_or(0);
            let full = args.get(3).map(|s| s == "full").unwrap_or(false);
            let r = match pid {
                "C08" => {
                    // marker agreement + the history verifier on proofs with withheld / truncated marker lists
                    let a = c08::search(seed, full, &rt);
                    let b = c0607::search("C07", seed, full, &rt);
                    let mut failures = a.failures;
                    failures.extend(b.failures);
                    SearchResult { evaluations: a.evaluations + b.evaluations, failures, summary: format!("{}; {}", a.summary, b.summary) }
                }
                "C17" => c17::search(seed, full),
                "C01" => c01::search(seed, full, &rt),
                "C02" | "C03" => c0203::search(seed, full, &rt),
                "C18" => {
                    // the labels the server places in the tree vs the labels the proofs verify to: tampered histories + end-to-end answers
                    let a = c0607::search("C07", seed, full, &rt);
                    let b = c0203::search(seed, full, &rt);
                    let c = c18::search(seed, full, &rt);
                    let mut failures = c.failures;
                    failures.extend(a.failures);
                    failures.extend(b.failures);
                    SearchResult { evaluations: a.evaluations + b.evaluations + c.evaluations, failures, summary: format!("{}; {}; {}", c.summary, a.summary, b.summary) }
                }
                "C04" => c04::search(seed, full, &rt),
                "C05" => {
                    // proofs over trees + the label operations (prefix test, lcp, ordering) generation and verification rely on
                    let a = c05::search(seed, full, &rt);
                    let b = c17::search_opts(seed, full, false);
                    let mut failures = a.failures;
                    failures.extend(b.failures.into_iter().filter(|f| !f.clause.contains("cmp")));
                    SearchResult { evaluations: a.evaluations + b.evaluations, failures, summary: format!("{}; {}", a.summary, b.summary) }
                }
                "C06" => c0607::search(pid, seed, full, &rt),
                "C07" => {
                    // the history verifier on tampered proofs + the marker sets it relies on
                    let a = c0607::search(pid, seed, full, &rt);
                    let b = c08::search(seed, full, &rt);
                    let mut failures = a.failures;
                    failures.extend(b.failures);
                    SearchResult { evaluations: a.evaluations + b.evaluations, failures, summary: format!("{}; {}", a.summary, b.summary) }
                }
                "C09" => c09::search(seed, full, &rt),
                "C10" => c10::search(seed, full, &rt),
                "C11" => c11::search(seed, full, &rt),
                "C12" => c12::search(seed, full, &rt),
                "C13" => c13::search(seed, full, &rt),
                "C14" => c14::search(seed, full, &rt),
                "C15" => c15::search(seed, full, &rt),
                "C16" => c16::search(seed, full, &rt),
                "C19" => c19::search(seed, full, &rt),
                _ => SearchResult { evaluations: 0, failures: vec![], summary: format!("no executable search registered for {pid}") },
            };
            emit_search(r);
        }
        "probe-empty" => { println!("{:?}", c05::empty_tree(&rt)); }
        "probe-stray" => {
            for cache in [false, true] { for k in 0..200i64 {
                match rt.block_on(akd::vx_export::c10_stray_writes::<akd_core::WhatsAppV1Configuration>(k, cache)) {
                    Ok((failed, b, a, same, ver)) => { if !failed { println!("cache={cache} k={k}: no fault hit"); break; } if a != b || !same || !ver { println!("cache={cache} k={k}: failed publish; records {b} -> {a}; final state matches reference: {same}; lookups verify: {ver}"); } }
                    Err(e) => { println!("k={k}: {e}"); break; }
                }
            } }
        }
        "probe-c19max" => {
            std::panic::set_hook(Box::new(|_| {}));
            for which in 0..2u8 { println!("which={which}: {}", akd::vx_export::c19_counter_at_max::<akd_core::WhatsAppV1Configuration>(which)); }
        }
        "probe-c12c" => {
            for cache in [false, true] {
                let r = rt.block_on(akd::vx_export::c12_overtaken_at_commit::<akd_core::WhatsAppV1Configuration>(cache));
                match r { Ok(o) => println!("cache={cache} p1={:?} p2={:?} final={} audits_ok={} a_ok={} b_ok={}", o.p1.map(|x| x.0), o.p2.map(|x| x.0), o.final_epoch, o.audits_ok, o.a_ok, o.b_ok), Err(e) => println!("err {e}") }
            }
        }
        "probe-c12b" => {
            for cache in [false, true] {
                let r = rt.block_on(akd::vx_export::c12_overtaken_on_clone::<akd_core::WhatsAppV1Configuration>(cache));
                match r { Ok(o) => println!("cache={cache} p1={:?} p2={:?} final={} audits_ok={} a_ok={} b_ok={}", o.p1.map(|x| x.0), o.p2.map(|x| x.0), o.final_epoch, o.audits_ok, o.a_ok, o.b_ok), Err(e) => println!("err {e}") }
            }
        }
        "probe-c12" => {
            println!("{:?}", rt.block_on(akd::vx_export::c12_publish_overtaken::<akd_core::WhatsAppV1Configuration>()).map_err(|e| e.to_string()));
            println!("{:?}", rt.block_on(akd::vx_export::c12_publish_overtaken::<akd_core::ExperimentalConfiguration<akd_core::ExampleLabel>>()).map_err(|e| e.to_string()));
        }
        "finding" => {
            let (rep, detail) = match args[1].as_str() {
                "C08-D4" => c08::finding_d4(&rt),
                "C05-D8" => c05::finding_d8(&rt),
                "C05-D15" => c05::finding_d15(&rt),
                other => (false, format!("unknown finding {other}")),
            };
            println!("{}", J::obj(vec![("reproduces", J::Bool(rep)), ("detail", J::s(&detail))]).render());
        }
        "replay" => {
            let case: Vec<&str> = args[1..].iter().map(|s| s.as_str()).collect();
            let (fails, detail) = match case[0] {
                "c08" => c08::replay(&case[1..], &rt),
                "c17" => c17::replay(&case[1..]),
                "c01" => c01::replay(&case[1..], &rt),
                "c0203" => c0203::replay(&case[1..], &rt),
                "c04" => c04::replay(&case[1..], &rt),
                "c05" => c05::replay(&case[1..], &rt),
                "c06" | "c07" => c0607::replay(case[0], &case[1..], &rt),
                "c09" => c09::replay(&case[1..], &rt),
                "c10" => c10::replay(&case[1..], &rt),
                "c11" => c11::replay(&case[1..], &rt),
                "c12" => c12::replay(&case[1..], &rt),
                "c13" => c13::replay(&case[1..], &rt),
                "c14" => c14::replay(&case[1..], &rt),
                "c15" => c15::replay(&case[1..], &rt),
                "c16" => c16::replay(&case[1..], &rt),
                "c18" => c18::replay(&case[1..], &rt),
                "c19" => c19::replay(&case[1..], &rt),
                _ => (false, "unknown case".to_string()),
            };
            println!("{}", J::obj(vec![("fails", J::Bool(fails)), ("detail", J::s(&detail))]).render());
            std::process::exit(if fails { 1 } else { 0 });
        }
        _ => {
            eprintln!("unknown command");
            std::process::exit(2);
        }
    }
}
