//! C10 (BOUNDED stand-in): one fixed two-epoch history; the second publish is run once per database operation it performs, with
//! exactly that operation failing, with and without the object cache, for both hashing configurations. After a publish that
//! returned an error the same directory instance must report the previous epoch and root hash, still prove the previous value,
//! hold no open transaction, and a retried publish must end in the fault-free state.
use crate::{Failure, SearchResult};
use akd::vx_export::{c10_fault_at, C10Outcome};

fn outcome(cfg: u8, cache: bool, k: i64, other: bool, par: bool, rt: &tokio::runtime::Runtime) -> Option<C10Outcome> {
    let r = if cfg == 0 {
        rt.block_on(c10_fault_at::<akd::WhatsAppV1Configuration>(cache, k, other, par))
    } else {
        rt.block_on(c10_fault_at::<akd::ExperimentalConfiguration<akd::ExampleLabel>>(cache, k, other, par))
    };
    r.ok()
}

fn judge(cfg: u8, cache: bool, k: i64, other: bool, par: bool, o: &C10Outcome, out: &mut Vec<Failure>) {
    let mut bad = vec![];
    if let Some(err) = &o.publish_err {
        if o.epoch_after != o.epoch_before || !o.hash_unchanged { bad.push(format!("publish returned Err ({err}) but the directory now reports epoch {} (was {})", o.epoch_after, o.epoch_before)); }
        else if !o.old_value_still_proved { bad.push(format!("publish returned Err ({err}) and the previous value is no longer served with a verifying proof")); }
        if o.txn_left_open { bad.push("a transaction is left open after the failed publish".to_string()); }
        if !o.retry_ok { bad.push("the retried publish fails".to_string()); }
        if !o.final_matches_reference { bad.push("after the retry the state differs from the fault-free run".to_string()); }
    } else if o.epoch_after != o.epoch_before + 1 {
        bad.push(format!("publish returned Ok but the epoch is {} (was {})", o.epoch_after, o.epoch_before));
    } else if !o.final_matches_reference {
        bad.push("publish returned Ok although a storage operation failed, and the resulting root hash is not the fault-free one".to_string());
    } else if k < o.ops_in_publish {
        // the statement: if ANY read of the publish fails, the call returns an error
        bad.push(format!("publish returned Ok although its storage operation #{k} failed (a swallowed read failure)"));
    }
    for b in bad {
        out.push(Failure {
            clause: (if b.contains("but the directory now reports epoch") { "directory_publish/Directory.publish__after_commit#E_no_failure_after_commit" } else { "replay/c10#single_fault_enumeration" }).into(),
            case: vec!["c10".into(), cfg.to_string(), (cache as u8).to_string(), k.to_string(), (other as u8).to_string(), (par as u8).to_string()],
            input: format!("config {}, {} cache, {} insertion: publish 6 labels, then publish [(a,a2),(c,c1),(e,e2),(i,i1),(j,j1)] with database operation #{k} of that call failing, then publish {}",
                           if cfg == 0 { "WhatsAppV1" } else { "Experimental" }, if cache { "with" } else { "without" }, if par { "parallel" } else { "sequential" },
                           if other { "a different batch [(b,b2),(d,d1)]" } else { "the same batch again" }),
            expected: "an error leaves the directory exactly as it was; a retry ends in the fault-free state".into(),
            observed: b,
            finding_id: None,
        });
    }
}

/// parallel insertion with a batch large enough to spawn tasks: nothing the failed call started may still be writing after it returned
fn run_stray(cfg: u8, k: i64, rt: &tokio::runtime::Runtime, out: &mut Vec<Failure>) -> Option<bool> {
    let r = if cfg == 0 {
        rt.block_on(akd::vx_export::c10_stray_writes::<akd::WhatsAppV1Configuration>(k, false))
    } else {
        rt.block_on(akd::vx_export::c10_stray_writes::<akd::ExperimentalConfiguration<akd::ExampleLabel>>(k, false))
    };
    match r {
        Ok((failed, before, after, same, verify)) => {
            if failed && (before != after || !same || !verify) && out.len() < 6 {
                out.push(Failure {
                    clause: "replay/c10#no_task_outlives_a_failed_publish".into(),
                    case: vec!["c10".into(), "stray".into(), cfg.to_string(), k.to_string()],
                    input: format!("config {}, no cache, PARALLEL insertion: publish 24 labels, then publish all 24 updated with database operation #{k} of that call failing; let everything the call started run; then publish a different small batch",
                                   if cfg == 0 { "WhatsAppV1" } else { "Experimental" }),
                    expected: "the failed call leaves storage as it was; the later publish ends in the state of a directory that never saw the failed call and its lookups verify".into(),
                    observed: format!("database records {before} -> {after} after the failed call; final state matches the reference: {same}; lookups verify: {verify}"),
                    finding_id: None,
                });
            }
            Some(failed)
        }
        Err(_) => None,
    }
}

pub fn search(_seed: u64, _full: bool, rt: &tokio::runtime::Runtime) -> SearchResult {
    let mut out = vec![];
    let mut n = 0u64;
    for cfg in 0..2u8 {
        for k in 0..400i64 {
            match run_stray(cfg, k, rt, &mut out) { Some(true) => n += 1, _ => break }
        }
    }
    for cfg in 0..2u8 {
        for (cache, cold) in [(false, false), (true, false), (true, true)] {
            akd::vx_export::C10_COLD_CACHE.store(cold, std::sync::atomic::Ordering::SeqCst);
            // the number of operations of the fault-free call bounds k
            for par in [false, true] {
                let total = match outcome(cfg, cache, i64::MAX, false, par, rt) { Some(o) => o.ops_in_publish, None => 0 };
                for k in 0..total {
                    for other in [false, true] {
                        if let Some(o) = outcome(cfg, cache, k, other, par, rt) { n += 1; let before = out.len(); judge(cfg, cache, k, other, par, &o, &mut out); if cold { for f in out[before..].iter_mut() { f.case.push("cold".into()); f.input.push_str(" (the cache is flushed right before the faulty call)"); } } }
                    }
                }
            }
        }
    }
    akd::vx_export::C10_COLD_CACHE.store(false, std::sync::atomic::Ordering::SeqCst);
    SearchResult { evaluations: n, failures: out, summary: "BOUNDED: parallel insertion of 24-label batches with every single fault of the second publish (no task may outlive a failed publish); one two-epoch history, every single database-operation fault of the second publish, followed by the same or by a different batch, without cache / warm cache / cache flushed right before the faulty call, both configurations; a publish that returns Ok although one of its storage operations failed is a failure too".into() }
}

pub fn replay(case: &[&str], rt: &tokio::runtime::Runtime) -> (bool, String) {
    if case[0] == "stray" {
        let mut out = vec![];
        run_stray(case[1].parse().unwrap(), case[2].parse().unwrap(), rt, &mut out);
        return match out.first() { Some(f) => (true, format!("{}: expected {}, observed {}", f.input, f.expected, f.observed)), None => (false, "holds".into()) };
    }
    let (cfg, cache, k): (u8, bool, i64) = (case[0].parse().unwrap(), case[1] == "1", case[2].parse().unwrap());
    let other = case.get(3).map(|s| *s == "1").unwrap_or(false);
    let par = case.get(4).map(|s| *s == "1").unwrap_or(false);
    akd::vx_export::C10_COLD_CACHE.store(case.get(5).map(|s| *s == "cold").unwrap_or(false), std::sync::atomic::Ordering::SeqCst);
    let mut out = vec![];
    if let Some(o) = outcome(cfg, cache, k, other, par, rt) { judge(cfg, cache, k, other, par, &o, &mut out); }
    match out.first() { Some(f) => (true, format!("{}: expected {}, observed {}", f.input, f.expected, f.observed)), None => (false, "holds".into()) }
}
