use crate::SearchResult;
pub fn search(_seed: u64, _full: bool) -> SearchResult { SearchResult { evaluations: 0, failures: vec![], summary: "not yet implemented".into() } }
pub fn replay(_case: &[&str]) -> (bool, String) { (false, "not yet implemented".into()) }
