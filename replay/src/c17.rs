//! C17: the real NodeLabel operations against the bit-string definitions of the contracts
//! (contracts/common/label_spec.rs, contracts/node_label/unit.toml).
use crate::{Failure, SearchResult};
use akd_core::configuration::Configuration;
use akd_core::types::node_label::vx_export as nl;
use akd_core::{ExampleLabel, ExperimentalConfiguration, NodeLabel, PrefixOrdering, WhatsAppV1Configuration};

pub fn bit(l: &NodeLabel, i: u32) -> bool {
    (l.label_val[(i / 8) as usize] >> (7 - (i % 8))) & 1 == 1
}
fn agree(a: &NodeLabel, b: &NodeLabel, n: u32) -> bool {
    (0..n).all(|i| bit(a, i) == bit(b, i))
}
pub fn pfx(a: &NodeLabel, b: &NodeLabel) -> bool {
    a.label_len <= b.label_len && agree(a, b, a.label_len)
}
fn canon(l: &NodeLabel) -> bool {
    l.label_len <= 256 && (l.label_len..256).all(|i| !bit(l, i))
}
fn show(l: &NodeLabel) -> String {
    let mut s = String::new();
    for b in l.label_val.iter() {
        s.push_str(&format!("{b:02x}"));
    }
    format!("{}:{}", s, l.label_len)
}
pub fn parse(s: &str) -> NodeLabel {
    let (h, l) = s.split_once(':').unwrap();
    let mut v = [0u8; 32];
    for k in 0..32 {
        v[k] = u8::from_str_radix(&h[2 * k..2 * k + 2], 16).unwrap();
    }
    NodeLabel::new(v, l.parse().unwrap())
}

fn fail(clause: &str, op: &str, a: &NodeLabel, b: Option<&NodeLabel>, n: Option<u32>, expected: String, observed: String) -> Failure {
    let mut case = vec!["c17".to_string(), op.to_string(), show(a)];
    let mut input = format!("{op}({}", show(a));
    if let Some(b) = b {
        case.push(show(b));
        input.push_str(&format!(", {}", show(b)));
    }
    if let Some(n) = n {
        case.push(n.to_string());
        input.push_str(&format!(", {n}"));
    }
    input.push(')');
    Failure { clause: format!("node_label/{clause}"), case, input, expected, observed, finding_id: None }
}

fn check_unary(a: &NodeLabel, out: &mut Vec<Failure>) -> u64 {
    let mut n = 0;
    // get_bit_at
    for i in [0u32, 1, 7, 8, 9, a.label_len.wrapping_sub(1), a.label_len, a.label_len + 1, 255, 256, 257, u32::MAX] {
        let r = nl::get_bit_at(a, i);
        let exp = if i < a.label_len && i < 256 { Some(bit(a, i) as u8) } else { None };
        if r != exp {
            out.push(fail("NodeLabel.get_bit_at#E_ok", "get_bit_at", a, None, Some(i), format!("{exp:?}"), format!("{r:?}")));
        }
        n += 1;
    }
    // get_prefix
    for len in (0..=a.label_len.min(256)).chain([256u32, 257, 1000]) {
        let r = a.get_prefix(len);
        let ok = if len >= 256 { r == *a } else if len <= a.label_len { r.label_len == len && canon(&r) && agree(&r, a, len) } else { true };
        if !ok {
            out.push(fail("NodeLabel.get_prefix#E_prefix", "get_prefix", a, None, Some(len), "canonical prefix of that length".into(), show(&r)));
        }
        n += 1;
    }
    n
}

fn lcp_check<TC: Configuration>(a: &NodeLabel, b: &NodeLabel, out: &mut Vec<Failure>) {
    let e = TC::empty_label();
    let r = a.get_longest_common_prefix::<TC>(*b);
    if *a == e || *b == e {
        if r != e {
            out.push(fail("NodeLabel.get_longest_common_prefix#E_empty", "lcp", a, Some(b), None, "the empty label".into(), show(&r)));
        }
        return;
    }
    let m = a.label_len.min(b.label_len);
    let mut k = 0;
    while k < m && bit(a, k) == bit(b, k) {
        k += 1;
    }
    let ok = if k >= 256 { r == *a } else { r.label_len == k && canon(&r) && agree(&r, a, k) };
    if !ok {
        out.push(fail("NodeLabel.get_longest_common_prefix#E_lcp", "lcp", a, Some(b), None, format!("canonical common prefix of length {k}"), show(&r)));
    }
}

fn check_pair(a: &NodeLabel, b: &NodeLabel, out: &mut Vec<Failure>) -> u64 {
    let r = a.is_prefix_of(b);
    if r != pfx(a, b) {
        out.push(fail("NodeLabel.is_prefix_of#E_pfx", "is_prefix_of", a, Some(b), None, pfx(a, b).to_string(), r.to_string()));
    }
    lcp_check::<WhatsAppV1Configuration>(a, b, out);
    lcp_check::<ExperimentalConfiguration<ExampleLabel>>(a, b, out);
    let o = a.get_prefix_ordering(*b);
    let proper = a.label_len < b.label_len && agree(a, b, a.label_len);
    let exp = if !proper { PrefixOrdering::Invalid } else if bit(b, a.label_len) { PrefixOrdering::WithOne } else { PrefixOrdering::WithZero };
    if o != exp {
        out.push(fail("NodeLabel.get_prefix_ordering#E_invalid", "get_prefix_ordering", a, Some(b), None, format!("{exp:?}"), format!("{o:?}")));
    }
    let c = a.cmp(b);
    let expc = a.label_len.cmp(&b.label_len).then(a.label_val.cmp(&b.label_val));
    if c != expc {
        out.push(fail("kani/c17_cmp_contract", "cmp", a, Some(b), None, format!("{expc:?}"), format!("{c:?}")));
    }
    5
}

fn small_labels(maxbits: u32, stray: bool) -> Vec<NodeLabel> {
    let mut v = vec![];
    for len in 0..=maxbits {
        for val in 0..(1u32 << len) {
            let mut bytes = [0u8; 32];
            // place the `len` bits MSB-first
            for i in 0..len {
                if (val >> (len - 1 - i)) & 1 == 1 {
                    bytes[(i / 8) as usize] |= 1 << (7 - (i % 8));
                }
            }
            v.push(NodeLabel::new(bytes, len));
            if stray && len < 16 {
                // non-canonical variant: a stray one right after the label's last bit and in the last byte
                let mut b2 = bytes;
                b2[(len / 8) as usize] |= 1 << (7 - (len % 8));
                b2[31] |= 1;
                v.push(NodeLabel::new(b2, len));
            }
        }
    }
    v
}

fn boundary_labels() -> Vec<NodeLabel> {
    let mut v = vec![];
    let pats: [u8; 6] = [0x00, 0xff, 0xaa, 0x55, 0x80, 0x01];
    let mut lens = vec![];
    for k in 0..=32u32 {
        for d in [-1i64, 0, 1] {
            let l = 8 * k as i64 + d;
            if (0..=256).contains(&l) {
                lens.push(l as u32);
            }
        }
    }
    lens.sort();
    lens.dedup();
    for &len in &lens {
        for &p in &pats {
            let bytes = [p; 32];
            // canonicalised and raw variants
            v.push(NodeLabel::new(bytes, len).get_prefix_canon());
            v.push(NodeLabel::new(bytes, len));
        }
    }
    v
}

trait Canon {
    fn get_prefix_canon(&self) -> NodeLabel;
}
impl Canon for NodeLabel {
    fn get_prefix_canon(&self) -> NodeLabel {
        // canonicalise with the *spec*, not with the code under test
        let mut b = [0u8; 32];
        for i in 0..self.label_len.min(256) {
            if bit(self, i) {
                b[(i / 8) as usize] |= 1 << (7 - (i % 8));
            }
        }
        NodeLabel::new(b, self.label_len)
    }
}

fn flip(l: &NodeLabel, i: u32) -> NodeLabel {
    let mut b = l.label_val;
    if i < 256 {
        b[(i / 8) as usize] ^= 1 << (7 - (i % 8));
    }
    NodeLabel::new(b, l.label_len)
}

/// BOUNDED stand-in for the set operations (second sentence of C17): all multisets of <= 3 canonical labels of one length L <= `bits`
/// (the binary-searchable path) against the unsorted path on the same labels, and against the bit-string meaning:
/// partition(p) = the Zero/One split of the elements that properly extend p; lcp = longest common prefix; contains_prefix.
fn set_ops_exhaustive(bits: u32, out: &mut Vec<Failure>) -> u64 {
    use akd_core::{ExampleLabel, ExperimentalConfiguration, WhatsAppV1Configuration};
    let mut n = 0u64;
    let mk = |len: u32, val: u32| { let mut b = [0u8; 32]; for i in 0..len { if (val >> (len - 1 - i)) & 1 == 1 { b[(i / 8) as usize] |= 1 << (7 - (i % 8)); } } NodeLabel::new(b, len) };
    let sorted = |mut v: Vec<NodeLabel>| { v.sort(); v };
    for len in 1..=bits {
        let all: Vec<NodeLabel> = (0..(1u32 << len)).map(|v| mk(len, v)).collect();
        let mut sets: Vec<Vec<NodeLabel>> = vec![];
        for a in &all { sets.push(vec![*a]); for b in &all { sets.push(vec![*a, *b]); for c in &all { sets.push(vec![*a, *b, *c]); } } }
        for set in sets {
            // every common prefix of the set (as bit strings), plus one non-common prefix to exercise the dropping path
            let mut k = len; for x in &set { let mut t = 0; while t < len && bit(x, t) == bit(&set[0], t) { t += 1; } k = k.min(t); }
            for plen in 0..=k {
                let mut pb = [0u8; 32];
                for i in 0..plen { if bit(&set[0], i) { pb[(i / 8) as usize] |= 1 << (7 - (i % 8)); } }
                let prefix = NodeLabel::new(pb, plen);
                for cfg in 0..2 {
                    let r = if cfg == 0 { akd::vx_export::c17_set_ops::<WhatsAppV1Configuration>(&set, prefix) } else { akd::vx_export::c17_set_ops::<ExperimentalConfiguration<ExampleLabel>>(&set, prefix) };
                    let ((la, ra), (lu, ru), lcp_a, lcp_u, cp_a, cp_u, is_sorted) = r;
                    n += 1;
                    let exp_l = sorted(set.iter().filter(|x| plen < x.label_len && !bit(x, plen)).cloned().collect());
                    let exp_r = sorted(set.iter().filter(|x| plen < x.label_len && bit(x, plen)).cloned().collect());
                    let exp_cp = set.iter().any(|x| pfx(&prefix, x));
                    let mut bad = None;
                    if !is_sorted { bad = Some("equal-length set not taken as binary searchable"); }
                    else if sorted(la.clone()) != exp_l || sorted(ra.clone()) != exp_r { bad = Some("sorted partition differs from the Zero/One split"); }
                    else if sorted(lu.clone()) != exp_l || sorted(ru.clone()) != exp_r { bad = Some("unsorted partition differs from the Zero/One split"); }
                    else if lcp_a != lcp_u { bad = Some("set lcp differs between sorted and unsorted path"); }
                    else if !(lcp_a.label_len == k && canon(&lcp_a) && agree(&lcp_a, &set[0], k)) { bad = Some("set lcp is not the longest common prefix"); }
                    else if cp_a != exp_cp || cp_u != exp_cp { bad = Some("contains_prefix differs from the bit-string meaning"); }
                    if let Some(why) = bad {
                        if out.len() < 8 {
                            out.push(Failure { clause: "node_label/AzksElementSet#set_ops".into(), case: vec!["c17".into(), "setops".into()],
                                input: format!("labels {:?} prefix {} (cfg {cfg})", set.iter().map(show).collect::<Vec<_>>(), show(&prefix)),
                                expected: "sorted path == unsorted path == bit-string meaning".into(), observed: why.into(), finding_id: None });
                        }
                    }
                }
            }
        }
    }
    n
}

pub fn search(seed: u64, full: bool) -> SearchResult {
    search_opts(seed, full, true)
}

/// `sets = false`: label operations only (what the tree proofs of C05 rely on), not the AzksElementSet operations
pub fn search_opts(seed: u64, full: bool, sets: bool) -> SearchResult {
    std::panic::set_hook(Box::new(|_| {}));
    let mut out = vec![];
    let mut n = 0u64;
    let maxbits = if full { 10 } else { 7 };
    let small = small_labels(maxbits, true);
    for a in &small {
        let r = std::panic::catch_unwind(|| {
            let mut o = vec![];
            let k = check_unary(a, &mut o);
            (o, k)
        });
        match r {
            Ok((o, k)) => { out.extend(o); n += k; }
            Err(_) => out.push(fail("NodeLabel.get_prefix#body", "unary", a, None, None, "no panic".into(), "panic".into())),
        }
    }
    for a in &small {
        for b in &small {
            let r = std::panic::catch_unwind(|| {
                let mut o = vec![];
                let k = check_pair(a, b, &mut o);
                (o, k)
            });
            match r {
                Ok((o, k)) => { out.extend(o); n += k; }
                Err(_) => out.push(fail("NodeLabel.is_prefix_of#body", "pair", a, Some(b), None, "no panic".into(), "panic".into())),
            }
            if out.len() > 50 { break; }
        }
        if out.len() > 50 { break; }
    }
    let bl = boundary_labels();
    let mut r = crate::rng::Rng(seed ^ 0xC17);
    for a in &bl {
        let _ = std::panic::catch_unwind(|| ()).is_ok();
        let mut o = vec![];
        n += check_unary(a, &mut o);
        out.extend(o);
        // related labels: same bits, neighbouring lengths; one bit flipped around the end
        let mut rel = vec![];
        for d in [-9i64, -8, -1, 0, 1, 8, 9] {
            let l = a.label_len as i64 + d;
            if (0..=256).contains(&l) {
                rel.push(NodeLabel::new(a.label_val, l as u32));
                rel.push(NodeLabel::new(a.label_val, l as u32).get_prefix_canon());
            }
        }
        for i in [a.label_len.wrapping_sub(2), a.label_len.wrapping_sub(1), a.label_len, a.label_len + 1, 0, 255] {
            if i < 256 {
                rel.push(flip(a, i));
                rel.push(NodeLabel::new(flip(a, i).label_val, (a.label_len + 8).min(256)));
            }
        }
        for _ in 0..2 {
            let mut b = a.label_val;
            let k = r.below(32) as usize;
            b[k] ^= (r.next() & 0xff) as u8;
            rel.push(NodeLabel::new(b, r.below(257) as u32));
        }
        for b in &rel {
            let mut o = vec![];
            n += check_pair(a, b, &mut o);
            n += check_pair(b, a, &mut o);
            out.extend(o);
        }
        if out.len() > 50 { break; }
    }
    if sets {
        n += set_ops_exhaustive(if full { 4 } else { 3 }, &mut out);
    }
    let _ = std::panic::take_hook();
    SearchResult { evaluations: n, failures: out,
        summary: format!("BOUNDED set operations: all multisets of <= 3 equal-length labels of <= 3/4 bits x every common prefix; all label pairs up to {maxbits} bits (canonical and with stray bits) x {{is_prefix_of, lcp (both configurations), get_prefix_ordering, cmp}}, get_bit_at/get_prefix on each; all lengths 8k-1, 8k, 8k+1 with patterns 00 ff aa 55 80 01 and related labels") }
}

pub fn replay(case: &[&str]) -> (bool, String) {
    std::panic::set_hook(Box::new(|_| {}));
    let mut out = vec![];
    if case[0] == "setops" {
        set_ops_exhaustive(3, &mut out);
        return match out.first() { Some(f) => (true, format!("{}: expected {}, observed {}", f.input, f.expected, f.observed)), None => (false, "holds".into()) };
    }
    let a = parse(case[1]);
    match case[0] {
        "get_bit_at" | "get_prefix" | "unary" => { check_unary(&a, &mut out); }
        _ => {
            let b = parse(case[2]);
            let r = std::panic::catch_unwind(|| { let mut o = vec![]; check_pair(&a, &b, &mut o); o });
            match r { Ok(o) => out.extend(o), Err(_) => return (true, "panic".into()) }
        }
    }
    match out.first() { Some(f) => (true, format!("{}: expected {}, observed {}", f.input, f.expected, f.observed)), None => (false, "holds".into()) }
}
