//! C04 (BOUNDED cross-check of the whole statement on the real code): every epoch pair of a small fixed history is audited after
//! every publish, sequential and parallel insertion, both configurations. The deductive part (range guards, the proof walk against
//! walk_spec, L-AUDIT, set_child summaries) is in the Verus units; this run exists for what lies between them (trie insertion).
use crate::{Failure, SearchResult};
use akd_core::{ExampleLabel, ExperimentalConfiguration, WhatsAppV1Configuration};

fn run(cfg: &str, par: bool, rt: &tokio::runtime::Runtime, out: &mut Vec<Failure>) {
    let r = if cfg == "whatsapp_v1" {
        rt.block_on(akd::vx_export::c04_all_ranges::<WhatsAppV1Configuration>(par))
    } else {
        rt.block_on(akd::vx_export::c04_all_ranges::<ExperimentalConfiguration<ExampleLabel>>(par))
    };
    match r {
        Ok(bad) => if let Some(b) = bad.first() {
            out.push(Failure {
                clause: "replay/c04#all_ranges".into(),
                case: vec!["c04".into(), cfg.into(), (par as u8).to_string()],
                input: format!("[{cfg}, {} insertion] publish {{a,b,c}}, {{a:2,d}}, the same again, {{e:1,e:2,f}} (one label twice), {{b:2,g,h}}, {{a:3}}; after every publish audit every (s, e)", if par { "parallel" } else { "sequential" }),
                expected: "every 0 <= s < e <= current verifies against the published hashes; other ranges and the duplicate batch are refused".into(),
                observed: format!("{b} ({} problems)", bad.len()),
                finding_id: None,
            });
        },
        Err(_) => {}
    }
}

pub fn search(_seed: u64, _full: bool, rt: &tokio::runtime::Runtime) -> SearchResult {
    let mut out = vec![];
    let mut n = 0;
    for cfg in ["whatsapp_v1", "experimental"] { for par in [false, true] { run(cfg, par, rt, &mut out); n += 1; } }
    SearchResult { evaluations: n, failures: out, summary: "BOUNDED: one 5-epoch history, every (s, e) after every publish, sequential/parallel insertion, both configurations".into() }
}

pub fn replay(case: &[&str], rt: &tokio::runtime::Runtime) -> (bool, String) {
    let mut out = vec![];
    run(case[0], case[1] == "1", rt, &mut out);
    match out.first() { Some(f) => (true, format!("{}: expected {}, observed {}", f.input, f.expected, f.observed)), None => (false, "holds".into()) }
}
