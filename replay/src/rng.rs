//! splitmix64: seeded, dependency-free
pub struct Rng(pub u64);
impl Rng {
    pub fn next(&mut self) -> u64 {
        self.0 = self.0.wrapping_add(0x9E3779B97F4A7C15);
        let mut z = self.0;
        z = (z ^ (z >> 30)).wrapping_mul(0xBF58476D1CE4E5B9);
        z = (z ^ (z >> 27)).wrapping_mul(0x94D049BB133111EB);
        z ^ (z >> 31)
    }
    pub fn below(&mut self, n: u64) -> u64 {
        if n == 0 { 0 } else { self.next() % n }
    }
}
