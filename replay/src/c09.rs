//! C09: the auditor must reject a transition whose node set overlaps (a subtree root together with a new leaf below it):
//! contract auditor/verify_append_only_hash (P obligation: batch_insert_nodes in Auditor mode requires a prefix-free set).
use crate::{Failure, SearchResult};
use akd_core::{ExampleLabel, ExperimentalConfiguration, WhatsAppV1Configuration};

fn run(cfg: &str, rt: &tokio::runtime::Runtime, out: &mut Vec<Failure>) {
    let r = if cfg == "whatsapp_v1" {
        rt.block_on(akd::vx_export::d2_auditor_overlap::<WhatsAppV1Configuration>())
    } else {
        rt.block_on(akd::vx_export::d2_auditor_overlap::<ExperimentalConfiguration<ExampleLabel>>())
    };
    if let Ok(true) = r {
        out.push(Failure {
            clause: "auditor/verify_append_only_hash#body".into(),
            case: vec!["c09".into(), cfg.into()],
            input: format!("[{cfg}] start tree leaves {{00.., 20.., 80..}}; proof: unchanged = {{node '00' (2 bits), leaf 80..}}, inserted = {{leaf 10..}}; end hash = tree in which the subtree under '00' is replaced by the single leaf 10.."),
            expected: "verify_consecutive_append_only rejects (two committed leaves were deleted)".into(),
            observed: "accepted".into(),
            finding_id: None,
        });
    }
}

pub fn search(_seed: u64, _full: bool, rt: &tokio::runtime::Runtime) -> SearchResult {
    let mut out = vec![];
    for cfg in ["whatsapp_v1", "experimental"] { run(cfg, rt, &mut out); }
    SearchResult { evaluations: 2, failures: out, summary: "overlapping node set (subtree root + new leaf below it) with a server-chosen end hash, both configurations".into() }
}

pub fn replay(case: &[&str], rt: &tokio::runtime::Runtime) -> (bool, String) {
    let mut out = vec![];
    run(case[0], rt, &mut out);
    match out.first() { Some(f) => (true, format!("{}: expected {}, observed {}", f.input, f.expected, f.observed)), None => (false, "holds".into()) }
}
