//! C09: the auditor must reject a transition whose node set overlaps (a subtree root together with a new leaf below it):
//! contract auditor/verify_append_only_hash (P obligation: batch_insert_nodes in Auditor mode requires a prefix-free set).
use crate::{Failure, SearchResult};
use akd_core::{ExampleLabel, ExperimentalConfiguration, WhatsAppV1Configuration};

fn run(cfg: &str, rt: &tokio::runtime::Runtime, out: &mut Vec<Failure>) {
    let r = if cfg == "whatsapp_v1" {
        rt.block_on(akd::vx_export::d2_auditor_overlap::<WhatsAppV1Configuration>())
    } else {
        rt.block_on(akd::vx_export::d2_auditor_overlap::<ExperimentalConfiguration<ExampleLabel>>())
    };
    if let Ok(true) = r {
        out.push(Failure {
            clause: "auditor/verify_append_only_hash#body".into(),
            case: vec!["c09".into(), cfg.into()],
            input: format!("[{cfg}] start tree leaves {{00.., 20.., 80..}}; proof: unchanged = {{node '00' (2 bits), leaf 80..}}, inserted = {{leaf 10..}}; end hash = tree in which the subtree under '00' is replaced by the single leaf 10.."),
            expected: "verify_consecutive_append_only rejects (two committed leaves were deleted)".into(),
            observed: "accepted".into(),
            finding_id: None,
        });
    }
}

fn run_chain(cfg: &str, rt: &tokio::runtime::Runtime, out: &mut Vec<Failure>) {
    let r = if cfg == "whatsapp_v1" {
        rt.block_on(akd::vx_export::c09_chain_splice::<WhatsAppV1Configuration>())
    } else {
        rt.block_on(akd::vx_export::c09_chain_splice::<ExperimentalConfiguration<ExampleLabel>>())
    };
    if let Ok(true) = r {
        out.push(Failure {
            clause: "auditor/audit_verify#I_each".into(),
            case: vec!["c09".into(), "chain".into(), cfg.into()],
            input: format!("[{cfg}] hashes = [A@0, A@1, B@2] where A published {{a,b}},{{c}} and B published {{b}},{{c}}; proofs = [A's 0->1, B's 1->2]"),
            expected: "audit_verify rejects (B's unchanged nodes do not hash to A@1: leaf a would vanish)".into(),
            observed: "accepted".into(),
            finding_id: None,
        });
    }
}

/// BOUNDED stand-in for the helper's contract (auditor/ensure_prefix_free#E_prefix_free): exhaustive over all sets of <= 3 labels
/// of <= `bits` bits (each with and without stray bits beyond its length): accepted <==> pairwise no label is a prefix of another
fn helper_exhaustive(bits: u32, out: &mut Vec<Failure>) -> u64 {
    use akd_core::{AzksElement, AzksValue, NodeLabel};
    let mut labels = vec![];
    for len in 0..=bits {
        for val in 0..(1u32 << len) {
            let mut b = [0u8; 32];
            for i in 0..len { if (val >> (len - 1 - i)) & 1 == 1 { b[(i / 8) as usize] |= 1 << (7 - (i % 8)); } }
            labels.push(NodeLabel::new(b, len));
            let mut b2 = b; b2[(len / 8) as usize] |= 1 << (7 - (len % 8)); b2[31] |= 1;
            labels.push(NodeLabel::new(b2, len));
        }
    }
    let el = |l: &NodeLabel| AzksElement { label: *l, value: AzksValue([0u8; 32]) };
    let mut n = 0u64;
    let mut check = |set: Vec<NodeLabel>, out: &mut Vec<Failure>| {
        let nodes: Vec<AzksElement> = set.iter().map(el).collect();
        let got = akd::auditor::vx_export::ensure_prefix_free(&nodes);
        let mut free = true;
        for i in 0..set.len() { for j in 0..set.len() { if i != j && crate::c17::pfx(&set[i], &set[j]) { free = false; } } }
        if got != free && out.len() < 5 {
            out.push(Failure { clause: (if got && !free { "auditor/ensure_prefix_free#E_prefix_free" } else { "auditor/ensure_prefix_free#completeness" }).into(), case: vec!["c09".into(), "helper".into()],
                input: format!("node labels {:?}", set.iter().map(|l| (l.label_val[0], l.label_len)).collect::<Vec<_>>()),
                expected: format!("accepted == {free}"), observed: format!("accepted == {got}"), finding_id: None });
        }
    };
    check(vec![], out); n += 1;
    for a in &labels { check(vec![*a], out); n += 1; }
    for a in &labels { for b in &labels { check(vec![*a, *b], out); n += 1; } }
    for a in &labels { for b in &labels { for c in &labels { check(vec![*a, *b, *c], out); n += 1; } } }
    n
}

pub fn search(_seed: u64, full: bool, rt: &tokio::runtime::Runtime) -> SearchResult {
    let mut out = vec![];
    for cfg in ["whatsapp_v1", "experimental"] { run(cfg, rt, &mut out); run_chain(cfg, rt, &mut out); }
    let bits = if full { 4 } else { 3 };
    let n = helper_exhaustive(bits, &mut out);
    SearchResult { evaluations: 4 + n, failures: out, summary: format!("a two-transition audit whose second proof comes from a different tree; overlapping node set (subtree root + new leaf below it) with a server-chosen end hash, both configurations; BOUNDED helper check: all sets of <= 3 labels of <= {bits} bits (with/without stray bits): ensure_prefix_free accepts <==> prefix-free") }
}

pub fn replay(case: &[&str], rt: &tokio::runtime::Runtime) -> (bool, String) {
    let mut out = vec![];
    if case[0] == "helper" { helper_exhaustive(3, &mut out); } else if case[0] == "chain" { run_chain(case[1], rt, &mut out); } else { run(case[0], rt, &mut out); }
    match out.first() { Some(f) => (true, format!("{}: expected {}, observed {}", f.input, f.expected, f.observed)), None => (false, "holds".into()) }
}
