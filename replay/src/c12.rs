//! C12 (BOUNDED, deterministic interleaving): two publish calls on clones of one directory; the second reads the epoch record, then the
//! first runs to completion before the second begins its transaction. Each call must fail without effect or take effect as a whole;
//! the calls that changed the directory received distinct, consecutive epochs, and every (epoch, hash) pair a call returned is the
//! pair audits verify against. Other interleavings are not explored (schedules are outside this family).
use crate::{Failure, SearchResult};
use akd_core::{ExampleLabel, ExperimentalConfiguration, WhatsAppV1Configuration};

fn run(cfg: &str, cache: bool, rt: &tokio::runtime::Runtime, out: &mut Vec<Failure>) {
    let r = if cfg == "whatsapp_v1" {
        rt.block_on(akd::vx_export::c12_overtaken_on_clone::<WhatsAppV1Configuration>(cache))
    } else {
        rt.block_on(akd::vx_export::c12_overtaken_on_clone::<ExperimentalConfiguration<ExampleLabel>>(cache))
    };
    if let Ok(o) = r {
        let mut bad = vec![];
        let n_ok = o.p1.is_some() as u64 + o.p2.is_some() as u64;
        if o.final_epoch != 1 + n_ok { bad.push(format!("{} publish calls returned Ok (epochs {:?} and {:?}) but the directory is at epoch {}", n_ok, o.p1.map(|x| x.0), o.p2.map(|x| x.0), o.final_epoch)); }
        if !o.audits_ok { bad.push("the (epoch, hash) pairs the calls returned are not distinct consecutive epochs that the audit proof verifies against".to_string()); }
        if o.p1.is_some() && !o.a_ok { bad.push("the first call returned Ok but its value is not served".to_string()); }
        if o.p2.is_some() && !o.b_ok { bad.push("the second call returned Ok but its value is not served".to_string()); }
        if o.p2.is_none() && o.b_ok { bad.push("the second call returned an error but its value is served".to_string()); }
        if let Some(b) = bad.first() {
            out.push(Failure {
                clause: "directory_publish/Directory.publish__tail#body".into(),
                case: vec!["c12".into(), cfg.into(), (cache as u8).to_string()],
                input: format!("[{cfg}, {} cache] epoch 1 = {{a,b,c}}; publish P2 = [(b,b2),(e,e1)] on one clone reads the epoch record; before it begins its transaction, P1 = [(a,a2),(z,z1)] on another clone runs to completion", if cache { "with" } else { "without" }),
                expected: "each call fails without effect or takes effect as a whole; successful calls get distinct consecutive epochs; every returned (epoch, hash) pair is what audits verify against".into(),
                observed: format!("{b} ({} problems)", bad.len()),
                finding_id: None,
            });
        }
    }
}

pub fn search(_seed: u64, _full: bool, rt: &tokio::runtime::Runtime) -> SearchResult {
    let mut out = vec![];
    let mut n = 0;
    for cfg in ["whatsapp_v1", "experimental"] { for cache in [false, true] { run(cfg, cache, rt, &mut out); n += 1; } }
    SearchResult { evaluations: n, failures: out, summary: "BOUNDED: one deterministic interleaving of two publishes on clones (the later-starting call overtaken between its epoch read and its transaction), with/without cache, both configurations".into() }
}

pub fn replay(case: &[&str], rt: &tokio::runtime::Runtime) -> (bool, String) {
    let mut out = vec![];
    run(case[0], case[1] == "1", rt, &mut out);
    match out.first() { Some(f) => (true, format!("{}: expected {}, observed {}", f.input, f.expected, f.observed)), None => (false, "holds".into()) }
}
