//! C12 (BOUNDED, deterministic interleaving): two publish calls on clones of one directory; the second reads the epoch record, then the
//! first runs to completion before the second begins its transaction. Each call must fail without effect or take effect as a whole;
//! Second interleaving: a whole publish on one clone runs while the other's commit write has been issued and has not reached storage.
//! the calls that changed the directory received distinct, consecutive epochs, and every (epoch, hash) pair a call returned is the
//! pair audits verify against. Other interleavings are not explored (schedules are outside this family).
use crate::{Failure, SearchResult};
use akd_core::{ExampleLabel, ExperimentalConfiguration, WhatsAppV1Configuration};

fn run(cfg: &str, cache: bool, at_commit: bool, rt: &tokio::runtime::Runtime, out: &mut Vec<Failure>) {
    let r = match (cfg == "whatsapp_v1", at_commit) {
        (true, false) => rt.block_on(akd::vx_export::c12_overtaken_on_clone::<WhatsAppV1Configuration>(cache)),
        (false, false) => rt.block_on(akd::vx_export::c12_overtaken_on_clone::<ExperimentalConfiguration<ExampleLabel>>(cache)),
        (true, true) => rt.block_on(akd::vx_export::c12_overtaken_at_commit::<WhatsAppV1Configuration>(cache)),
        (false, true) => rt.block_on(akd::vx_export::c12_overtaken_at_commit::<ExperimentalConfiguration<ExampleLabel>>(cache)),
    };
    if let Ok(o) = r {
        let mut bad = vec![];
        let n_ok = o.p1.is_some() as u64 + o.p2.is_some() as u64;
        if o.final_epoch != 1 + n_ok { bad.push(format!("{} publish calls returned Ok (epochs {:?} and {:?}) but the directory is at epoch {}", n_ok, o.p1.map(|x| x.0), o.p2.map(|x| x.0), o.final_epoch)); }
        if !o.audits_ok { bad.push("the (epoch, hash) pairs the calls returned are not distinct consecutive epochs that the audit proof verifies against".to_string()); }
        if o.p1.is_some() && !o.a_ok { bad.push("the first call returned Ok but its value is not served".to_string()); }
        if o.p2.is_some() && !o.b_ok { bad.push("the second call returned Ok but its value is not served".to_string()); }
        if o.p2.is_none() && o.b_ok { bad.push("the second call returned an error but its value is served".to_string()); }
        if let Some(b) = bad.first() {
            out.push(Failure {
                clause: (if at_commit { "manager/StorageManager.commit_transaction#body" } else { "directory_publish/Directory.publish__tail#body" }).into(),
                case: vec!["c12".into(), cfg.into(), (cache as u8).to_string(), (at_commit as u8).to_string()],
                input: if at_commit { format!("[{cfg}, {} cache] epoch 1 = {{a,b,c}}; publish P2 = [(b,b2),(e,e1)] on one clone has issued its commit write; before that write reaches storage, P1 = [(a,a2),(z,z1)] on another clone runs from start to end", if cache { "with" } else { "without" }) }
                       else { format!("[{cfg}, {} cache] epoch 1 = {{a,b,c}}; publish P2 = [(b,b2),(e,e1)] on one clone reads the epoch record; before it begins its transaction, P1 = [(a,a2),(z,z1)] on another clone runs to completion", if cache { "with" } else { "without" }) },
                expected: "each call fails without effect or takes effect as a whole; successful calls get distinct consecutive epochs; every returned (epoch, hash) pair is what audits verify against".into(),
                observed: format!("{b} ({} problems)", bad.len()),
                finding_id: None,
            });
        }
    }
}

pub fn search(_seed: u64, _full: bool, rt: &tokio::runtime::Runtime) -> SearchResult {
    let mut out = vec![];
    let mut n = 0;
    for cfg in ["whatsapp_v1", "experimental"] { for cache in [false, true] { for at_commit in [false, true] { run(cfg, cache, at_commit, rt, &mut out); n += 1; } } }
    SearchResult { evaluations: n, failures: out, summary: "BOUNDED: two deterministic interleavings of two publishes on clones (the later-starting call overtaken between its epoch read and its transaction; a whole call running while the other's commit write is in flight), with/without cache, both configurations".into() }
}

pub fn replay(case: &[&str], rt: &tokio::runtime::Runtime) -> (bool, String) {
    let mut out = vec![];
    run(case[0], case[1] == "1", case.get(2).map(|s| *s == "1").unwrap_or(false), rt, &mut out);
    match out.first() { Some(f) => (true, format!("{}: expected {}, observed {}", f.input, f.expected, f.observed)), None => (false, "holds".into()) }
}
