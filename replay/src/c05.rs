use crate::SearchResult;
pub fn search(_seed: u64, _full: bool, _rt: &tokio::runtime::Runtime) -> SearchResult { SearchResult { evaluations: 0, failures: vec![], summary: "not yet implemented".into() } }
pub fn replay(_case: &[&str], _rt: &tokio::runtime::Runtime) -> (bool, String) { (false, "not yet implemented".into()) }
