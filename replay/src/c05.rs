//! C05: non-membership soundness on real trees — every ancestor of the query as claimed longest prefix.
//! Expected (contract verify_base/verify_nonmembership#E_sound): a proof for a MEMBER is never accepted; for a
//! non-member only the deepest matching node is accepted as anchor (and that honest proof IS accepted).
use crate::{Failure, SearchResult};
use akd_core::{ExampleLabel, ExperimentalConfiguration, WhatsAppV1Configuration};

fn run_case(cfg: &str, leaves: &[u16], q: u16, rt: &tokio::runtime::Runtime, out: &mut Vec<Failure>) -> u64 {
    let r = if cfg == "whatsapp_v1" {
        rt.block_on(akd::vx_export::c05_anchor_scan::<WhatsAppV1Configuration>(leaves, q))
    } else {
        rt.block_on(akd::vx_export::c05_anchor_scan::<ExperimentalConfiguration<ExampleLabel>>(leaves, q))
    };
    let (member, cands) = match r { Ok(x) => x, Err(_) => return 0 };
    let mut n = 0;
    for (k, deepest, accepted) in cands {
        n += 1;
        let should = !member && deepest;
        if accepted != should {
            let mut case = vec!["c05".to_string(), cfg.to_string(), format!("{q:04x}")];
            case.extend(leaves.iter().map(|l| format!("{l:04x}")));
            let sound = accepted && !should;
            out.push(Failure {
                clause: if sound { "verify_base/verify_nonmembership#E_sound".into() } else { "verify_base/verify_nonmembership#completeness".into() },
                case,
                input: format!("[{cfg}] leaves {:04x?}, query {q:04x} ({}), anchor = its ancestor of length {k}{}", leaves, if member { "a MEMBER" } else { "not a member" }, if deepest { " (deepest)" } else { "" }),
                expected: if should { "accepted".into() } else { "rejected".into() },
                observed: if accepted { "accepted".into() } else { "rejected".into() },
                finding_id: None,
            });
        }
    }
    n
}

fn leaf_sets(seed: u64, full: bool) -> Vec<Vec<u16>> {
    let mut v: Vec<Vec<u16>> = vec![
        vec![0x0000, 0x2000, 0x8000],
        vec![0x0000, 0x0001],
        vec![0x0000, 0x8000],
        vec![0x4000],
        vec![0x0000, 0x4000, 0x8000, 0xc000],
        vec![0x00ff, 0x0100, 0x01ff, 0x0200, 0xff00, 0xff01],
        vec![0x0080, 0x00c0, 0x00e0, 0x00f0],
        vec![0x7fff, 0x8000],
    ];
    let mut r = crate::rng::Rng(seed ^ 0xC05);
    for _ in 0..(if full { 60 } else { 8 }) {
        let n = 2 + r.below(6) as usize;
        let mut s: Vec<u16> = (0..n).map(|_| { let sh = r.below(12); ((r.next() & 0xffff) as u16) >> sh << (r.below(8)) }).collect();
        s.sort(); s.dedup();
        v.push(s);
    }
    v
}

fn run_invariants(cfg: &str, seed: u64, steps: usize, parallel: bool, rt: &tokio::runtime::Runtime, out: &mut Vec<Failure>) {
    let r = if cfg == "whatsapp_v1" {
        rt.block_on(akd::vx_export::c05_tree_invariants::<akd_core::WhatsAppV1Configuration>(seed, steps, 9, parallel))
    } else {
        rt.block_on(akd::vx_export::c05_tree_invariants::<akd_core::ExperimentalConfiguration<akd_core::ExampleLabel>>(seed, steps, 9, parallel))
    };
    if let Ok(bad) = r {
        if let Some(b) = bad.first() {
            out.push(Failure {
                clause: "azks_proofs/assumed_tree_invariants#consistent_and_shaped".into(),
                case: vec!["c05".into(), "invariants".into(), cfg.into(), seed.to_string(), steps.to_string(), (parallel as u8).to_string()],
                input: format!("[{cfg}] random history (seed {seed}, {steps} publishes over 9 labels, {} insertion); after every publish the whole stored tree is read at the latest epoch", if parallel { "parallel" } else { "sequential" }),
                expected: "the two invariants unit azks_proofs ASSUMES of the stored tree: trie shape and hash consistency".into(),
                observed: format!("{b} ({} problems)", bad.len()),
                finding_id: None,
            });
        }
    }
}

pub fn search(seed: u64, full: bool, rt: &tokio::runtime::Runtime) -> SearchResult {
    let mut out = vec![];
    let mut n = 0;
    for cfg in ["whatsapp_v1", "experimental"] { for k in 0..(if full { 6u64 } else { 2 }) { for par in [false, true] {
        run_invariants(cfg, seed.wrapping_add(k), if full { 14 } else { 8 }, par, rt, &mut out); n += 1;
    } } }
    for leaves in leaf_sets(seed, full) {
        let mut queries: Vec<u16> = leaves.clone();
        for l in &leaves { for b in 0..16 { queries.push(l ^ (1 << b)); } }
        queries.sort(); queries.dedup();
        for cfg in ["whatsapp_v1", "experimental"] {
            for &q in &queries {
                n += run_case(cfg, &leaves, q, rt, &mut out);
                if out.len() > 30 { break; }
            }
        }
        if out.len() > 30 { break; }
    }
    // soundness of a sibling-less membership proof (known finding C05-D15 while it reproduces)
    for (cfg, r) in zero_sibling(rt) {
        n += 1;
        if let Ok(true) = r {
            out.push(Failure {
                clause: "verify_base/verify_membership#label_of_sibling_less_proof".into(),
                case: vec!["c05".into(), "zerosibling".into(), cfg.clone()],
                input: format!("[{cfg}] leaves {{00.., 20.., 80..}}; the membership proof (label 40.. - not in the set -, hash value = the root node's value, NO sibling proofs) against the tree's root hash"),
                expected: "verify_membership rejects (40.. is not in the set)".into(),
                observed: "accepted: with no sibling proof the fold is the claimed hash value itself and nothing binds the claimed label".into(),
                finding_id: Some("C05-D15".into()),
            });
        }
    }
    // completeness on the empty leaf set (known finding C05-D8 while it reproduces)
    for (cfg, r) in empty_tree(rt) {
        n += 1;
        if let Ok(false) = r {
            out.push(Failure {
                clause: "verify_base/verify_nonmembership#completeness".into(),
                case: vec!["c05".into(), "empty".into(), cfg.clone()],
                input: format!("[{cfg}] EMPTY tree (no leaf inserted), the server's own non-membership proof for label 40.. (256 bits) against the empty tree's root hash"),
                expected: "verify_nonmembership accepts (the label is not in the empty set)".into(),
                observed: "rejected: the root of the empty tree stores empty_root_value(), the verifier recomputes the hash of two empty children".into(),
                finding_id: Some("C05-D8".into()),
            });
        }
    }
    SearchResult { evaluations: n, failures: out, summary: "non-membership proofs assembled from real nodes: every ancestor of every member and of every 1-bit neighbour as claimed longest prefix, fixed and seeded random leaf sets, both configurations".into() }
}

pub fn replay(case: &[&str], rt: &tokio::runtime::Runtime) -> (bool, String) {
    if case[0] == "zerosibling" {
        let r = zero_sibling(rt);
        let hit = r.iter().any(|(c, x)| c == case[1] && matches!(x, Ok(true)));
        return (hit, format!("sibling-less membership proof for an absent label accepted: {hit}"));
    }
    if case[0] == "invariants" {
        let mut out = vec![];
        run_invariants(case[1], case[2].parse().unwrap(), case[3].parse().unwrap(), case[4] == "1", rt, &mut out);
        return match out.first() { Some(f) => (true, format!("{}: expected {}, observed {}", f.input, f.expected, f.observed)), None => (false, "holds".into()) };
    }
    if case[0] == "empty" {
        let r = empty_tree(rt);
        let fails = r.iter().any(|(c, x)| c == case[1] && matches!(x, Ok(false)));
        return (fails, format!("empty tree, honest non-membership proof accepted?: {r:?}"));
    }
    let q = u16::from_str_radix(case[1], 16).unwrap();
    let leaves: Vec<u16> = case[2..].iter().map(|s| u16::from_str_radix(s, 16).unwrap()).collect();
    let mut out = vec![];
    run_case(case[0], &leaves, q, rt, &mut out);
    match out.first() { Some(f) => (true, format!("{}: expected {}, observed {}", f.input, f.expected, f.observed)), None => (false, "holds".into()) }
}

pub fn empty_tree(rt: &tokio::runtime::Runtime) -> Vec<(String, Result<bool, String>)> {
    vec![
        ("whatsapp_v1".to_string(), rt.block_on(akd::vx_export::c05_empty_tree_nonmembership::<akd_core::WhatsAppV1Configuration>()).map_err(|e| e.to_string())),
        ("experimental".to_string(), rt.block_on(akd::vx_export::c05_empty_tree_nonmembership::<akd_core::ExperimentalConfiguration<akd_core::ExampleLabel>>()).map_err(|e| e.to_string())),
    ]
}

pub fn zero_sibling(rt: &tokio::runtime::Runtime) -> Vec<(String, Result<bool, String>)> {
    vec![
        ("whatsapp_v1".to_string(), rt.block_on(akd::vx_export::c05_zero_sibling_membership::<akd_core::WhatsAppV1Configuration>()).map_err(|e| e.to_string())),
        ("experimental".to_string(), rt.block_on(akd::vx_export::c05_zero_sibling_membership::<akd_core::ExperimentalConfiguration<akd_core::ExampleLabel>>()).map_err(|e| e.to_string())),
    ]
}
/// Known finding D15: a sibling-less membership proof carrying the root node's value verifies for any label (both configurations).
pub fn finding_d15(rt: &tokio::runtime::Runtime) -> (bool, String) {
    let r = zero_sibling(rt);
    let rep = r.iter().all(|(_, x)| matches!(x, Ok(true)));
    (rep, format!("(absent label, root value, no siblings) accepted by verify_membership?: {r:?}"))
}

/// Known finding D8: the server's non-membership proof against the EMPTY tree is rejected by verify_nonmembership (both configurations).
pub fn finding_d8(rt: &tokio::runtime::Runtime) -> (bool, String) {
    let r = empty_tree(rt);
    let rep = r.iter().all(|(_, x)| matches!(x, Ok(false)));
    (rep, format!("empty tree, honest non-membership proof accepted?: {r:?}"))
}
