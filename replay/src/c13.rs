//! C13 (as-of reads): a reader whose view is `lag` epochs behind storage must get an error or the hash it asked for —
//! contract tree_node/determine_node_to_get#E_never_newer on the real directory.
use crate::{Failure, SearchResult};
use akd_core::{ExampleLabel, ExperimentalConfiguration, WhatsAppV1Configuration};

fn run(cfg: &str, lag: u64, rt: &tokio::runtime::Runtime, out: &mut Vec<Failure>) {
    let r = if cfg == "whatsapp_v1" {
        rt.block_on(akd::vx_export::d3_lagging_reader::<WhatsAppV1Configuration>(lag))
    } else {
        rt.block_on(akd::vx_export::d3_lagging_reader::<ExperimentalConfiguration<ExampleLabel>>(lag))
    };
    if let Ok(Some(true)) = r {
        out.push(Failure {
            clause: "tree_node/TreeNodeWithPreviousValue.determine_node_to_get#E_never_newer".into(),
            case: vec!["c13".into(), cfg.into(), lag.to_string()],
            input: format!("[{cfg}] publish 1 + {lag} epochs, reset the epoch record to 1, ReadOnlyDirectory::get_epoch_hash()"),
            expected: "an error, or (1, root hash of epoch 1)".into(),
            observed: "(1, a root hash of a later epoch)".into(),
            finding_id: None,
        });
    }
}

pub fn search(_seed: u64, full: bool, rt: &tokio::runtime::Runtime) -> SearchResult {
    let mut out = vec![];
    let mut n = 0;
    for cfg in ["whatsapp_v1", "experimental"] {
        for lag in 0..=(if full { 6 } else { 3 }) {
            run(cfg, lag, rt, &mut out);
            n += 1;
        }
    }
    SearchResult { evaluations: n, failures: out, summary: "read-only directory lagging 0..k epochs behind storage asks for its epoch hash (both configurations)".into() }
}

pub fn replay(case: &[&str], rt: &tokio::runtime::Runtime) -> (bool, String) {
    let mut out = vec![];
    run(case[0], case[1].parse().unwrap(), rt, &mut out);
    match out.first() { Some(f) => (true, format!("{}: expected {}, observed {}", f.input, f.expected, f.observed)), None => (false, "holds".into()) }
}
