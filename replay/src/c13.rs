//! C13 (as-of reads): a reader whose view is `lag` epochs behind storage must get an error or the hash it asked for —
//! contract tree_node/determine_node_to_get#E_never_newer on the real directory.
use crate::{Failure, SearchResult};
use akd_core::{ExampleLabel, ExperimentalConfiguration, WhatsAppV1Configuration};

fn run(cfg: &str, lag: u64, rt: &tokio::runtime::Runtime, out: &mut Vec<Failure>) {
    let r = if cfg == "whatsapp_v1" {
        rt.block_on(akd::vx_export::d3_lagging_reader::<WhatsAppV1Configuration>(lag))
    } else {
        rt.block_on(akd::vx_export::d3_lagging_reader::<ExperimentalConfiguration<ExampleLabel>>(lag))
    };
    if let Ok(Some(true)) = r {
        out.push(Failure {
            clause: "tree_node/TreeNodeWithPreviousValue.determine_node_to_get#E_never_newer".into(),
            case: vec!["c13".into(), cfg.into(), lag.to_string()],
            input: format!("[{cfg}] publish 1 + {lag} epochs, reset the epoch record to 1, ReadOnlyDirectory::get_epoch_hash()"),
            expected: "an error, or (1, root hash of epoch 1)".into(),
            observed: "(1, a root hash of a later epoch)".into(),
            finding_id: None,
        });
    }
}

fn run_proofs(cfg: &str, lag: u64, cached: bool, rt: &tokio::runtime::Runtime, out: &mut Vec<Failure>) {
    let r = if cfg == "whatsapp_v1" {
        rt.block_on(akd::vx_export::c13_lagging_proofs::<WhatsAppV1Configuration>(lag, cached))
    } else {
        rt.block_on(akd::vx_export::c13_lagging_proofs::<ExperimentalConfiguration<ExampleLabel>>(lag, cached))
    };
    if let Ok(bad) = r {
        if let Some((req, what)) = bad.first() {
            out.push(Failure {
                clause: "tree_node/TreeNode.get_child_node#E_named_child_or_error".into(),
                case: vec!["c13".into(), "proofs".into(), cfg.into(), lag.to_string(), (cached as u8).to_string()],
                input: format!("[{cfg}] publish 8 labels in epoch 1, {}then {lag} epochs each updating 'b'; {}; ReadOnlyDirectory::{req}",
                               if cached { "a cached reader serves lookup(a), " } else { "" }, if cached { "the cached reader (still at epoch 1) is asked" } else { "reset the epoch record to 1" }),
                expected: "an error, or a proof that verifies against (1, root hash of epoch 1)".into(),
                observed: format!("{what} ({} such answers)", bad.len()),
                finding_id: None,
            });
        }
    }
}

fn run_race(cfg: &str, which: u8, rt: &tokio::runtime::Runtime, out: &mut Vec<Failure>) {
    let r = if cfg == "whatsapp_v1" {
        rt.block_on(akd::vx_export::c13_request_racing_publish::<WhatsAppV1Configuration>(which))
    } else {
        rt.block_on(akd::vx_export::c13_request_racing_publish::<ExperimentalConfiguration<ExampleLabel>>(which))
    };
    if let Ok(Some(what)) = r {
        out.push(Failure {
            clause: (if which % 2 == 0 { "directory_lookup/Directory.lookup#E_one_epoch" } else { "directory_lookup/Directory.key_history__head#E_one_epoch" }).into(),
            case: vec!["c13".into(), "race".into(), cfg.into(), which.to_string()],
            input: format!("[{cfg}] uncached instance at epoch 2 serves {}; {} another instance over the same database publishes epoch 3", if which % 2 == 0 { "lookup(a)" } else { "key_history(a, Complete)" }, if which < 2 { "right after its read of the epoch record (at its first read of user records)" } else { "right BEFORE its read of the epoch record" }),
            expected: "an error, or an answer that verifies against the (epoch, root hash) pair returned with it - never a proof stitched together from two epochs".into(),
            observed: what,
            finding_id: None,
        });
    }
}

fn run_commit_reader(cfg: &str, rt: &tokio::runtime::Runtime, out: &mut Vec<Failure>) {
    let r = if cfg == "whatsapp_v1" {
        rt.block_on(akd::vx_export::c13_reader_after_epoch_record::<WhatsAppV1Configuration>())
    } else {
        rt.block_on(akd::vx_export::c13_reader_after_epoch_record::<ExperimentalConfiguration<ExampleLabel>>())
    };
    if let Ok(Some(what)) = r {
        out.push(Failure {
            clause: "manager/StorageManager.write_committed_records#E_commit".into(),
            case: vec!["c13".into(), "commitreader".into(), cfg.into()],
            input: format!("[{cfg}] epoch 1 = {{a,b,c}}; publish [(a,a2),(d,d1)]; right after the storage operation that carries the epoch record of epoch 2 a fresh uncached instance serves lookup(a)"),
            expected: "an answer that verifies: the epoch record is written LAST, in the one storage operation of the commit".into(),
            observed: what,
            finding_id: None,
        });
    }
}

pub fn search(_seed: u64, full: bool, rt: &tokio::runtime::Runtime) -> SearchResult {
    let mut out = vec![];
    let mut n = 0;
    for cfg in ["whatsapp_v1", "experimental"] { for which in 0..4u8 { run_race(cfg, which, rt, &mut out); n += 1; } }
    for cfg in ["whatsapp_v1", "experimental"] { run_commit_reader(cfg, rt, &mut out); n += 1; }
    for cfg in ["whatsapp_v1", "experimental"] {
        for lag in 0..=(if full { 5 } else { 3 }) { for cached in [false, true] { run_proofs(cfg, lag, cached, rt, &mut out); n += 1; } }
    }
    for cfg in ["whatsapp_v1", "experimental"] {
        for lag in 0..=(if full { 6 } else { 3 }) {
            run(cfg, lag, rt, &mut out);
            n += 1;
        }
    }
    SearchResult { evaluations: n, failures: out, summary: "BOUNDED: a lookup / key_history racing a publish by another instance (the publish runs right after, and right BEFORE, the request's read of the epoch record); a fresh reader served right after the storage operation that carries the epoch record of a commit; read-only directory lagging 0..k epochs behind storage asks for its epoch hash and for proofs (both configurations)".into() }
}

pub fn replay(case: &[&str], rt: &tokio::runtime::Runtime) -> (bool, String) {
    let mut out = vec![];
    if case[0] == "commitreader" { run_commit_reader(case[1], rt, &mut out); } else if case[0] == "race" { run_race(case[1], case[2].parse().unwrap(), rt, &mut out); } else if case[0] == "proofs" { run_proofs(case[1], case[2].parse().unwrap(), case.get(3).map(|s| *s == "1").unwrap_or(false), rt, &mut out); } else { run(case[0], case[1].parse().unwrap(), rt, &mut out); }
    match out.first() { Some(f) => (true, format!("{}: expected {}, observed {}", f.input, f.expected, f.observed)), None => (false, "holds".into()) }
}
