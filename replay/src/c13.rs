//! C13 (as-of reads): a reader whose view is `lag` epochs behind storage must get an error or the hash it asked for —
//! contract tree_node/determine_node_to_get#E_never_newer on the real directory.
use crate::{Failure, SearchResult};
use akd_core::{ExampleLabel, ExperimentalConfiguration, WhatsAppV1Configuration};

fn run(cfg: &str, lag: u64, rt: &tokio::runtime::Runtime, out: &mut Vec<Failure>) {
    let r = if cfg == "whatsapp_v1" {
        rt.block_on(akd::vx_export::d3_lagging_reader::<WhatsAppV1Configuration>(lag))
    } else {
        rt.block_on(akd::vx_export::d3_lagging_reader::<ExperimentalConfiguration<ExampleLabel>>(lag))
    };
    if let Ok(Some(true)) = r {
        out.push(Failure {
            clause: "tree_node/TreeNodeWithPreviousValue.determine_node_to_get#E_never_newer".into(),
            case: vec!["c13".into(), cfg.into(), lag.to_string()],
            input: format!("[{cfg}] publish 1 + {lag} epochs, reset the epoch record to 1, ReadOnlyDirectory::get_epoch_hash()"),
            expected: "an error, or (1, root hash of epoch 1)".into(),
            observed: "(1, a root hash of a later epoch)".into(),
            finding_id: None,
        });
    }
}

fn run_proofs(cfg: &str, lag: u64, cached: bool, rt: &tokio::runtime::Runtime, out: &mut Vec<Failure>) {
    let r = if cfg == "whatsapp_v1" {
        rt.block_on(akd::vx_export::c13_lagging_proofs::<WhatsAppV1Configuration>(lag, cached))
    } else {
        rt.block_on(akd::vx_export::c13_lagging_proofs::<ExperimentalConfiguration<ExampleLabel>>(lag, cached))
    };
    if let Ok(bad) = r {
        if let Some((req, what)) = bad.first() {
            out.push(Failure {
                clause: "tree_node/TreeNode.get_child_node#E_named_child_or_error".into(),
                case: vec!["c13".into(), "proofs".into(), cfg.into(), lag.to_string(), (cached as u8).to_string()],
                input: format!("[{cfg}] publish 8 labels in epoch 1, {}then {lag} epochs each updating 'b'; {}; ReadOnlyDirectory::{req}",
                               if cached { "a cached reader serves lookup(a), " } else { "" }, if cached { "the cached reader (still at epoch 1) is asked" } else { "reset the epoch record to 1" }),
                expected: "an error, or a proof that verifies against (1, root hash of epoch 1)".into(),
                observed: format!("{what} ({} such answers)", bad.len()),
                finding_id: None,
            });
        }
    }
}

fn run_race(cfg: &str, which: u8, rt: &tokio::runtime::Runtime, out: &mut Vec<Failure>) {
    let r = if cfg == "whatsapp_v1" {
        rt.block_on(akd::vx_export::c13_request_racing_publish::<WhatsAppV1Configuration>(which))
    } else {
        rt.block_on(akd::vx_export::c13_request_racing_publish::<ExperimentalConfiguration<ExampleLabel>>(which))
    };
    if let Ok(Some(what)) = r {
        out.push(Failure {
            clause: (if which == 0 { "directory_lookup/Directory.lookup#E_one_epoch" } else { "directory_lookup/Directory.key_history__tail#E_updates" }).into(),
            case: vec!["c13".into(), "race".into(), cfg.into(), which.to_string()],
            input: format!("[{cfg}] uncached instance at epoch 2 serves {}; right after its read of the epoch record another instance over the same database publishes epoch 3", if which == 0 { "lookup(a)" } else { "key_history(a, Complete)" }),
            expected: "an error, or an answer that verifies against the (epoch, root hash) pair returned with it - never a proof stitched together from two epochs".into(),
            observed: what,
            finding_id: None,
        });
    }
}

pub fn search(_seed: u64, full: bool, rt: &tokio::runtime::Runtime) -> SearchResult {
    let mut out = vec![];
    let mut n = 0;
    for cfg in ["whatsapp_v1", "experimental"] { for which in 0..2u8 { run_race(cfg, which, rt, &mut out); n += 1; } }
    for cfg in ["whatsapp_v1", "experimental"] {
        for lag in 0..=(if full { 5 } else { 3 }) { for cached in [false, true] { run_proofs(cfg, lag, cached, rt, &mut out); n += 1; } }
    }
    for cfg in ["whatsapp_v1", "experimental"] {
        for lag in 0..=(if full { 6 } else { 3 }) {
            run(cfg, lag, rt, &mut out);
            n += 1;
        }
    }
    SearchResult { evaluations: n, failures: out, summary: "read-only directory lagging 0..k epochs behind storage asks for its epoch hash (both configurations)".into() }
}

pub fn replay(case: &[&str], rt: &tokio::runtime::Runtime) -> (bool, String) {
    let mut out = vec![];
    if case[0] == "race" { run_race(case[1], case[2].parse().unwrap(), rt, &mut out); } else if case[0] == "proofs" { run_proofs(case[1], case[2].parse().unwrap(), case.get(3).map(|s| *s == "1").unwrap_or(false), rt, &mut out); } else { run(case[0], case[1].parse().unwrap(), rt, &mut out); }
    match out.first() { Some(f) => (true, format!("{}: expected {}, observed {}", f.input, f.expected, f.observed)), None => (false, "holds".into()) }
}
