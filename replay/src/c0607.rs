//! C06 / C07: the real lookup and history verifiers on honest proofs of a small directory (must be accepted with the published
//! values) and on systematically tampered variants (must be rejected). Each variant names the contract clause that forbids it.
use crate::{Failure, SearchResult};
use akd::directory::Directory;
use akd::ecvrf::HardCodedAkdVRF;
use akd::storage::manager::StorageManager;
use akd::storage::memory::AsyncInMemoryDatabase;
use akd::{AkdLabel, AkdValue, HistoryParams, HistoryProof, HistoryVerificationParams, LookupProof};
use akd_core::Configuration;

fn f(clause: &str, case: Vec<String>, input: String, expected: &str, observed: String) -> Failure {
    Failure { clause: clause.into(), case, input, expected: expected.into(), observed, finding_id: None }
}

async fn setup<TC: Configuration>() -> Option<(Directory<TC, AsyncInMemoryDatabase, HardCodedAkdVRF>, Vec<u8>)> {
    let akd = Directory::<TC, _, _>::new(StorageManager::new_no_cache(AsyncInMemoryDatabase::new()), HardCodedAkdVRF {}, akd::append_only_zks::AzksParallelismConfig::disabled()).await.ok()?;
    let l = |s: &str| AkdLabel::from(s);
    let v = |s: &str| AkdValue::from(s);
    // 'a' gets 5 versions in epochs 1, 2, 3, 5, 6; 'b' 2 versions; 'c' one
    akd.publish(vec![(l("a"), v("a1")), (l("b"), v("b1"))]).await.ok()?;
    akd.publish(vec![(l("a"), v("a2")), (l("c"), v("c1"))]).await.ok()?;
    akd.publish(vec![(l("a"), v("a3"))]).await.ok()?;
    akd.publish(vec![(l("b"), v("b2"))]).await.ok()?;
    akd.publish(vec![(l("a"), v("a4"))]).await.ok()?;
    akd.publish(vec![(l("a"), v("a5"))]).await.ok()?;
    let pk = akd.get_public_key().await.ok()?.as_bytes().to_vec();
    Some((akd, pk))
}

pub async fn lookup_cfg<TC: Configuration>(cfg: &str, only: Option<&str>, out: &mut Vec<Failure>) -> u64 {
    let mut n = 0;
    let (akd, pk) = match setup::<TC>().await { Some(x) => x, None => return 0 };
    let la = AkdLabel::from("a");
    let (proof, eh) = match akd.lookup(la.clone()).await { Ok(x) => x, Err(_) => return 0 };
    let (pb_, _) = match akd.lookup(AkdLabel::from("b")).await { Ok(x) => x, Err(_) => return 0 };
    let verify = |p: LookupProof, epoch: u64| akd::client::lookup_verify::<TC>(&pk, eh.hash(), epoch, la.clone(), p);
    // honest
    n += 1;
    match verify(proof.clone(), eh.epoch()) {
        Ok(r) if r.version == 5 && r.value == AkdValue::from("a5") && r.epoch == 6 => {}
        other => out.push(f("verify_lookup/lookup_verify#completeness", vec!["c06".into(), cfg.into(), "honest".into()], format!("[{cfg}] honest lookup proof of 'a' (5 versions, latest in epoch 6)"), "Ok(version 5, 'a5', epoch 6)", format!("{other:?}"))),
    }
    let mut variants: Vec<(&str, &str, LookupProof, u64)> = vec![];
    let mut p;
    p = proof.clone(); p.version += 1; variants.push(("version+1", "verify_lookup/lookup_verify#E_existence", p, eh.epoch()));
    p = proof.clone(); p.version -= 1; variants.push(("version-1", "verify_lookup/lookup_verify#E_existence", p, eh.epoch()));
    p = proof.clone(); p.epoch -= 1; variants.push(("epoch-1", "verify_lookup/lookup_verify#E_existence", p, eh.epoch()));
    p = proof.clone(); p.value = AkdValue::from("a4"); variants.push(("older value", "verify_lookup/lookup_verify#E_existence", p, eh.epoch()));
    p = proof.clone(); p.commitment_nonce[0] ^= 1; variants.push(("nonce altered", "verify_lookup/lookup_verify#E_existence", p, eh.epoch()));
    variants.push(("current epoch below the version", "verify_lookup/lookup_verify#E_bound", proof.clone(), 4));
    p = proof.clone(); p.marker_proof = proof.existence_proof.clone(); p.marker_vrf_proof = proof.existence_vrf_proof.clone(); variants.push(("marker := existence of v (5 is no power of two)", "verify_lookup/lookup_verify#E_marker", p, eh.epoch()));
    p = proof.clone(); p.existence_vrf_proof = proof.marker_vrf_proof.clone(); variants.push(("existence VRF proof := marker VRF proof", "verify_base/verify_label#E_label", p, eh.epoch()));
    p = proof.clone(); p.freshness_proof = pb_.freshness_proof.clone(); variants.push(("freshness proof of another label", "verify_base/verify_label#E_label", p, eh.epoch()));
    p = proof.clone(); p.freshness_vrf_proof = pb_.freshness_vrf_proof.clone(); variants.push(("freshness VRF proof of another label", "verify_base/verify_label#E_label", p, eh.epoch()));
    p = proof.clone(); p.existence_proof = pb_.existence_proof.clone(); variants.push(("existence proof of another label", "verify_base/verify_label#E_label", p, eh.epoch()));
    p = proof.clone(); p.freshness_proof.longest_prefix_children.swap(0, 1); variants.push(("children of the freshness anchor swapped", "verify_base/verify_nonmembership#E_sound", p, eh.epoch()));
    p = proof.clone(); if let Some(s) = p.existence_proof.sibling_proofs.last_mut() { s.direction = s.direction.other(); } variants.push(("direction of one sibling flipped", "verify_base/verify_membership#E_fold", p, eh.epoch()));
    p = proof.clone(); p.existence_proof.label.label_len = 255; variants.push(("existence label length 255", "verify_base/verify_label#E_label", p, eh.epoch()));
    for (name, clause, p, epoch) in variants {
        if let Some(o) = only { if o != name { continue; } }
        n += 1;
        if let Ok(r) = verify(p, epoch) {
            out.push(f(clause, vec!["c06".into(), cfg.into(), name.into()], format!("[{cfg}] lookup proof of 'a' with: {name}"), "rejected", format!("accepted: version {} epoch {}", r.version, r.epoch)));
        }
    }
    n
}

pub async fn history_cfg<TC: Configuration>(cfg: &str, only: Option<&str>, out: &mut Vec<Failure>) -> u64 {
    let mut n = 0;
    let (akd, pk) = match setup::<TC>().await { Some(x) => x, None => return 0 };
    let la = AkdLabel::from("a");
    let def = |hp| HistoryVerificationParams::Default { history_params: hp };
    for params in [HistoryParams::Complete, HistoryParams::MostRecent(2), HistoryParams::MostRecent(7)] {
        let (proof, eh) = match akd.key_history(&la, params).await { Ok(x) => x, Err(_) => continue };
        let verify = |p: HistoryProof, vp: HistoryVerificationParams| akd::client::key_history_verify::<TC>(&pk, eh.hash(), eh.epoch(), la.clone(), p, vp);
        let expect_n = match params { HistoryParams::MostRecent(2) => 2, _ => 5 };
        n += 1;
        match verify(proof.clone(), def(params)) {
            Ok(r) if r.len() == expect_n && r[0].version == 5 && r[0].value == AkdValue::from("a5") && r.windows(2).all(|w| w[0].version == w[1].version + 1) => {}
            other => out.push(f("verify_history/key_history_verify#completeness", vec!["c07".into(), cfg.into(), "honest".into()], format!("[{cfg}] honest {params:?} history of 'a'"), "Ok(newest first, versions 5..)", format!("{:?}", other.map(|r| r.iter().map(|x| x.version).collect::<Vec<_>>())))),
        }
        let k = proof.update_proofs.len();
        let mut variants: Vec<(String, &str, HistoryProof, HistoryVerificationParams)> = vec![];
        let mut p;
        p = proof.clone(); p.update_proofs.remove(0); variants.push(("newest update dropped".into(), "markers/get_marker_versions#E_future", p, def(params)));
        if k >= 2 {
            p = proof.clone(); p.update_proofs.remove(k - 1); variants.push(("oldest update dropped".into(), "verify_history/verify_with_history_params#E_shape", p, def(params)));
            p = proof.clone(); p.update_proofs.swap(0, 1); variants.push(("two updates reordered".into(), "verify_history/verify_with_history_params#I_consecutive", p, def(params)));
            p = proof.clone(); let d = p.update_proofs[1].clone(); p.update_proofs.insert(1, d); variants.push(("one update duplicated".into(), "verify_history/verify_with_history_params#I_consecutive", p, def(params)));
            p = proof.clone(); let a = p.update_proofs[0].previous_version_proof.clone(); p.update_proofs[0].previous_version_proof = p.update_proofs[1].previous_version_proof.clone(); p.update_proofs[1].previous_version_proof = a; variants.push(("previous-version proofs of two updates swapped".into(), "verify_history/verify_single_update_proof#E_update", p, def(params)));
            p = proof.clone(); p.update_proofs[0].previous_version_proof = None; variants.push(("stale proof of the previous version removed".into(), "verify_history/verify_single_update_proof#E_update", p, def(params)));
        }
        if k >= 3 { p = proof.clone(); p.update_proofs.remove(1); variants.push(("a middle update dropped (gap)".into(), "verify_history/verify_with_history_params#I_consecutive", p, def(params))); }
        p = proof.clone(); p.update_proofs[0].value = AkdValue::from("zz"); variants.push(("value of the newest update replaced".into(), "verify_history/verify_single_update_proof#E_update", p, def(params)));
        p = proof.clone(); p.update_proofs[0].epoch -= 1; variants.push(("epoch of the newest update - 1".into(), "verify_history/verify_single_update_proof#E_update", p, def(params)));
        p = proof.clone(); p.update_proofs[0].value = AkdValue(vec![]); variants.push(("value emptied (tombstone) under the DEFAULT verifier".into(), "verify_history/verify_single_update_proof#E_update", p, def(params)));
        if !proof.future_marker_vrf_proofs.is_empty() {
            p = proof.clone(); p.future_marker_vrf_proofs.pop(); p.non_existence_of_future_marker_proofs.pop(); variants.push(("one future marker proof removed".into(), "verify_history/verify_with_history_params#E_shape", p, def(params)));
        }
        if !proof.past_marker_vrf_proofs.is_empty() {
            p = proof.clone(); p.past_marker_vrf_proofs.pop(); p.existence_of_past_marker_proofs.pop(); variants.push(("one past marker proof removed".into(), "verify_history/verify_with_history_params#E_shape", p, def(params)));
        }
        if let HistoryParams::MostRecent(2) = params {
            variants.push(("MostRecent(2) proof checked as Complete".into(), "verify_history/verify_with_history_params#E_shape", proof.clone(), def(HistoryParams::Complete)));
            variants.push(("MostRecent(2) proof checked as MostRecent(1)".into(), "verify_history/verify_with_history_params#E_shape", proof.clone(), def(HistoryParams::MostRecent(1))));
        }
        for (name, clause, p, vp) in variants {
            if let Some(o) = only { if o != name { continue; } }
            n += 1;
            if let Ok(r) = verify(p, vp) {
                out.push(f(clause, vec!["c07".into(), cfg.into(), name.clone()], format!("[{cfg}] {params:?} history of 'a' with: {name}"), "rejected", format!("accepted: versions {:?}", r.iter().map(|x| x.version).collect::<Vec<_>>())));
            }
        }
        // tombstoned entries under the LENIENT verifier stay bound to their VRF label and to their own leaf
        if k >= 2 {
            let lenient = HistoryVerificationParams::AllowMissingValues { history_params: params };
            let mut tv: Vec<(String, HistoryProof)> = vec![];
            let mut q = proof.clone(); q.update_proofs[k - 1].value = AkdValue(vec![]);
            if !q.update_proofs[k - 1].existence_vrf_proof.is_empty() { q.update_proofs[k - 1].existence_vrf_proof[0] ^= 1; }
            tv.push(("tombstoned entry: one bit of its VRF proof flipped (AllowMissingValues)".into(), q));
            let mut q = proof.clone(); q.update_proofs[k - 1].value = AkdValue(vec![]);
            q.update_proofs[k - 1].existence_vrf_proof = proof.update_proofs[0].existence_vrf_proof.clone();
            tv.push(("tombstoned entry: VRF proof of another version (AllowMissingValues)".into(), q));
            let mut q = proof.clone(); q.update_proofs[k - 1].value = AkdValue(vec![]);
            q.update_proofs[k - 1].existence_proof = proof.update_proofs[0].existence_proof.clone();
            tv.push(("tombstoned entry: membership proof of another version's leaf (AllowMissingValues)".into(), q));
            for (name, q) in tv {
                if let Some(o) = only { if o != name { continue; } }
                n += 1;
                if let Ok(r) = verify(q, lenient) {
                    out.push(f("verify_history/verify_single_update_proof#E_update", vec!["c07".into(), cfg.into(), name.clone()], format!("[{cfg}] {params:?} history of 'a' with: {name}"), "rejected", format!("accepted: versions {:?}", r.iter().map(|x| x.version).collect::<Vec<_>>())));
                }
            }
        }
        // the lenient verifier accepts an emptied value (and reports it empty), everything else as before
        n += 1;
        let mut p = proof.clone();
        p.update_proofs[k - 1].value = AkdValue(vec![]);
        match verify(p, HistoryVerificationParams::AllowMissingValues { history_params: params }) {
            Ok(r) if r.len() == expect_n && r[k - 1].value.0.is_empty() => {}
            other => out.push(f("verify_history/verify_single_update_proof#E_update", vec!["c07".into(), cfg.into(), "lenient".into()], format!("[{cfg}] {params:?} history with the oldest value emptied, AllowMissingValues"), "accepted with that value empty", format!("{:?}", other.map(|r| r.len())))),
        }
    }
    n
}

pub fn search(pid: &str, _seed: u64, _full: bool, rt: &tokio::runtime::Runtime) -> SearchResult {
    let mut out = vec![];
    let mut n = 0;
    if pid == "C06" {
        n += rt.block_on(lookup_cfg::<akd_core::WhatsAppV1Configuration>("whatsapp_v1", None, &mut out));
        n += rt.block_on(lookup_cfg::<akd_core::ExperimentalConfiguration<akd_core::ExampleLabel>>("experimental", None, &mut out));
    } else {
        n += rt.block_on(history_cfg::<akd_core::WhatsAppV1Configuration>("whatsapp_v1", None, &mut out));
        n += rt.block_on(history_cfg::<akd_core::ExperimentalConfiguration<akd_core::ExampleLabel>>("experimental", None, &mut out));
    }
    SearchResult { evaluations: n, failures: out, summary: "honest proofs of a 6-epoch directory (a label with 5 versions) must verify to the published values; every tampered variant (fields altered, swapped with another proof's, entries dropped / duplicated / reordered, marker proofs removed, wrong parameter, tombstone under the default verifier) must be rejected; both configurations".into() }
}

pub fn replay(kind: &str, case: &[&str], rt: &tokio::runtime::Runtime) -> (bool, String) {
    let mut out = vec![];
    let only = if case[1] == "honest" || case[1] == "lenient" { None } else { Some(case[1]) };
    let wa = case[0] == "whatsapp_v1";
    if kind == "c06" {
        if wa { rt.block_on(lookup_cfg::<akd_core::WhatsAppV1Configuration>(case[0], only, &mut out)); } else { rt.block_on(lookup_cfg::<akd_core::ExperimentalConfiguration<akd_core::ExampleLabel>>(case[0], only, &mut out)); }
    } else if wa { rt.block_on(history_cfg::<akd_core::WhatsAppV1Configuration>(case[0], only, &mut out)); } else { rt.block_on(history_cfg::<akd_core::ExperimentalConfiguration<akd_core::ExampleLabel>>(case[0], only, &mut out)); }
    match out.first() { Some(f) => (true, format!("{}: expected {}, observed {}", f.input, f.expected, f.observed)), None => (false, "holds".into()) }
}
