//! C16: a write the database rejects must not change what a later read through the same manager returns
//! (ordering contract: the cache is filled only with records the database accepted - manager/{set,batch_set,commit_transaction}#body).
use crate::{Failure, SearchResult};

fn run(path: u8, rt: &tokio::runtime::Runtime, out: &mut Vec<Failure>) {
    let names = ["set", "batch_set", "commit_transaction"];
    if let Ok((via_manager, in_db)) = rt.block_on(akd::vx_export::c16_rejected_write(path)) {
        if via_manager != in_db {
            out.push(Failure {
                clause: format!("manager/StorageManager.{}#body", names[path as usize]),
                case: vec!["c16".into(), path.to_string()],
                input: format!("cached manager over a database holding the epoch record of epoch 1; {} of the epoch record of epoch 2 is REJECTED by the database; then get(epoch record) through the manager", names[path as usize]),
                expected: format!("epoch {in_db} (what the database holds)"),
                observed: format!("epoch {via_manager} (served from the cache)"),
                finding_id: None,
            });
        }
    }
}

fn run_lower(path: u8, rt: &tokio::runtime::Runtime, out: &mut Vec<Failure>) {
    let names = ["set", "batch_set", "commit_transaction"];
    if let Ok((via_manager, in_db)) = rt.block_on(akd::vx_export::c16_lower_epoch_write(path)) {
        if via_manager != in_db {
            out.push(Failure {
                clause: "timed_cache/TimedCache.put#E_stored".into(),
                case: vec!["c16".into(), "lower".into(), path.to_string()],
                input: format!("cached manager: set(epoch record of epoch 5); get; {} of an epoch record with the SMALLER epoch 3 (accepted by the database); get(epoch record)", names[path as usize]),
                expected: format!("epoch {in_db} (what the database holds)"),
                observed: format!("epoch {via_manager} (served from the cache)"),
                finding_id: None,
            });
        }
    }
}

fn run_flush(others: u8, rt: &tokio::runtime::Runtime, out: &mut Vec<Failure>) {
    if let Ok((via_manager, in_db)) = rt.block_on(akd::vx_export::c16_flush_epoch_record(others)) {
        if via_manager != in_db {
            out.push(Failure {
                clause: "cache/TimedCache.flush#epoch_record".into(),
                case: vec!["c16".into(), "flush".into(), others.to_string()],
                input: format!("cached manager that has served the epoch record of epoch 1 and {others} node record(s); another writer stores epoch 2; flush_cache(); get(epoch record)"),
                expected: format!("epoch {in_db} (after a flush the next read of the epoch record reflects storage)"),
                observed: format!("epoch {via_manager} (served from the cache)"),
                finding_id: None,
            });
        }
    }
}

pub fn search(_seed: u64, _full: bool, rt: &tokio::runtime::Runtime) -> SearchResult {
    let mut out = vec![];
    for p in 0..3u8 { run(p, rt, &mut out); }
    for o in [0u8, 1, 3] { run_flush(o, rt, &mut out); }
    for p in 0..3u8 { run_lower(p, rt, &mut out); }
    SearchResult { evaluations: 9, failures: out, summary: "flush with only the epoch record cached / with node records cached, then a read of the epoch record; a write rejected by the database through each write path (set, batch_set, transaction commit) of a cached manager, followed by a read; an epoch record with a smaller epoch than the cached one written through each write path, followed by a read".into() }
}

pub fn replay(case: &[&str], rt: &tokio::runtime::Runtime) -> (bool, String) {
    let mut out = vec![];
    if case[0] == "lower" { run_lower(case[1].parse().unwrap(), rt, &mut out); } else if case[0] == "flush" { run_flush(case[1].parse().unwrap(), rt, &mut out); } else { run(case[0].parse().unwrap(), rt, &mut out); }
    match out.first() { Some(f) => (true, format!("{}: expected {}, observed {}", f.input, f.expected, f.observed)), None => (false, "holds".into()) }
}
