//! C02 / C03 (BOUNDED end-to-end cross-check of the statements on the real code): publish, then every lookup and key-history answer
//! must verify to the true latest value / versions. Run on the single-threaded runtime AND on a 4-worker runtime (the parallel VRF
//! labelling and the parallel insertion only interleave there). The deductive part (assembly of the answers, agreement with the
//! verifier) is in the Verus unit directory_lookup; this run exists for what lies between the units (tree contents, VRF labelling).
use crate::{Failure, SearchResult};
use akd_core::{ExampleLabel, ExperimentalConfiguration, WhatsAppV1Configuration};

fn run(cfg: &str, n: usize, par: bool, multi: bool, rt: &tokio::runtime::Runtime, out: &mut Vec<Failure>) {
    let go = |rt: &tokio::runtime::Runtime| if cfg == "whatsapp_v1" {
        rt.block_on(akd::vx_export::c0203_all_answers::<WhatsAppV1Configuration>(n, par))
    } else {
        rt.block_on(akd::vx_export::c0203_all_answers::<ExperimentalConfiguration<ExampleLabel>>(n, par))
    };
    std::panic::set_hook(Box::new(|_| {}));
    let r = std::panic::catch_unwind(std::panic::AssertUnwindSafe(|| if multi {
        let mrt = tokio::runtime::Builder::new_multi_thread().worker_threads(4).enable_all().build().unwrap();
        go(&mrt)
    } else { go(rt) }));
    let _ = std::panic::take_hook();
    let r = match r { Ok(x) => x, Err(_) => Ok(vec!["a request PANICKED (every publish / lookup / history request, MostRecent(usize::MAX) included, must return)".to_string()]) };
    if let Ok(bad) = r {
        if let Some(b) = bad.first() {
            out.push(Failure {
                clause: "replay/c0203#all_answers".into(),
                case: vec!["c0203".into(), cfg.into(), n.to_string(), (par as u8).to_string(), (multi as u8).to_string()],
                input: format!("[{cfg}] publish {n} labels twice, a third time with the even ones unchanged and a fourth time with all unchanged ({} insertion, {} runtime), then lookup / batch_lookup / key_history (Complete, MostRecent(1), MostRecent(5), MostRecent(usize::MAX)) of every label", if par { "parallel" } else { "sequential" }, if multi { "4-worker" } else { "single-threaded" }),
                expected: "every answer verifies against the epoch hash returned with it and yields the latest value, the version = number of DISTINCT successive values and the epoch of that update / all versions newest first; a publish of unchanged values creates no epoch; an unpublished label gets an error".into(),
                observed: format!("{b} ({} problems)", bad.len()),
                finding_id: None,
            });
        }
    }
}

pub fn search(_seed: u64, full: bool, rt: &tokio::runtime::Runtime) -> SearchResult {
    let mut out = vec![];
    let mut n = 0;
    let size = if full { 96 } else { 48 };
    for cfg in ["whatsapp_v1", "experimental"] {
        run(cfg, 8, false, false, rt, &mut out); n += 1;
        run(cfg, size, true, true, rt, &mut out); n += 1;
    }
    SearchResult { evaluations: n, failures: out, summary: format!("BOUNDED: 8 labels (sequential, single-threaded) and {size} labels (parallel insertion and VRF labelling on a 4-worker runtime), two or three versions each (unchanged re-submits included), every lookup / batch lookup / history answer, both configurations") }
}

pub fn replay(case: &[&str], rt: &tokio::runtime::Runtime) -> (bool, String) {
    let mut out = vec![];
    run(case[0], case[1].parse().unwrap(), case[2] == "1", case[3] == "1", rt, &mut out);
    match out.first() { Some(f) => (true, format!("{}: expected {}, observed {}", f.input, f.expected, f.observed)), None => (false, "holds".into()) }
}
