//! C08: marker sets of the real `get_marker_versions` against the closed forms of the contract
//! (contracts/markers/prelude.rs: in_fut / in_past), lemma L1 on the real outputs, server/verifier marker agreement.
use crate::{Failure, SearchResult};
use akd_core::utils::get_marker_versions;

const SK: [u64; 7] = [1, 2, 4, 16, 256, 65536, 1 << 32];

fn pow2(p: u64) -> bool { p != 0 && p & (p - 1) == 0 }
fn hb(d: u64) -> u64 { if d == 0 { 0 } else { 1u64 << (63 - d.leading_zeros()) } }
fn lmax(s: u64) -> u64 { *SK.iter().rev().find(|k| **k <= s).unwrap_or(&1) }
fn kmin(n: u64) -> u64 { *SK.iter().find(|k| **k > n).unwrap_or(&0) }
fn rnd(n: u64, p: u64) -> u64 { (n | p) & !(p - 1) }
fn above(x: u64, p: u64) -> u64 { x & !((p - 1) | p) }

/// all x with in_fut(x, n, e) — the closed form of the contract, enumerated through its finitely many candidates
pub fn spec_future(n: u64, e: u64) -> Vec<u64> {
    let mut c = vec![];
    for i in 0..64 {
        let p = 1u64 << i;
        if n & p == 0 && p <= n { c.push(rnd(n, p)); }
        let km = kmin(n);
        if !(km != 0 && km <= e && p >= km) { c.push(p); }
    }
    c.extend_from_slice(&SK);
    c.retain(|x| n < *x && *x <= e);
    c.sort(); c.dedup();
    c
}
pub fn spec_past(s: u64) -> Vec<u64> {
    let mut c = vec![];
    if lmax(s) != s { c.push(lmax(s)); }
    if hb(s) != s { c.push(hb(s)); }
    for i in 0..64 {
        let p = 1u64 << i;
        if s & p != 0 && above(s, p) != 0 { c.push(above(s, p)); }
    }
    c.sort(); c.dedup();
    c
}

fn call(s: u64, e: u64, ep: u64) -> Result<(Vec<u64>, Vec<u64>), String> {
    std::panic::catch_unwind(|| get_marker_versions(s, e, ep)).map_err(|_| "panic".to_string())
}

fn check_triple(s: u64, e: u64, ep: u64, fails: &mut Vec<Failure>) {
    match call(s, e, ep) {
        Err(_) => fails.push(Failure {
            clause: "markers/get_marker_versions#body".into(), case: vec!["c08".into(), "markers".into(), s.to_string(), e.to_string(), ep.to_string()],
            input: format!("get_marker_versions({s}, {e}, {ep})"), expected: "no panic for 1 <= start <= end <= epoch".into(), observed: "panic".into(), finding_id: None }),
        Ok((past, fut)) => {
            for x in spec_future(e, ep) {
                if !fut.contains(&x) {
                    fails.push(Failure { clause: "markers/get_marker_versions#E_future".into(),
                        case: vec!["c08".into(), "markers".into(), s.to_string(), e.to_string(), ep.to_string()],
                        input: format!("get_marker_versions({s}, {e}, {ep})"), expected: format!("future markers contain {x}"), observed: format!("{fut:?}"), finding_id: None });
                    return;
                }
            }
            for x in spec_past(s) {
                if !past.contains(&x) {
                    fails.push(Failure { clause: "markers/get_marker_versions#E_past".into(),
                        case: vec!["c08".into(), "markers".into(), s.to_string(), e.to_string(), ep.to_string()],
                        input: format!("get_marker_versions({s}, {e}, {ep})"), expected: format!("past markers contain {x}"), observed: format!("{past:?}"), finding_id: None });
                    return;
                }
            }
        }
    }
}

/// L1 on the real outputs: history(n) and history(m), n < m <= E, with ranges [s, n], [sp, m]
fn check_l1(n: u64, m: u64, sp: u64, ep: u64, fails: &mut Vec<Failure>) {
    let (_, fut_n) = match call(1.min(n), n, ep) { Ok(x) => x, Err(_) => return };
    let (past_m, _) = match call(sp, m, ep) { Ok(x) => x, Err(_) => return };
    let ok = fut_n.iter().any(|x| (sp <= *x && *x <= m) || past_m.contains(x));
    if !ok {
        fails.push(Failure { clause: "markers/lemma_l1#L".into(),
            case: vec!["c08".into(), "l1".into(), n.to_string(), m.to_string(), sp.to_string(), ep.to_string()],
            input: format!("histories with latest n={n} and m={m} (range [{sp},{m}]) at epoch {ep}"),
            expected: "a version shown absent by history(n) that history(m) shows present".into(),
            observed: format!("future({n},{ep})={fut_n:?} past({sp})={past_m:?}"), finding_id: None });
    }
}

fn check_agreement(v: u64, fails: &mut Vec<Failure>) {
    let a = std::panic::catch_unwind(|| akd::vx_export::directory_get_marker_version(v));
    let b = std::panic::catch_unwind(|| akd_core::utils::vx_export::get_marker_version_log2(v));
    if let (Ok(a), Ok(b)) = (&a, &b) {
        if a == b && *a == 63 - v.leading_zeros() as u64 { return; }
    }
    fails.push(Failure { clause: "markers/get_marker_version#E_agree".into(), case: vec!["c08".into(), "agree".into(), v.to_string()],
        input: format!("version {v}"), expected: "server and verifier marker exponent = floor(log2 v)".into(), observed: format!("{a:?} vs {b:?}"), finding_id: None });
}

pub fn structured() -> Vec<u64> {
    let mut v = vec![];
    for i in 0..64u32 {
        let p = 1u64 << i;
        for d in [p.wrapping_sub(1), p, p.wrapping_add(1)] { if d >= 1 { v.push(d); } }
    }
    v.push(u64::MAX); v.push(u64::MAX - 1);
    v.sort(); v.dedup();
    v
}

pub fn search(seed: u64, full: bool, rt: &tokio::runtime::Runtime) -> SearchResult {
    let _ = rt;
    std::panic::set_hook(Box::new(|_| {}));
    let mut fails = vec![];
    let mut n = 0u64;
    let bound = if full { 200 } else { 64 };
    for ep in 1..=bound { for e in 1..=ep { for s in 1..=e { check_triple(s, e, ep, &mut fails); n += 1; if fails.len() > 50 { break; } } } }
    let st = structured();
    for &ep in &st { for &e in &st { if e > ep { continue; } for &s in &[1u64, e / 2 + 1, e] { if s >= 1 && s <= e { check_triple(s, e, ep, &mut fails); n += 1; } } if fails.len() > 50 { break; } } }
    let mut r = crate::rng::Rng(seed ^ 0xC08);
    for _ in 0..(if full { 200_000 } else { 20_000 }) {
        let sh = r.below(64);
        let ep = (r.next() >> sh).max(1); let e = r.below(ep) + 1; let s = r.below(e) + 1;
        check_triple(s, e, ep, &mut fails); n += 1;
        if fails.len() > 50 { break; }
    }
    let lb = if full { 48 } else { 28 };
    for ep in 1..=lb { for m in 2..=ep { for nn in 1..m { for sp in 1..=m { check_l1(nn, m, sp, ep, &mut fails); n += 1; } } } if fails.len() > 50 { break; } }
    for &v in &st { check_agreement(v, &mut fails); n += 1; }
    for v in 1..2000u64 { check_agreement(v, &mut fails); n += 1; }
    let _ = std::panic::take_hook();
    SearchResult { evaluations: n, failures: fails,
        summary: format!("get_marker_versions vs closed forms: all (s,e,E) <= {bound}, powers of two +-1 up to 2^63, seeded random; L1 on real outputs for E <= {lb}; marker agreement") }
}

pub fn replay(case: &[&str], _rt: &tokio::runtime::Runtime) -> (bool, String) {
    std::panic::set_hook(Box::new(|_| {}));
    let nums: Vec<u64> = case[1..].iter().filter_map(|s| s.parse().ok()).collect();
    let mut fails = vec![];
    match case[0] {
        "markers" => check_triple(nums[0], nums[1], nums[2], &mut fails),
        "l1" => check_l1(nums[0], nums[1], nums[2], nums[3], &mut fails),
        "agree" => check_agreement(nums[0], &mut fails),
        _ => {}
    }
    match fails.first() { Some(f) => (true, format!("{}: expected {}, observed {}", f.input, f.expected, f.observed)), None => (false, "holds".into()) }
}

/// Known finding D4: lookup(7) and complete history with latest 5 both verify under one root at epoch 8.
pub fn finding_d4(rt: &tokio::runtime::Runtime) -> (bool, String) {
    let a = rt.block_on(akd::vx_export::d4_lookup_vs_history::<akd_core::WhatsAppV1Configuration>(5, 7, 8));
    let b = rt.block_on(akd::vx_export::d4_lookup_vs_history::<akd_core::ExperimentalConfiguration<akd_core::ExampleLabel>>(5, 7, 8));
    let rep = matches!((&a, &b), (Ok((true, true)), Ok((true, true))));
    (rep, format!("lookup(7) accepted / complete history(latest 5) accepted at E=8: whatsapp_v1 {a:?}, experimental {b:?}"))
}
