//! C01 (BOUNDED differential check on the real code): seeded random publish histories; after every call the directory's epoch must be
//! the number of publishes that changed a value and its root hash the hash of the canonical compressed trie over the prescribed leaves,
//! computed independently (exports: c01_root_hash). No-op re-submissions change nothing; a batch naming a label twice is refused.
use crate::{Failure, SearchResult};
use akd_core::{ExampleLabel, ExperimentalConfiguration, WhatsAppV1Configuration};

fn run(cfg: &str, seed: u64, steps: usize, nlabels: u64, par: bool, rt: &tokio::runtime::Runtime, out: &mut Vec<Failure>) {
    let r = if cfg == "whatsapp_v1" {
        rt.block_on(akd::vx_export::c01_history::<WhatsAppV1Configuration>(seed, steps, nlabels, par))
    } else {
        rt.block_on(akd::vx_export::c01_history::<ExperimentalConfiguration<ExampleLabel>>(seed, steps, nlabels, par))
    };
    match r {
        Ok(bad) => if let Some(b) = bad.first() {
            out.push(Failure {
                clause: "replay/c01#canonical_trie".into(),
                case: vec!["c01".into(), cfg.into(), seed.to_string(), steps.to_string(), nlabels.to_string(), (par as u8).to_string()],
                input: format!("[{cfg}, {} insertion] seeded history #{seed}: {steps} publish calls over {nlabels} labels", if par { "parallel" } else { "sequential" }),
                expected: "epoch = number of publishes that changed a value; root hash = hash of the canonical compressed trie over one fresh leaf per (label, version) and one stale leaf per superseded version".into(),
                observed: format!("{b} ({} problems)", bad.len()),
                finding_id: None,
            });
        },
        Err(e) => out.push(Failure { clause: "replay/c01#canonical_trie".into(), case: vec!["c01".into(), cfg.into(), seed.to_string(), steps.to_string(), nlabels.to_string(), (par as u8).to_string()],
            input: format!("[{cfg}] seeded history #{seed}"), expected: "the history runs".into(), observed: format!("error: {e}"), finding_id: None }),
    }
}

fn run_retry(cfg: &str, rt: &tokio::runtime::Runtime, out: &mut Vec<Failure>) {
    let r = if cfg == "whatsapp_v1" {
        rt.block_on(akd::vx_export::c01_retry_after_interrupted_commit::<WhatsAppV1Configuration>())
    } else {
        rt.block_on(akd::vx_export::c01_retry_after_interrupted_commit::<ExperimentalConfiguration<ExampleLabel>>())
    };
    if let Ok(Some(what)) = r {
        out.push(Failure {
            clause: "replay/c01#retry_after_interrupted_commit".into(),
            case: vec!["c01".into(), "retry".into(), cfg.into()],
            input: format!("[{cfg}] epoch 1 = {{a,b}}; publish {{a:2,c}} whose epoch record never reaches storage; a new instance retries the same batch"),
            expected: "the retry creates epoch 2 with the canonical root of the history".into(),
            observed: what,
            finding_id: None,
        });
    }
}

pub fn search(seed: u64, full: bool, rt: &tokio::runtime::Runtime) -> SearchResult {
    let mut out = vec![];
    let mut n = 0;
    for cfg in ["whatsapp_v1", "experimental"] { run_retry(cfg, rt, &mut out); n += 1; }
    let (hist, steps) = if full { (24u64, 30usize) } else { (6, 16) };
    for cfg in ["whatsapp_v1", "experimental"] {
        for h in 0..hist {
            run(cfg, seed.wrapping_add(h), steps, 3 + h % 6, h % 2 == 1, rt, &mut out);
            n += steps as u64;
            if out.len() > 3 { break; }
        }
    }
    SearchResult { evaluations: n, failures: out, summary: format!("BOUNDED: {hist} seeded histories of {steps} publish calls over 3..8 labels per configuration, sequential and parallel insertion; root hash vs an independent canonical-trie computation after every call") }
}

pub fn replay(case: &[&str], rt: &tokio::runtime::Runtime) -> (bool, String) {
    let mut out = vec![];
    if case[0] == "retry" { run_retry(case[1], rt, &mut out); return match out.first() { Some(f) => (true, format!("{}: expected {}, observed {}", f.input, f.expected, f.observed)), None => (false, "holds".into()) }; }
    run(case[0], case[1].parse().unwrap(), case[2].parse().unwrap(), case[3].parse().unwrap(), case[4] == "1", rt, &mut out);
    match out.first() { Some(f) => (true, format!("{}: expected {}, observed {}", f.input, f.expected, f.observed)), None => (false, "holds".into()) }
}
