//! tiny JSON writer (no dependencies)
pub enum J {
    Null,
    Bool(bool),
    Num(f64),
    Str(String),
    Arr(Vec<J>),
    Obj(Vec<(String, J)>),
}
impl J {
    pub fn s(x: &str) -> J {
        J::Str(x.to_string())
    }
    pub fn obj(v: Vec<(&str, J)>) -> J {
        J::Obj(v.into_iter().map(|(k, v)| (k.to_string(), v)).collect())
    }
    pub fn render(&self) -> String {
        match self {
            J::Null => "null".into(),
            J::Bool(b) => b.to_string(),
            J::Num(n) => {
                if n.fract() == 0.0 && n.abs() < 1e15 {
                    format!("{}", *n as i64)
                } else {
                    format!("{n}")
                }
            }
            J::Str(s) => {
                let mut o = String::from("\"");
                for c in s.chars() {
                    match c {
                        '"' => o.push_str("\\\""),
                        '\\' => o.push_str("\\\\"),
                        '\n' => o.push_str("\\n"),
                        '\t' => o.push_str("\\t"),
                        c if (c as u32) < 0x20 => o.push_str(&format!("\\u{:04x}", c as u32)),
                        c => o.push(c),
                    }
                }
                o.push('"');
                o
            }
            J::Arr(v) => format!("[{}]", v.iter().map(|x| x.render()).collect::<Vec<_>>().join(",")),
            J::Obj(v) => format!(
                "{{{}}}",
                v.iter().map(|(k, x)| format!("{}:{}", J::s(k).render(), x.render())).collect::<Vec<_>>().join(",")
            ),
        }
    }
}
