//! C18: the node labels the batch call get_node_labels hands to publish are the labels of the VRF proofs under the key of THAT key
//! storage, for several keys used one after another in one process (process-wide state must not leak from one key to the next).
use crate::{Failure, SearchResult};

fn seeds(seed: u64, n: usize) -> Vec<[u8; 32]> {
    let mut r = crate::rng::Rng(seed ^ 0xC18);
    (0..n).map(|_| { let mut s = [0u8; 32]; for b in s.iter_mut() { *b = (r.next() & 0xff) as u8; } s }).collect()
}
fn tuples() -> Vec<(Vec<u8>, bool, u64)> {
    vec![(vec![], true, 1), (b"a".to_vec(), true, 1), (b"a".to_vec(), false, 1), (b"a".to_vec(), true, 2), (b"ab".to_vec(), true, 1),
         (vec![0x61; 300], true, u64::MAX), (b"a\0".to_vec(), false, 1 << 32)]
}

fn run(cfg: u8, seed: u64, nkeys: usize, rt: &tokio::runtime::Runtime, out: &mut Vec<Failure>) -> u64 {
    let ss = seeds(seed, nkeys);
    let r = if cfg == 0 {
        rt.block_on(akd::vx_export::c18_labels_follow_key::<akd::WhatsAppV1Configuration>(ss.clone(), tuples()))
    } else {
        rt.block_on(akd::vx_export::c18_labels_follow_key::<akd::ExperimentalConfiguration<akd::ExampleLabel>>(ss.clone(), tuples()))
    };
    if let Ok(bad) = r {
        for b in bad.into_iter().take(3) {
            out.push(Failure {
                clause: "vrf_labels/VRFKeyStorage.get_node_labels#E_labels".into(),
                case: vec!["c18".into(), cfg.to_string(), seed.to_string(), nkeys.to_string()],
                input: format!("config {}, {nkeys} VRF secret keys (from seed {seed}) used one after another in this process; get_node_labels on 7 tuples under each", if cfg == 0 { "WhatsAppV1" } else { "Experimental" }),
                expected: "under every key the batch call returns, per tuple, the label the VRF proof of that tuple verifies to under that key; different keys give different labels".into(),
                observed: b,
                finding_id: None,
            });
        }
    }
    (nkeys * 7) as u64
}

pub fn search(seed: u64, full: bool, rt: &tokio::runtime::Runtime) -> SearchResult {
    let mut out = vec![];
    let mut n = 0;
    for cfg in 0..2u8 { n += run(cfg, seed, if full { 6 } else { 3 }, rt, &mut out); }
    SearchResult { evaluations: n, failures: out, summary: "3 (thorough: 6) VRF secret keys used one after another in one process x 7 tuples (empty, prefix-related, long labels; both freshness values; versions up to u64::MAX) x both configurations: batch label == single-call label == label of the VRF proof, which verifies under that key".into() }
}

pub fn replay(case: &[&str], rt: &tokio::runtime::Runtime) -> (bool, String) {
    let mut out = vec![];
    run(case[0].parse().unwrap(), case[1].parse().unwrap(), case[2].parse().unwrap(), rt, &mut out);
    match out.first() { Some(f) => (true, format!("{}: expected {}, observed {}", f.input, f.expected, f.observed)), None => (false, "holds".into()) }
}
