//! C11 (BOUNDED): the property's own scenario at ONE crash point (all records of a commit written except the epoch record), for a
//! label that was NOT updated in the previous epoch: the reader reports the previous epoch and root hash, its lookups, histories and
//! audit proof verify against it with the values of the completed epochs only; once the epoch record is written the new epoch is served.
use crate::{Failure, SearchResult};

fn run(cfg: &str, cache: bool, rt: &tokio::runtime::Runtime, out: &mut Vec<Failure>) {
    let r = if cfg == "whatsapp_v1" {
        rt.block_on(akd::vx_export::c11_partial_commit::<akd_core::WhatsAppV1Configuration>(cache))
    } else {
        rt.block_on(akd::vx_export::c11_partial_commit::<akd_core::ExperimentalConfiguration<akd_core::ExampleLabel>>(cache))
    };
    match r {
        Ok(bad) => if let Some(b) = bad.first() {
            out.push(Failure {
                clause: "replay/c11#reader_of_partial_commit".into(),
                case: vec!["c11".into(), cfg.into(), (cache as u8).to_string()],
                input: format!("[{cfg}, reader {} cache] epoch 1 = {{alice, bob}}, epoch 2 = {{bob}}, epoch 3 = {{alice, bob}}; storage holds everything of epoch 3 except the epoch record; a fresh read-only instance", if cache { "with" } else { "without" }),
                expected: "epoch 2 and its root hash; lookups / histories verify to alice_1 and bob_2; the audit proof 1 -> 2 verifies; after the epoch record is written a fresh instance serves epoch 3".into(),
                observed: format!("{b} ({} problems)", bad.len()),
                finding_id: None,
            });
        },
        Err(e) => out.push(Failure { clause: "replay/c11#reader_of_partial_commit".into(), case: vec!["c11".into(), cfg.into(), (cache as u8).to_string()],
            input: format!("[{cfg}] partial-commit scenario"), expected: "the scenario runs".into(), observed: format!("error: {e}"), finding_id: None }),
    }
}

pub fn search(_seed: u64, _full: bool, rt: &tokio::runtime::Runtime) -> SearchResult {
    let mut out = vec![];
    let mut n = 0;
    for cfg in ["whatsapp_v1", "experimental"] { for cache in [false, true] { run(cfg, cache, rt, &mut out); n += 1; } }
    SearchResult { evaluations: n, failures: out, summary: "BOUNDED: ONE crash point (everything of a commit written except the epoch record) of one three-epoch history with a label not updated in the previous epoch; reader with / without cache; both configurations".into() }
}

pub fn replay(case: &[&str], rt: &tokio::runtime::Runtime) -> (bool, String) {
    let mut out = vec![];
    run(case[0], case[1] == "1", rt, &mut out);
    match out.first() { Some(f) => (true, format!("{}: expected {}, observed {}", f.input, f.expected, f.observed)), None => (false, "holds".into()) }
}
