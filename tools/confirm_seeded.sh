#!/bin/bash
# usage: tools/confirm_seeded.sh <worktree> <change-dir> <seeded-id> <crate-for-existing-tests...>
# Confirms an independently produced change: demo fails with it, passes without it, existing tests of the crates pass with it.
wt="$1"; ch="$2"; id="$3"; shift 3
out=/verif/seeded/$id; mkdir -p "$out"
log="$out/confirm.log"; : > "$log"
cd "$wt" || exit 2
git checkout -q -- . ; git clean -fdq -- akd akd_core examples 2>/dev/null
cmd=$(grep -v '^\s*$' "$ch/demo_cmd.txt" | grep -E "cargo" | head -1 | sed 's/^[`$ ]*//; s/`$//')
cmd=${cmd#*&& }; cmd=${cmd#cd * && }
echo "demo command: $cmd" >> "$log"
git apply "$ch/demo.diff" >> "$log" 2>&1 || { echo "DEMO DIFF DOES NOT APPLY" >> "$log"; }
git apply "$ch/patch.diff" >> "$log" 2>&1 || { echo "PATCH DOES NOT APPLY" >> "$log"; }
echo "--- demo WITH change" >> "$log"
(eval "CARGO_NET_OFFLINE=true $cmd" 2>&1 | grep -E "^test |test result|panicked|error" | head -20) >> "$log"
for c in "$@"; do
  echo "--- existing tests of $c WITH change (demo tests skipped by name are still listed if they fail)" >> "$log"
  (CARGO_NET_OFFLINE=true cargo test -j 8 --offline -p $c 2>&1 | grep -E "test result|FAILED|failed" | head -12) >> "$log"
done
git apply -R "$ch/patch.diff" >> "$log" 2>&1
echo "--- demo WITHOUT change" >> "$log"
(eval "CARGO_NET_OFFLINE=true $cmd" 2>&1 | grep -E "^test |test result|panicked|error" | head -20) >> "$log"
git checkout -q -- . ; git clean -fdq -- akd akd_core examples 2>/dev/null
cp "$ch/patch.diff" "$out/patch.diff"; cp "$ch/demo.diff" "$out/demo.diff"; cp "$ch/demo_cmd.txt" "$out/demo_cmd.txt"; cp "$ch/README.md" "$out/agent_README.md" 2>/dev/null
echo "done $id"
