#!/bin/bash
# usage: tools/seeded_run.sh <patch.diff> <Cxx> [<Cyy> ...]
# applies a seeded change to /repo, runs the named checks (evidence goes to build/evidence-scratch), and restores /repo
set -u
patch="$1"; shift
cd /repo || exit 2
if ! git diff --quiet; then echo "/repo is not clean"; exit 2; fi
git apply "$patch" || { echo "patch does not apply"; exit 2; }
cd /verif
for p in "$@"; do
  VX_SCRATCH_EVIDENCE=1 ./check "$p" 2>&1 | grep -v "^KNOWN-FINDING" | cut -c1-400
  echo "exit($p)=${PIPESTATUS[0]}"
done
git -C /repo checkout -- . && git -C /repo status --short | head -3
