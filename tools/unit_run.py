#!/usr/bin/env python3
# (maintainer) verify single units without the rest of a property's check: tools/unit_run.py <unit> [<unit> ...]
# VX_REPO=<scratch tree> points it at another source tree (e.g. a scratch copy with a seeded change applied).
# Prints status (verified / failed / undecided), the failed obligations and the reason of an undecided run. Writes no evidence.
import os, sys
sys.path.insert(0, os.path.join(os.path.dirname(os.path.abspath(__file__)), ".."))
from vx import verus
rc = 0
for n in sys.argv[1:]:
    r = verus.verify_unit(n)
    print("%s: %s obligations=%s wall=%.1fs" % (n, r.status, r.obligations if isinstance(r.obligations, int) else len(r.obligations or []), r.wall_s))
    for k, v in (r.failed or {}).items():
        print("  FAILED %s: %s" % (k, "; ".join(v)))
    if r.status == "undecided":
        print("  reason: %s" % r.reason); rc = max(rc, 2)
    if r.status == "failed":
        rc = max(rc, 1)
sys.exit(rc)
