#!/bin/bash
# (maintainer) refresh OBLIGATIONS.json / ASSUMPTIONS.json and the committed evidence from runs against /repo itself
cd "$(dirname "$0")/.."
python3 tools/gen_manifest.py
rc=0
for p in $(python3 -c "import json; print(' '.join(c['property_id'] for c in json.load(open('MANIFEST.json'))['checks']))"); do
  ./check $p --update-lists | tail -3
  r=${PIPESTATUS[0]}; [ $r -ne 0 ] && rc=$r
done
exit $rc
