#!/usr/bin/env python3
"""Regenerate MANIFEST.json from vx/registry.py (claims) and tools/not_applicable.json."""
import json, os, sys
ROOT = os.path.dirname(os.path.dirname(os.path.abspath(__file__)))
sys.path.insert(0, ROOT)
from vx import registry

na = json.load(open(os.path.join(ROOT, "tools", "not_applicable.json")))
checks = []
for pid in sorted(registry.PROPS):
    sp = registry.PROPS[pid]
    backends = []
    if sp.get("verus"):
        backends.append("Verus on functions extracted verbatim from /repo each run")
    if sp.get("kani") or sp.get("kani_thorough"):
        backends.append("Kani function harnesses on the compiled crate (overlay)")
    checks.append({
        "property_id": pid,
        "quick_cmd": "./check %s --tier quick" % pid,
        "thorough_cmd": "./check %s --tier thorough" % pid,
        "evidence_file": "/verif/evidence/%s.json" % pid,
        "replay_cmd_template": "./check %s --replay {path}" % pid,
        "engine": "vx",
        "level_claimed": {"category": "proof", "text": sp["scope"], "design_ref": "DESIGN.md section 5 (%s)" % pid},
        "level_note": "Trusted/assumed: " + " | ".join(registry.TRUSTED_BASE + sp.get("trusted", []) + sp.get("assumed", [])),
        "technique": sp.get("technique", "contract-based deductive verification: " + "; ".join(backends)),
    })
claimed = set(registry.PROPS)
m = {
    "version": 1,
    "setup_cmd": "./setup",
    "hooks": {
        "guard": "none",
        "enable": "no source hooks: both back ends work on copies derived from /repo's working tree on every run (Verus: functions extracted verbatim into build/vx_<unit>.rs; Kani and the replay crate: build/overlay = working tree + appended wrapper/harness modules, nothing of the original text changed)",
        "baseline_off_cmd": "cd /repo && cargo test --workspace --no-fail-fast --offline",
        "source_commits": [],
        "add_only": True,
    },
    "engines": [{"name": "vx", "path": "/verif/vx", "serves_properties": sorted(claimed),
                 "kind_free_text": "contract splicer over verbatim-extracted Rust + Verus/Kani runners + obligation classifier + replay of failing inputs on the real code"}],
    "checks": checks,
    "not_applicable": [{"property_id": k, "reason": v} for k, v in sorted(na.items()) if k not in claimed],
    "notes": "exit codes of ./check: 0 held (possibly with KNOWN-FINDING lines), 1 with a VIOLATION line, 2 undecided (tool limit, lost anchor, unsupported construct, proof script no longer matching harmlessly edited code) - never with a VIOLATION line. Repairs of genuine defects are unguarded 'fix:' commits in /repo, listed in known_findings.json.",
}
json.dump(m, open(os.path.join(ROOT, "MANIFEST.json"), "w"), indent=1)
print("MANIFEST.json: %d checks, %d not applicable" % (len(checks), len(m["not_applicable"])))
