#!/usr/bin/env python3
"""Write seeded/<id>/meta.json and seeded/README.md from the table below (maintained by hand after each confirmation)."""
import json, os
ROOT = os.path.dirname(os.path.dirname(os.path.abspath(__file__)))
T = [
 # id, property, source, needs, check result
 ("C09-tiebreak-swap", "C09", "sub-agent (given only the property text)",
  "two labels with the same zero-padded value (a subtree root p and the leaf p||00..0): only then does the swapped length tie-break put the longer label first and hide the overlap",
  "VIOLATION C09: auditor/cmp_padded_value_then_len#E_order and ensure_prefix_free#E_prefix_free no longer provable; failing input from the bounded enumeration of the real helper (replay c09 helper). patch.diff is the agent's diff against a2c6c8b (closure form); patch.rebased.diff is the same one-token change on the named comparator of the current tree"),
 ("C09-empty-shortcut", "C09", "sub-agent",
  "a proof step whose node list is empty while the start tree is not (honest servers only produce that for audits from epoch 0)",
  "VIOLATION C09 no-failing-input-found: auditor/verify_append_only_hash#E_hash (Ok no longer implies that the reconstructed root equals the expected hash)"),
 ("C07-marker-bound", "C07", "sub-agent",
  "a label updated in every epoch since creation, verified at that very epoch, newest version not a power of two: the future marker end_version+1 == epoch is then dropped, so a server can hide the newest version",
  "VIOLATION C07 (and C08): markers/get_marker_versions#E_future with failing input get_marker_versions(1, 2, 3). First run: C07 was SILENT (the marker contents were only alarm-tagged for C08) -> the marker unit and its search were added to C07"),
 ("C07-contiguity-last-pair", "C07", "sub-agent",
  "a forged history whose gap sits exactly before the oldest entry, e.g. versions [5, 4, 3, 1]",
  "VIOLATION C07 no-failing-input-found: verify_history/verify_with_history_params#I_consecutive"),
 ("C13-poller-read-lock", "C13", "sub-agent",
  "cached instance + running change poller + a key_history request in flight exactly when the poller notices a publish by another instance",
  "NOT DETECTED (exit 0): interleavings of the poller with readers are outside the C13 claim (MANIFEST scope: 'Interleavings, the change poller and the cache are not decided'); no contract of this family states a lock discipline"),
 ("C13-signal-before-flush", "C13", "sub-agent",
  "a reader operation in flight when the poller fires and a request issued between the change signal and the cache flush",
  "NOT DETECTED (exit 0): same reason - schedule-dependent, outside the claimed part of C13"),
 ("C06-label-len-unpinned", "C06", "sub-agent",
  "a publish-then-update history and a hand-assembled freshness proof whose label has the stale leaf's bytes but a shortened bit length",
  "VIOLATION C06 no-failing-input-found: verify_base/verify_label#E_label (the claimed node label must equal NodeLabel(truncated VRF output, 256))"),
 ("C06-root-anchor-lcp-exempt", "C06", "sub-agent",
  "exactly a zero-length anchor (the root) combined with children and membership proof taken from another subtree",
  "VIOLATION C06 no-failing-input-found: verify_base/verify_nonmembership#E_sound. First run: exit 2 (the clause was alarm-tagged for C05 only) -> E_sound / I_children / E_fold now also alarm for C06 and C07"),
 ("C05-single-sided-root", "C05", "sub-agent",
  "a tree whose leaves all share the first bit (root with one child) and a prover that anchors at the root",
  "VIOLATION C05: verify_base/verify_nonmembership#E_sound; failing input found by the anchor scan on real trees (leaves 0000.. 0001.., member anchored at the single-sided root)"),
 ("C05-strict-prefix-child", "C05", "sub-agent",
  "two cooperating edits (strict-prefix test for the children + equality check removed as 'subsumed'): only the proof anchored at the direct parent with the member leaf itself as one child verifies",
  "VIOLATION C05 with failing input (anchor of length 255). First run: Verus front end could not resolve get_prefix_ordering in unit verify_base (the search still raised the violation) -> PrefixOrdering / get_prefix_ordering / get_prefix / get_len stubs added to the unit, now #E_sound fails deductively too"),
 ("C15-batch-get-cache-first", "C15", "sub-agent",
  "a storage manager WITH a cache, the record already cached, an open transaction rewriting that same key, and a BATCHED get (single gets unaffected)",
  "First run: NOT DETECTED (gets were outside the claim) -> get_from_cache_only / get / batch_get brought under contract (R-CONTINUE, R-COLLECT); now VIOLATION C15 no-failing-input-found: manager/StorageManager.batch_get#I_provenance (a cache hit is only allowed for a key without a pending record)"),
 ("C15-leq-epoch-tie", "C15", "sub-agent",
  "a pending record with the SAME epoch as the best database match (as tombstoning produces) queried with LeqEpoch",
  "VIOLATION C15 no-failing-input-found: manager/StorageManager.compare_db_and_transaction_records#E_wins"),
 ("C17-derived-ord", "C17", "sub-agent",
  "labels of DIFFERENT length whose byte order contradicts their length order (e.g. '1' vs '00'); equal-length labels unaffected",
  "VIOLATION C17: Kani c17_cmp_contract fails and the pair search gives the failing input (cmp of two labels)"),
 ("C17-partition-duplicates", "C17", "sub-agent",
  "a set holding the same label at least twice, partitioned around that very label (sorted path only)",
  "VIOLATION C17 with failing input from the bounded set-operation enumeration (multisets with repeated labels): sorted partition != unsorted partition"),
 ("C04-empty-insert-rehash", "C04", "sub-agent",
  "an audit starting at epoch 0 (the only case where the auditor rebuilds a tree from an empty node set): the empty insert then rewrites the root with a non-canonical hash",
  "First run: NOT DETECTED -> top level of batch_insert_nodes brought under contract; now VIOLATION C04 no-failing-input-found: azks_audit/Azks.batch_insert_nodes#body (recursive insertion / root write entered with an empty set)"),
 ("C04-range-guards", "C04", "sub-agent",
  "two cooperating sites (Directory::audit and Azks::get_append_only_proof each weakened so that the other masks it): a range starting before and ending after the current epoch",
  "VIOLATION C04 no-failing-input-found: azks_audit/Azks.get_append_only_proof#I_range / #E_refuse"),
 ("C11-history-filter-order", "C11", "sub-agent",
  "partial commit in which the queried label's new value record is already stored, and a MostRecent(n) history request",
  "NOT DETECTED (exit 0): the change is in Directory::key_history (server-side history generation: closures over Vec inside a long async fn, C03 territory); the C11 claim is record-level"),
 ("C11-first-epoch-previous", "C11", "sub-agent",
  "the very first publish (0 -> 1) on a fresh directory, observed while the root record is stored but the epoch record is not",
  "VIOLATION C11 no-failing-input-found: tree_node/TreeNode.write_to_storage#E_record"),
 ("C08-marker-bound", "C08", "sub-agent",
  "the epoch equals one of the future markers of n (e.g. n = 5 at epoch 6) and the label was updated in every epoch (same one-token change as C07-marker-bound, found independently)",
  "VIOLATION C08: markers/get_marker_versions#E_future with failing input get_marker_versions(1, 2, 3)"),
 ("C08-gap-vs-lookup", "C08", "sub-agent",
  "a dishonest tree in which version k was added without retiring k-1, a history with a hole exactly at k, and a lookup proof for k-1",
  "First run: NOT DETECTED by C08 (the clause was alarm-tagged for C07 only) -> verifier units and lemma L2 added to C08; now VIOLATION C08 no-failing-input-found: verify_history/verify_with_history_params#I_consecutive"),
 ("C20-cutoff-version-field", "C20", "sub-agent",
  "a label whose versions lag behind the epochs (not updated in every epoch) and a cut-off falling into that gap",
  "VIOLATION C20 no-failing-input-found: manager/StorageManager.tombstone_value_states#I_only_tombstones (a written record must re-key a state with epoch <= cut-off)"),
 ("C20-lenient-params-dropped", "C20", "sub-agent",
  "AllowMissingValues combined with MostRecent(n) on a label with more than n versions",
  "First run: exit 2 (HistoryParams::default() did not resolve in the unit) -> Default impls added, E_shape alarm-tagged for C20; now VIOLATION C20 no-failing-input-found: verify_history/key_history_verify#E_shape"),
 ("C18-label-len-unchecked", "C18", "sub-agent",
  "only the label_len field of the claimed node label is altered (same value bytes); honest proofs always use 256",
  "VIOLATION C18 no-failing-input-found: verify_base/verify_label#E_label"),
 ("C18-pubkey-length", "C18", "sub-agent",
  "a public key altered by APPENDING bytes (bit flips and truncations are still refused)",
  "First run: NOT DETECTED (ecvrf_impl.rs was wholly trusted) -> Kani harnesses c18_public_key_length / c18_proof_length added (curve operations stubbed, every input length symbolic); now VIOLATION C18 no-failing-input-found: kani/c18_public_key_length"),
 ("C19-absent-optional-becomes-empty", "C19", "sub-agent",
  "an update proof for version 1 (Complete history, or MostRecent(n) reaching the first version): only there are the previous-version fields absent",
  "First run: NOT DETECTED (composite converters were outside the harnesses; Kani did not finish on them) -> bounded whole-proof wire round trip on the real code added; now VIOLATION C19 with failing input: complete history of 'a' comes back with previous_version_vrf_proof Some([]) instead of None"),
 ("C19-short-digest-panics", "C19", "sub-agent",
  "a digest field of fewer than 32 bytes (31, 16, 1, 0); over-long digests still return errors",
  "VIOLATION C19 no-failing-input-found: kani/c19_digest_parse (try_parse_digest must be Err, without panic, for every length other than 32)"),
]
rows = []
for (sid, prop, src, needs, res) in T:
    d = os.path.join(ROOT, "seeded", sid)
    if not os.path.isdir(d):
        continue
    conf = ""
    try:
        conf = open(os.path.join(d, "confirm.log")).read()
    except FileNotFoundError:
        pass
    meta = {"id": sid, "property": prop, "produced_by": src, "needs_to_manifest": needs,
            "confirmed": {"how": "tools/confirm_seeded.sh in the agent's scratch worktree: demo.diff + patch.diff applied -> demo fails; existing tests of the touched crates pass (only the demo's own tests fail); patch reverted -> demo passes",
                          "demo_fails_with_change": "FAILED" in conf.split("--- demo WITHOUT change")[0] if conf else None,
                          "demo_passes_without_change": ("test result: ok" in conf.split("--- demo WITHOUT change")[1]) if "--- demo WITHOUT change" in conf else None},
            "checks_run": "tools/seeded_run.sh <patch> %s  (git -C /repo apply; ./check; git -C /repo checkout -- .)" % prop,
            "result": res}
    json.dump(meta, open(os.path.join(d, "meta.json"), "w"), indent=1)
    rows.append("| %s | %s | %s | %s |" % (sid, prop, needs, res))
open(os.path.join(ROOT, "seeded", "README.md"), "w").write(
    "# Seeded property-breaking changes\n\nEach directory: `patch.diff` (the change), `demo.diff` + `demo_cmd.txt` (a test that fails with the change and passes without), "
    "`confirm.log` (my own confirmation run), `meta.json`, `agent_README.md` (the producer's notes). None of these is ever committed to /repo.\n\n"
    "| id | property | needs to manifest | result of the checks |\n|---|---|---|---|\n" + "\n".join(rows) + "\n")
print(len(rows), "entries")
