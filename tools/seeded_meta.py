#!/usr/bin/env python3
"""Write seeded/<id>/meta.json and seeded/README.md from the table below (maintained by hand after each confirmation)."""
import json, os
ROOT = os.path.dirname(os.path.dirname(os.path.abspath(__file__)))
T = [
 # id, property, source, needs, check result
 ("C09-tiebreak-swap", "C09", "sub-agent (given only the property text)",
  "two labels with the same zero-padded value (a subtree root p and the leaf p||00..0): only then does the swapped length tie-break put the longer label first and hide the overlap",
  "VIOLATION C09: auditor/cmp_padded_value_then_len#E_order and ensure_prefix_free#E_prefix_free no longer provable; failing input from the bounded enumeration of the real helper (replay c09 helper). patch.diff is the agent's diff against a2c6c8b (closure form); patch.rebased.diff is the same one-token change on the named comparator of the current tree"),
 ("C09-empty-shortcut", "C09", "sub-agent",
  "a proof step whose node list is empty while the start tree is not (honest servers only produce that for audits from epoch 0)",
  "VIOLATION C09 no-failing-input-found: auditor/verify_append_only_hash#E_hash (Ok no longer implies that the reconstructed root equals the expected hash)"),
 ("C07-marker-bound", "C07", "sub-agent",
  "a label updated in every epoch since creation, verified at that very epoch, newest version not a power of two: the future marker end_version+1 == epoch is then dropped, so a server can hide the newest version",
  "VIOLATION C07 (and C08): markers/get_marker_versions#E_future with failing input get_marker_versions(1, 2, 3). First run: C07 was SILENT (the marker contents were only alarm-tagged for C08) -> the marker unit and its search were added to C07"),
 ("C07-contiguity-last-pair", "C07", "sub-agent",
  "a forged history whose gap sits exactly before the oldest entry, e.g. versions [5, 4, 3, 1]",
  "VIOLATION C07 no-failing-input-found: verify_history/verify_with_history_params#I_consecutive"),
 ("C13-poller-read-lock", "C13", "sub-agent",
  "cached instance + running change poller + a key_history request in flight exactly when the poller notices a publish by another instance",
  "NOT DETECTED (exit 0): interleavings of the poller with readers are outside the C13 claim (MANIFEST scope: 'Interleavings, the change poller and the cache are not decided'); no contract of this family states a lock discipline"),
 ("C13-signal-before-flush", "C13", "sub-agent",
  "a reader operation in flight when the poller fires and a request issued between the change signal and the cache flush",
  "NOT DETECTED (exit 0): same reason - schedule-dependent, outside the claimed part of C13"),
 ("C06-label-len-unpinned", "C06", "sub-agent",
  "a publish-then-update history and a hand-assembled freshness proof whose label has the stale leaf's bytes but a shortened bit length",
  "VIOLATION C06 no-failing-input-found: verify_base/verify_label#E_label (the claimed node label must equal NodeLabel(truncated VRF output, 256))"),
 ("C06-root-anchor-lcp-exempt", "C06", "sub-agent",
  "exactly a zero-length anchor (the root) combined with children and membership proof taken from another subtree",
  "VIOLATION C06 no-failing-input-found: verify_base/verify_nonmembership#E_sound. First run: exit 2 (the clause was alarm-tagged for C05 only) -> E_sound / I_children / E_fold now also alarm for C06 and C07"),
 ("C05-single-sided-root", "C05", "sub-agent",
  "a tree whose leaves all share the first bit (root with one child) and a prover that anchors at the root",
  "VIOLATION C05: verify_base/verify_nonmembership#E_sound; failing input found by the anchor scan on real trees (leaves 0000.. 0001.., member anchored at the single-sided root)"),
 ("C05-strict-prefix-child", "C05", "sub-agent",
  "two cooperating edits (strict-prefix test for the children + equality check removed as 'subsumed'): only the proof anchored at the direct parent with the member leaf itself as one child verifies",
  "VIOLATION C05 with failing input (anchor of length 255). First run: Verus front end could not resolve get_prefix_ordering in unit verify_base (the search still raised the violation) -> PrefixOrdering / get_prefix_ordering / get_prefix / get_len stubs added to the unit, now #E_sound fails deductively too"),
]
rows = []
for (sid, prop, src, needs, res) in T:
    d = os.path.join(ROOT, "seeded", sid)
    if not os.path.isdir(d):
        continue
    conf = ""
    try:
        conf = open(os.path.join(d, "confirm.log")).read()
    except FileNotFoundError:
        pass
    meta = {"id": sid, "property": prop, "produced_by": src, "needs_to_manifest": needs,
            "confirmed": {"how": "tools/confirm_seeded.sh in the agent's scratch worktree: demo.diff + patch.diff applied -> demo fails; existing tests of the touched crates pass (only the demo's own tests fail); patch reverted -> demo passes",
                          "demo_fails_with_change": "FAILED" in conf.split("--- demo WITHOUT change")[0] if conf else None,
                          "demo_passes_without_change": ("test result: ok" in conf.split("--- demo WITHOUT change")[1]) if "--- demo WITHOUT change" in conf else None},
            "checks_run": "tools/seeded_run.sh <patch> %s  (git -C /repo apply; ./check; git -C /repo checkout -- .)" % prop,
            "result": res}
    json.dump(meta, open(os.path.join(d, "meta.json"), "w"), indent=1)
    rows.append("| %s | %s | %s | %s |" % (sid, prop, needs, res))
open(os.path.join(ROOT, "seeded", "README.md"), "w").write(
    "# Seeded property-breaking changes\n\nEach directory: `patch.diff` (the change), `demo.diff` + `demo_cmd.txt` (a test that fails with the change and passes without), "
    "`confirm.log` (my own confirmation run), `meta.json`, `agent_README.md` (the producer's notes). None of these is ever committed to /repo.\n\n"
    "| id | property | needs to manifest | result of the checks |\n|---|---|---|---|\n" + "\n".join(rows) + "\n")
print(len(rows), "entries")
